"""static / class methods, super(), truthiness of objects and Optional objects."""
import functools



class OBase:
    def __init__(self):
        self.total = 0

    def setup(self, n):
        self.total = n
        return n + 1

    @staticmethod
    def double(x):
        return 2 * x

    @classmethod
    def make_label(cls, x):
        return x + 1

    @staticmethod
    def fill(xs, x):
        xs.append(x)

    def add(self, xs, x):
        xs.append(x + self.total)

    def use_static(self, x):
        return self.double(x) + 1

    def use_class(self, x):
        return self.make_label(x)

    def use_fill(self, xs, x):
        self.fill(xs, x)
        return len(xs)

    def use_add(self, xs):
        self.add(xs, 1)
        return len(xs)

    def loop_add(self, xs, ys):
        for y in ys:
            self.add(xs, y)
        return len(xs)

    def loop_fill(self, xs, ys):
        for y in ys:
            self.fill(xs, y)
        return len(xs)

    @classmethod
    def via_cls(cls, x):
        return cls.double(x) + cls.make_label(x)


class ODerived(OBase):
    def setup(self, n):
        r = super().setup(n + 1)
        return r * 2


def via_class(x):
    return OBase.make_label(x) + OBase.double(x)


class OAnchor:
    def __init__(self, x):
        self.x = x


class OBag:
    def __init__(self, items):
        self.items = list(items)

    def __len__(self):
        return len(self.items)


def pick(a, b):
    c = a or b
    return c.x


def either(a, b):
    if a or b:
        return 1
    return 0


def both(a, b):
    if a and b:
        return a.x + b.x
    return 0


def truthy_obj(a):
    if a:
        return 1
    return 0


def opt_obj(a):
    if not a:
        return -1
    return a.x


def bag_truth(b):
    if b:
        return 1
    return 0


def opt_bag(b):
    if b:
        return len(b)
    return 0


class OPair:
    def __init__(self, a, b):
        self.a = a
        self.b = b

    @property
    def total(self):
        return self.a + self.b

    @property
    def big(self):
        return self.a > 10

    @functools.cached_property
    def scaler(self):
        # round 4: a cached_property that returns a callable-like object is read (contract applied), then used
        return OScaler(self.a)


class OScaler:
    def __init__(self, k):
        self.k = k

    def __call__(self, x):
        return self.k * x

    def scale(self, x):
        return self.k * x


def use_cached(p, x):
    return p.scaler.scale(x) + p.scaler.scale(1)


def use_prop(p):
    if p.big:
        return p.total
    return 0


import enum


class OVersion(enum.IntEnum):
    ONE = 1
    TWO = 2


class OBackend(enum.Enum):
    FAST = "fast"
    SAFE = "safe"


DEFAULT_BACKEND = {1: OBackend.SAFE, 2: OBackend.FAST}


def pick_backend(version, name):
    v = OVersion(version)
    if name is None:
        backend = DEFAULT_BACKEND[v]
    else:
        backend = OBackend(name)
    if backend is OBackend.FAST and v == OVersion.ONE:
        return "unsupported"
    return backend.value + str(v.value)


def backend_name(b):
    return b.name


class OSide:
    def __init__(self, side1):
        self.side1 = side1

    def first_glyphs(self):
        if isinstance(self.side1, tuple):
            return self.side1
        else:
            return (self.side1,)

    def bases(self, marks):
        if isinstance(self.side1, tuple):
            return tuple(g for g in self.side1 if g not in marks)
        return ()


def side_in_marks(p, marks, table):
    if isinstance(p.side1, tuple):
        return 0
    if p.side1 in marks:
        return table.get(p.side1, 1)
    return 2
