"""A library copy (deepcopyExceptFonts / split*) is a snapshot: later stores to the original do not reach the copy."""
from copy import deepcopy


def _needed(doc, other):
    sub = doc.deepcopyExceptFonts()  # snapshot: its .font is still the caller's font
    for s in doc.sources:
        s.font = other  # the ORIGINAL gets another font afterwards
    return sub


def ok_copy_is_snapshot(src):
    d = src.deepcopyExceptFonts()
    sub = _needed(d, deepcopy(src))
    # the copy still holds the caller's font: reading is fine, writing would not be
    return sub.sources[0].font.info


def alarm_copy_still_holds_source_font(src):
    d = src.deepcopyExceptFonts()
    sub = _needed(d, deepcopy(src))
    sub.sources[0].font.info.x = 1


def _needed_ttf(doc, ttf):
    sub = doc.deepcopyExceptFonts()
    for s in doc.sources:
        s.font = ttf
    return sub


def ok_later_store_not_in_snapshot(src):
    d = src.deepcopyExceptFonts()
    t = _T()
    sub = _needed_ttf(d, t)
    for s in sub.sources:
        _use_as_ufo(s.font, src)


class _T:
    def mark(self, x):
        x.width = 1


def _use_as_ufo(font, src):
    # if the later-stored object arrived here as `font`, its method would write to the source
    font.mark(src)


def _needed_store_first(doc, ttf):
    for s in doc.sources:
        s.font = ttf
    sub = doc.deepcopyExceptFonts()
    return sub


def alarm_store_before_copy(src):
    d = src.deepcopyExceptFonts()
    sub = _needed_store_first(d, _T())
    for s in sub.sources:
        _use_as_ufo(s.font, src)


def _needed_loop(doc, ttf):
    subs = []
    for _ in range(2):
        subs.append(doc.deepcopyExceptFonts())
        for s in doc.sources:
            s.font = ttf
    return subs


def alarm_store_and_copy_in_one_loop(src):
    d = src.deepcopyExceptFonts()
    for sub in _needed_loop(d, _T()):
        for s in sub.sources:
            _use_as_ufo(s.font, src)


def alarm_same_object_twice(src):
    d = src.deepcopyExceptFonts()
    t = _T()
    _needed_ttf(d, t)
    sub = _needed_ttf(d, t)  # the second activation copies an object the first one has already written to
    for s in sub.sources:
        _use_as_ufo(s.font, src)


def _store_elsewhere(doc, ttf):
    for s in doc.sources:
        s.font = ttf


def _needed_other_function(doc, ttf):
    sub = doc.deepcopyExceptFonts()
    _store_elsewhere(doc, ttf)
    return sub


def alarm_not_fresh_per_activation(src):
    d = src.deepcopyExceptFonts()
    t = _T()
    _store_elsewhere(d, t)
    sub = _needed_other_function(d, t)
    for s in sub.sources:
        _use_as_ufo(s.font, src)


def _needed_rebound(doc, other_doc, ttf):
    doc = other_doc
    sub = doc.deepcopyExceptFonts()
    for s in doc.sources:
        s.font = ttf
    return sub


def alarm_param_rebound(src):
    d = src.deepcopyExceptFonts()
    e = src.deepcopyExceptFonts()
    t = _T()
    for s in e.sources:
        s.font = t
    sub = _needed_rebound(d, e, t)
    for s in sub.sources:
        _use_as_ufo(s.font, src)


def alarm_split_shares_lib(src):
    from fontTools.designspaceLib.split import splitInterpolable

    for _loc, sub in splitInterpolable(src):
        sub.lib["x"] = 1  # subDoc.lib IS doc.lib


def ok_deepcopy_lib_is_fresh(src):
    d = src.deepcopyExceptFonts()
    d.lib["x"] = 1


def alarm_deepcopy_font_is_shared(src):
    d = src.deepcopyExceptFonts()
    for s in d.sources:
        s.font.lib["x"] = 1
