"""Flow-sensitive devices: strong updates of locals and fields, `is None` pruning, literal loops."""
from copy import deepcopy


# ---- strong update of a local at the top level of a function -------------------------------------------------------
def ok_rebind_top(src):
    x = src
    x = deepcopy(x)
    x.width = 1


def alarm_rebind_in_branch(src):
    x = src
    if src.flag:
        x = deepcopy(x)
    x.width = 1


def alarm_rebind_after_use(src):
    x = src
    x.width = 1
    x = deepcopy(x)


def alarm_rebind_in_loop(src):
    x = src
    for _ in range(2):
        x.width = 1
        x = deepcopy(x)


def alarm_rebind_then_alias_back(src):
    x = src
    x = deepcopy(x)
    x = src
    x.width = 1


def alarm_closure_sees_old_binding(src):
    x = src

    def f():
        x.width = 1

    f()
    x = deepcopy(x)


def ok_inplace_guarded_copy(src, inplace=False):
    if not inplace:
        src = deepcopy(src)
    src.width = 1


# ---- strong read of a field after `x.f = []` -----------------------------------------------------------------------
class Acc:
    def __init__(self):
        self.items = []

    def fill(self, x):
        self.items.append(x)

    def reset_and_touch(self):
        self.items = []
        self.items.append(1)
        for i in self.items:
            i.width = 1


def ok_strong_field_read(src):
    a = Acc()
    a.fill(src)
    a.items = []
    for i in a.items:
        i.width = 1


def alarm_field_without_reset(src):
    a = Acc()
    a.fill(src)
    for i in a.items:
        i.width = 1


def alarm_field_reset_then_call_refills(src):
    a = Acc()
    a.items = []
    a.fill(src)  # a call in between rewrites the field's contents
    for i in a.items:
        i.width = 1


def alarm_field_reset_other_object(src):
    a = Acc()
    b = Acc()
    a.fill(src)
    b.items = []
    for i in a.items:
        i.width = 1


def alarm_field_reset_alias(src):
    a = Acc()
    b = a
    a.items = []
    b.items = [src]  # same field through an alias
    for i in a.items:
        i.width = 1


def alarm_field_reset_in_branch(src):
    a = Acc()
    a.fill(src)
    if src.flag:
        a.items = []
    for i in a.items:
        i.width = 1


def alarm_field_reset_rebind_receiver(src):
    a = Acc()
    a.items = []
    a = Acc()
    a.fill(src)
    for i in a.items:
        i.width = 1


def alarm_field_reset_loop_refill(src):
    a = Acc()
    a.items = []
    for _ in range(2):
        for i in a.items:
            i.width = 1
        a.items.append(src)


# ---- `x is None` decided from the fixpoint ------------------------------------------------------------------------
def _maybe(x, y=None):
    if y is None:
        y = x
    y.width = 1


def ok_none_test_decided(src):
    _maybe(src, deepcopy(src))


def alarm_none_test_both(src):
    _maybe(src, deepcopy(src))
    _maybe(src)


def _lib_may_be_none(x):
    y = x.lookup("a")  # a library result may be None
    if y is None:
        x.width = 1


def alarm_none_test_library_result(src):
    _lib_may_be_none(src)


def _none_test_field(h, x):
    if h.cache is None:
        h.cache = x
    h.cache.width = 1


class H:
    def __init__(self):
        self.cache = None


def alarm_none_test_field_initially_none(src):
    _none_test_field(H(), src)


def _is_not_none(x, y=None):
    if y is not None:
        return
    x.width = 1


def alarm_is_not_none_default(src):
    _is_not_none(src)


def ok_is_not_none_given(src):
    _is_not_none(src, 1 or deepcopy(src))


def _none_cycle(a, b, x):
    # a decision that is only justified by itself must not survive: a is None on the first call
    if a is None:
        b = None
    if b is None:
        x.width = 1


def alarm_none_cycle(src):
    _none_cycle(None, deepcopy(src), src)


# ---- `for x in (a, b)`: after the loop x is the last element -----------------------------------------------------------
def ok_literal_loop_last(src):
    c = deepcopy(src)
    for x in (src, c):
        pass
    x.width = 1


def alarm_literal_loop_last(src):
    c = deepcopy(src)
    for x in (c, src):
        pass
    x.width = 1


def alarm_literal_loop_break(src):
    c = deepcopy(src)
    for x in (src, c):
        if src.flag:
            break
    x.width = 1


def alarm_literal_loop_inside(src):
    c = deepcopy(src)
    for x in (src, c):
        x.width = 1


# ---- truthiness / comparisons are NOT decided ----------------------------------------------------------------------
def _truthy(flag, x):
    if flag:
        return
    x.width = 1


def alarm_truthiness_of_object(src):
    _truthy(deepcopy(src), src)  # an object may be falsy (empty container, __len__ == 0)


def ok_truthiness_const_true(src):
    _truthy(True, src)


def alarm_truthiness_const_false(src):
    _truthy(False, src)


# ---- constants of the calling context only hold until the parameter is rebound --------------------------------------
def _flag_rebound(x, flag=False):
    flag = x.flag
    if flag:
        x.width = 1


def alarm_const_param_rebound(src):
    _flag_rebound(src)


def _flag_rebound_in_loop(xs, x, flag=False):
    for y in xs:
        if flag:
            x.width = 1
        flag = y


def alarm_const_param_rebound_in_loop(src):
    _flag_rebound_in_loop([1, 2], src)


def _flag_closure(x, flag=False):
    def inner():
        if flag:
            x.width = 1

    flag = True
    inner()


def alarm_const_param_closure_late(src):
    _flag_closure(src)


def _flag_walrus(x, flag=False):
    y = 1 if (flag := x.flag) else 0
    if flag:
        x.width = 1


def alarm_const_param_walrus(src):
    _flag_walrus(src)


def _none_param_rebound(x, y=None):
    y = x.other
    if y is None:
        return
    x.width = 1


def alarm_none_param_rebound(src):
    _none_param_rebound(src)
