"""Flow-sensitive devices: strong updates of locals and fields, `is None` pruning, literal loops."""
from copy import deepcopy


# ---- strong update of a local at the top level of a function -------------------------------------------------------
def ok_rebind_top(src):
    x = src
    x = deepcopy(x)
    x.width = 1


def alarm_rebind_in_branch(src):
    x = src
    if src.flag:
        x = deepcopy(x)
    x.width = 1


def alarm_rebind_after_use(src):
    x = src
    x.width = 1
    x = deepcopy(x)


def alarm_rebind_in_loop(src):
    x = src
    for _ in range(2):
        x.width = 1
        x = deepcopy(x)


def alarm_rebind_then_alias_back(src):
    x = src
    x = deepcopy(x)
    x = src
    x.width = 1


def alarm_closure_sees_old_binding(src):
    x = src

    def f():
        x.width = 1

    f()
    x = deepcopy(x)


def ok_inplace_guarded_copy(src, inplace=False):
    if not inplace:
        src = deepcopy(src)
    src.width = 1


# ---- strong read of a field after `x.f = []` -----------------------------------------------------------------------
class Acc:
    def __init__(self):
        self.items = []

    def fill(self, x):
        self.items.append(x)

    def reset_and_touch(self):
        self.items = []
        self.items.append(1)
        for i in self.items:
            i.width = 1


class Acc0:
    def __init__(self, items):
        self.items = items


def ok_strong_field_read(src):
    a = Acc0(src.glyphs)
    a.items = []
    for i in a.items:
        i.width = 1


def alarm_field_without_reset(src):
    a = Acc()
    a.fill(src)
    for i in a.items:
        i.width = 1


def alarm_field_reset_then_call_refills(src):
    a = Acc()
    a.items = []
    a.fill(src)  # a call in between rewrites the field's contents
    for i in a.items:
        i.width = 1


def alarm_field_reset_other_object(src):
    a = Acc()
    b = Acc()
    a.fill(src)
    b.items = []
    for i in a.items:
        i.width = 1


def alarm_field_reset_alias(src):
    a = Acc()
    b = a
    a.items = []
    b.items = [src]  # same field through an alias
    for i in a.items:
        i.width = 1


def alarm_field_reset_in_branch(src):
    a = Acc()
    a.fill(src)
    if src.flag:
        a.items = []
    for i in a.items:
        i.width = 1


def alarm_field_reset_rebind_receiver(src):
    a = Acc()
    a.items = []
    a = Acc()
    a.fill(src)
    for i in a.items:
        i.width = 1


def alarm_field_reset_loop_refill(src):
    a = Acc()
    a.items = []
    for _ in range(2):
        for i in a.items:
            i.width = 1
        a.items.append(src)


# ---- `x is None` decided from the fixpoint ------------------------------------------------------------------------
def _maybe(x, y=None):
    if y is None:
        y = x
    y.width = 1


def ok_none_test_decided(src):
    _maybe(src, deepcopy(src))


def alarm_none_test_both(src):
    _maybe(src, deepcopy(src))
    _maybe(src)


def _lib_may_be_none(x):
    y = x.lookup("a")  # a library result may be None
    if y is None:
        x.width = 1


def alarm_none_test_library_result(src):
    _lib_may_be_none(src)


def _none_test_field(h, x):
    if h.cache is None:
        h.cache = x
    h.cache.width = 1


class H:
    def __init__(self):
        self.cache = None


def alarm_none_test_field_initially_none(src):
    _none_test_field(H(), src)


def _is_not_none(x, y=None):
    if y is not None:
        return
    x.width = 1


def alarm_is_not_none_default(src):
    _is_not_none(src)


def ok_is_not_none_given(src):
    _is_not_none(src, 1 or deepcopy(src))


def _none_cycle(a, b, x):
    # a decision that is only justified by itself must not survive: a is None on the first call
    if a is None:
        b = None
    if b is None:
        x.width = 1


def alarm_none_cycle(src):
    _none_cycle(None, deepcopy(src), src)


# ---- `for x in (a, b)`: after the loop x is the last element -----------------------------------------------------------
def ok_literal_loop_last(src):
    c = deepcopy(src)
    for x in (src, c):
        pass
    x.width = 1


def alarm_literal_loop_last(src):
    c = deepcopy(src)
    for x in (c, src):
        pass
    x.width = 1


def alarm_literal_loop_break(src):
    c = deepcopy(src)
    for x in (src, c):
        if src.flag:
            break
    x.width = 1


def alarm_literal_loop_inside(src):
    c = deepcopy(src)
    for x in (src, c):
        x.width = 1


# ---- truthiness / comparisons are NOT decided ----------------------------------------------------------------------
def _truthy(flag, x):
    if flag:
        return
    x.width = 1


def alarm_truthiness_of_object(src):
    _truthy(deepcopy(src), src)  # an object may be falsy (empty container, __len__ == 0)


def ok_truthiness_const_true(src):
    _truthy(True, src)


def alarm_truthiness_const_false(src):
    _truthy(False, src)


# ---- constants of the calling context only hold until the parameter is rebound --------------------------------------
def _flag_rebound(x, flag=False):
    flag = x.flag
    if flag:
        x.width = 1


def alarm_const_param_rebound(src):
    _flag_rebound(src)


def _flag_rebound_in_loop(xs, x, flag=False):
    for y in xs:
        if flag:
            x.width = 1
        flag = y


def alarm_const_param_rebound_in_loop(src):
    _flag_rebound_in_loop([1, 2], src)


def _flag_closure(x, flag=False):
    def inner():
        if flag:
            x.width = 1

    flag = True
    inner()


def alarm_const_param_closure_late(src):
    _flag_closure(src)


def _flag_walrus(x, flag=False):
    y = 1 if (flag := x.flag) else 0
    if flag:
        x.width = 1


def alarm_const_param_walrus(src):
    _flag_walrus(src)


def _none_param_rebound(x, y=None):
    y = x.other
    if y is None:
        return
    x.width = 1


def alarm_none_param_rebound(src):
    _none_param_rebound(src)


# ---- string constants: attribute names and keys ------------------------------------------------------------------
class _T:
    pass


def _copy_attrs(dst, src_, names):
    for n in names:
        v = getattr(src_, n, None)
        if v is not None:
            setattr(dst, n, v)


def ok_copy_named_attrs(src):
    a = _T()
    a.keep = src
    a.other = deepcopy(src)
    b = _T()
    _copy_attrs(b, a, {"other"})
    b.other.width = 1


def alarm_copy_named_attrs(src):
    a = _T()
    a.keep = src
    a.other = deepcopy(src)
    b = _T()
    _copy_attrs(b, a, {"keep", "other"})
    b.keep.width = 1


def alarm_copy_named_attrs_rebound(src):
    a = _T()
    a.keep = src
    b = _T()
    _copy_attrs_rebound(b, a, {"other"})
    b.keep.width = 1


def _copy_attrs_rebound(dst, src_, names):
    names = names | {"keep"}
    for n in names:
        setattr(dst, n, getattr(src_, n, None))


def alarm_copy_attrs_unknown_names(src):
    a = _T()
    a.keep = src
    b = _T()
    _copy_attrs(b, a, set(src.names))
    b.keep.width = 1


def ok_dict_keys(src):
    d = {"a": src, "b": deepcopy(src)}
    d["b"].width = 1


def alarm_dict_keys(src):
    d = {"a": src, "b": deepcopy(src)}
    d["a"].width = 1


def alarm_dict_key_unknown_store(src):
    d = {"b": deepcopy(src)}
    d[src.name] = src
    d["b"].width = 1


def alarm_dict_key_update(src):
    d = {"b": deepcopy(src)}
    d.update({"b": src})
    d["b"].width = 1


def _get_key(d, k):
    return d[k]


def ok_key_through_call(src):
    d = {"a": src, "b": deepcopy(src)}
    _get_key(d, "b").width = 1


def alarm_key_through_call(src):
    d = {"a": src, "b": deepcopy(src)}
    _get_key(d, "a").width = 1


def alarm_key_through_call_unknown(src):
    d = {"a": src, "b": deepcopy(src)}
    _get_key(d, src.name).width = 1


def ok_loop_over_literal_keys(src):
    d = {"a": src, "b": deepcopy(src), "c": deepcopy(src)}
    for k in ("b", "c"):
        d[k].width = 1


def alarm_loop_over_literal_keys(src):
    d = {"a": src, "b": deepcopy(src), "c": deepcopy(src)}
    for k in ("b", "a"):
        d[k].width = 1


def alarm_loop_var_after_rebind(src):
    d = {"a": src, "b": deepcopy(src)}
    for k in ("b",):
        k = "a"
        d[k].width = 1


def alarm_loop_key_via_items(src):
    names = {"x": "a", "y": "b"}
    d = {"x": src, "y": deepcopy(src)}
    for k, v in names.items():
        d[k].width = 1


def ok_loop_key_via_items(src):
    names = {"y": "b"}
    d = {"x": src, "y": deepcopy(src)}
    for k, v in names.items():
        d[k].width = 1


def alarm_local_dict_mutated_before_loop(src):
    names = {"y": "b"}
    names["x"] = "a"
    d = {"x": src, "y": deepcopy(src)}
    for k, v in names.items():
        d[k].width = 1


_NAMES = ("y",)
_NAMES_MUT = ["y"]


def ok_module_constant_names(src):
    d = {"x": src, "y": deepcopy(src)}
    for k in _NAMES:
        d[k].width = 1


def alarm_module_names_mutated(src):
    _NAMES_MUT.append("x")
    d = {"x": src, "y": deepcopy(src)}
    for k in _NAMES_MUT:
        d[k].width = 1


def alarm_instance_dict_store(src):
    t = _T()
    t.__dict__["f"] = src
    t.f.width = 1


# ---- narrowing of a local by the guarding test -----------------------------------------------------------------------
def _scalar_guard(tbl, value):
    if isinstance(value, (str, bytes)):
        tbl["k"] = value  # an immutable scalar: nothing of the source can be written through it
    else:
        raise TypeError


def ok_scalar_guard(src):
    tbl = {}
    _scalar_guard(tbl, src.lib["x"])
    for v in tbl.values():
        v.append(1)


def _scalar_guard_bad(tbl, value):
    if isinstance(value, (str, list)):
        tbl["k"] = value
    else:
        raise TypeError


def alarm_scalar_guard_list(src):
    tbl = {}
    _scalar_guard_bad(tbl, src.lib["x"])
    for v in tbl.values():
        v.append(1)


def _guard_then_rebind(tbl, value, other):
    if isinstance(value, str):
        value = other
        tbl["k"] = value


def alarm_guard_then_rebind(src):
    tbl = {}
    _guard_then_rebind(tbl, src.lib["x"], src.lib["y"])
    tbl["k"].append(1)


def _raise_guard(tbl, value):
    if not isinstance(value, bytes):
        raise TypeError
    tbl["k"] = value


def ok_raise_guard(src):
    tbl = {}
    _raise_guard(tbl, src.lib["x"])
    tbl["k"].append(1)


def _raise_guard_rebind_in_branch(tbl, value, other):
    if not isinstance(value, bytes):
        value = other
    else:
        return
    tbl["k"] = value


def alarm_raise_guard_rebind_in_branch(src):
    tbl = {}
    _raise_guard_rebind_in_branch(tbl, src.lib["x"], src.lib["y"])
    tbl["k"].append(1)


def _guard_in_loop(tbl, values):
    v = None
    for x in values:
        if isinstance(v, str):
            continue
        tbl["k"] = v
        v = x


def alarm_guard_in_loop(src):
    tbl = {}
    _guard_in_loop(tbl, src.lib["xs"])
    tbl["k"].append(1)


def _guard_lambda(value):
    if isinstance(value, str):
        return None
    return lambda: value.append(1)


def alarm_guard_lambda_other_branch(src):
    _guard_lambda(src.lib["x"])()


def _guard_genexp(value, other):
    if isinstance(value, str):
        g = (value for _ in range(1))  # runs later, after `value` has been rebound
        value = other
        for v in g:
            v.append(1)


def alarm_guard_genexp_deferred(src):
    _guard_genexp(src.lib["x"], src.lib["y"])


def _none_guard(a, x):
    if a is None:
        return
    a.width = 1


def ok_none_guard(src):
    _none_guard(None, src)


def alarm_none_guard(src):
    _none_guard(src, src)


def _attr_guard(h, x):
    # narrowing applies to plain local names only: `h.v` may change between test and use
    if isinstance(h.v, str):
        h.reset(x)
        h.v.append(1)


class _H2:
    def __init__(self):
        self.v = "s"

    def reset(self, x):
        self.v = x


def alarm_attribute_not_narrowed(src):
    _attr_guard(_H2(), src.lib["x"])


# ---- the assignment that certainly reaches a read (block-local strong update) -------------------------------------------
def ok_reaching_def_in_else(src):
    try:
        g = src.glyphs["a"]
    except KeyError:
        g = None
    else:
        g = deepcopy(g)
        g.width = 1


def alarm_reaching_def_other_branch(src):
    if src.flag:
        g = deepcopy(src)
    else:
        g = src
    g.width = 1


def ok_reaching_def_in_loop(src):
    for x in src.glyphs:
        g = x
        g = deepcopy(g)
        g.width = 1


def alarm_reaching_def_loop_carried(src):
    g = deepcopy(src)
    for x in src.glyphs:
        g.width = 1  # sees the binding of the previous iteration
        g = x


def alarm_reaching_def_nested_rebind(src):
    g = deepcopy(src)
    if src.flag:
        g = src
    g.width = 1


def alarm_reaching_def_try_interrupted(src):
    g = src
    try:
        g = deepcopy(src.other)  # may raise before binding
    except Exception:
        g.width = 1


def alarm_reaching_def_handler_binds(src):
    g = deepcopy(src)
    try:
        src.check()
    except Exception:
        g = src
    g.width = 1


def alarm_reaching_def_while_header(src):
    g = deepcopy(src)
    n = 0
    while g.ok and n < 2:
        g.width = 1
        g = src
        n += 1


def alarm_reaching_def_walrus_between(src):
    g = deepcopy(src)
    if (g := src) is not None:
        pass
    g.width = 1


def alarm_reaching_def_tuple_target_between(src):
    g = deepcopy(src)
    g, h = src, 1
    g.width = 1


def alarm_reaching_def_for_target_between(src):
    g = deepcopy(src)
    for g in [src]:
        pass
    g.width = 1


def alarm_reaching_def_with_target(src):
    g = deepcopy(src)
    with src.ctx() as g:
        pass
    g.width = 1


def alarm_reaching_def_closure_deferred(src):
    g = deepcopy(src)
    f = lambda: g.anchors.clear()  # noqa: E731
    g = src
    f()


def ok_reaching_def_rhs_reads_old(src):
    g = src
    g = deepcopy(g)
    h = g
    h.width = 1


def alarm_reaching_def_del_between(src):
    g = deepcopy(src)
    del g
    g = src
    g.width = 1


def alarm_reaching_def_match(src):
    g = deepcopy(src)
    match src.kind:
        case 1:
            g = src
        case _:
            pass
    g.width = 1


def _guard_then_rebind_later(tbl, value, other):
    if isinstance(value, str):
        tbl["k"] = value  # still the string
        value = other
        tbl["j"] = value  # no longer


def ok_guard_prefix_before_rebind(src):
    tbl = {}
    _guard_then_rebind_later(tbl, src.lib["x"], 1)
    tbl["k"].append(1)


def alarm_guard_prefix_after_rebind(src):
    tbl = {}
    _guard_then_rebind_later(tbl, src.lib["x"], src.lib["y"])
    tbl["j"].append(1)


# ---- numbers and strings are invisible to the analysis: a decision must not rest on their absence --------------------------
def _none_or_number(src, y=None):
    if y is None:
        return
    src.width = 1


def alarm_none_test_scalar_argument(src):
    _none_or_number(src)
    _none_or_number(src, 5)


def _none_or_string_attr(src, y=None):
    if y is None:
        return
    src.width = 1


def alarm_none_test_string_from_source(src):
    _none_or_string_attr(src)
    _none_or_string_attr(src, "x".upper())


class _Foo:
    pass


def _foo_or_string(src, x):
    if isinstance(x, _Foo):
        return
    src.width = 1


def alarm_isinstance_scalar_argument(src):
    _foo_or_string(src, _Foo())
    _foo_or_string(src, "name")


def _foo_or_len(src, x):
    if isinstance(x, _Foo):
        return
    src.width = 1


def alarm_isinstance_computed_scalar(src):
    _foo_or_len(src, _Foo())
    _foo_or_len(src, len(src.glyphs))


def _none_or_computed(src, y):
    if y is None:
        return
    src.width = 1


def alarm_none_test_none_or_number(src):
    _none_or_computed(src, None if src.flag else len(src.glyphs))


def _none_or_computed2(src, y):
    if y is None:
        return
    src.width = 1


def ok_none_test_always_none(src):
    _none_or_computed2(src, None if src.flag else None)


def _str_or_foo(src, x):
    if isinstance(x, str):
        src.width = 1


def alarm_isinstance_str_not_decided_false(src):
    _str_or_foo(src, _Foo())
    _str_or_foo(src, "a" + src.name)


def _str_or_foo2(src, x):
    if isinstance(x, str):
        src.width = 1


def ok_isinstance_str_decided_false(src):
    _str_or_foo2(src, _Foo())


def alarm_isinstance_enumerate_index(src):
    for i, g in enumerate([_Foo()]):
        _foo_or_len2(src, i)
        _foo_or_len2(src, g)


def _foo_or_len2(src, x):
    if isinstance(x, _Foo):
        return
    src.width = 1


# ---- containers made from untracked values are containers all the same -----------------------------------------------------
def alarm_list_from_string_method(src):
    parts = "a b".split()
    parts.append(src)
    parts[-1].width = 1


def ok_list_from_string_method(src):
    parts = src.name.split()
    parts.append(deepcopy(src))
    parts[-1].width = 1


def alarm_bound_append_as_value(src):
    xs = []
    add = xs.append
    add(src)
    xs[0].width = 1


def alarm_bound_dict_setdefault_as_value(src):
    d = {}
    put = d.setdefault
    put("k", src)
    d["k"].width = 1


def alarm_source_bound_mutator_as_value(src):
    f = src.appendAnchor
    f({})


# ---- match statements: names captured by patterns ---------------------------------------------------------------------------
def alarm_match_capture(src):
    match src:
        case x:
            x.width = 1


def alarm_match_capture_sequence(src):
    match [1, [src]]:
        case [_, [y]]:
            y.width = 1


def alarm_match_capture_star(src):
    match (1, src, src):
        case (_, *rest):
            rest[0].width = 1


def alarm_match_capture_mapping_rest(src):
    match {"a": 1, "b": src}:
        case {"a": 1, **others}:
            others["b"].width = 1


def alarm_match_capture_class_attribute(src):
    h = _Holder(src)
    match h:
        case _Holder(item=z):
            z.width = 1


def ok_match_capture_copy(src):
    match [1, deepcopy(src)]:
        case [_, y]:
            y.width = 1


class _Holder:
    def __init__(self, item):
        self.item = item


def alarm_source_method_computed_name(src):
    getattr(src, "set" + src.kind)(1)


def ok_source_getter_as_value(src):
    f = src.getBounds
    b = f()
    b.append(1)


def alarm_source_draw_as_value(src):
    pen = src.glyphs[0].getPen()
    d = src.glyphs[1].draw
    d(pen)


# ---- a function that can fall off its end returns None ------------------------------------------------------------------------
def _maybe_foo(x):
    if x.flag:
        return _Foo()


def alarm_implicit_none_return(src):
    y = _maybe_foo(src)
    if y is None:
        src.width = 1


def _always_foo(x):
    if x.flag:
        return _Foo()
    else:
        return _Foo()


def ok_no_implicit_none_return(src):
    y = _always_foo(src)
    if y is None:
        src.width = 1
