"""A list field that the constructor of the USER object empties and refills before the user object can be used."""
from copy import deepcopy


class Store:
    def __init__(self, layers):
        self.layers = layers
        self.other = []

    def replace(self, new):
        self.layers[:] = [(k, n) for (k, _), n in zip(self.layers, new)]
        self.other.clear()

    def append_more(self, x):
        self.layers.append(x)

    def first(self):
        return self.layers[0][1]


def make_store(src):
    layers = []
    for g in src.glyphs:
        layers.append((g.name, g))
    return Store(layers)


class User:
    def __init__(self, src, store):
        self.src = src
        self.store = store
        self.copies = [deepcopy(g) for g in src.glyphs]
        self._update()
        self.run()

    def _update(self):
        if self.store is not None:
            self.store.replace(self.copies)

    def run(self):
        if self.store is not None:
            self.store.first().width = 1


def ok_replaced_in_constructor(src):
    u = User(src, make_store(src))
    u.run()


def alarm_stale_reference_sees_old(src):
    st = make_store(src)
    st.first().width = 1
    User(src, st)


def alarm_read_before_user_exists(src):
    st = make_store(src)
    old = st.layers
    u = User(src, st)
    old[0][1].width = 1  # the same list object, fine -- but abstractly it still holds the old pairs


class UserNoUpdate(User):
    def _update(self):
        pass


def alarm_wrapper_overridden(src):
    UserNoUpdate(src, make_store(src)).run()


class UserCond:
    def __init__(self, src, store, flag):
        self.store = store
        self.copies = [deepcopy(g) for g in src.glyphs]
        if flag:
            self._update()

    def _update(self):
        if self.store is not None:
            self.store.replace(self.copies)

    def run(self):
        self.store.first().width = 1


def alarm_conditional_update(src):
    UserCond(src, make_store(src), src.flag).run()


class UserEarlyUse:
    def __init__(self, src, store):
        self.store = store
        self.copies = [deepcopy(g) for g in src.glyphs]
        self.run()  # uses the store before it is refilled
        self._update()

    def _update(self):
        if self.store is not None:
            self.store.replace(self.copies)

    def run(self):
        self.store.first().width = 1


def alarm_used_before_update(src):
    UserEarlyUse(src, make_store(src))


class UserEscapes:
    registry = []

    def __init__(self, src, store):
        UserEscapes.registry.append(self)  # escapes before the refill
        self.store = store
        self.copies = [deepcopy(g) for g in src.glyphs]
        self._update()

    def _update(self):
        if self.store is not None:
            self.store.replace(self.copies)

    def run(self):
        self.store.first().width = 1


def alarm_self_escapes_first(src):
    UserEscapes(src, make_store(src)).run()


class UserReassigned(User):
    def swap(self, store):
        self.store = store


def alarm_field_reassigned_later(src):
    u = UserReassigned(src, make_store(src))
    u.swap(make_store(src))
    u.run()


class UserSetattr(User):
    def swap(self, store):
        setattr(self, "store", store)


def alarm_field_reassigned_by_setattr(src):
    u = UserSetattr(src, make_store(src))
    u.swap(make_store(src))
    u.run()


class StoreAppendOnly(Store):
    def replace(self, new):
        self.layers.extend((1, n) for n in new)  # does not remove the old pairs


def alarm_replace_does_not_clear(src):
    layers = []
    for g in src.glyphs:
        layers.append((g.name, g))
    User(src, StoreAppendOnly(layers)).run()


def alarm_source_added_after_refill(src):
    u = User(src, make_store(src))
    u.store.append_more((1, src.glyphs[0]))
    u.run()


def alarm_refill_with_sources(src):
    class_ = User
    u = UserRefillSrc(src, make_store(src))
    u.run()


class UserRefillSrc(User):
    def __init__(self, src, store):
        super().__init__(src, store)

    def _update(self):
        if self.store is not None:
            self.store.replace(self.src.glyphs)


def alarm_list_field_swapped_for_prefilled(src):
    u = User(src, make_store(src))
    fresh = []
    fresh.append((1, src.glyphs[0]))
    u.store.layers = fresh  # a new, locally filled list is put into the field after the refill
    u.run()


class SubUserEscapes(User):
    keep = []

    def __init__(self, src, store):
        SubUserEscapes.keep.append(self)  # the object escapes before the base constructor runs
        super().__init__(src, store)


def alarm_subclass_escapes_before_super(src):
    SubUserEscapes(src, make_store(src)).run()


def _prefill_then_alias(src):
    xs = []
    ys = xs  # a second reference exists before the appends: they are not "before escape"
    xs.append((1, src.glyphs[0]))
    return Store(ys)


def alarm_alias_before_fill(src):
    # refilled through the user, but make sure the pre-fill was not wrongly discarded when an alias existed
    st = _prefill_then_alias(src)
    UserKeepsAlias(src, st).run()


class UserKeepsAlias(User):
    pass
