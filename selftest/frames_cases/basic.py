"""Direct writes, aliases through locals / containers / helper functions, copies."""
import copy
from copy import deepcopy


def alarm_attr_store(src):
    src.width = 1


def alarm_subscript_store(src):
    src.lib["k"] = 1


def alarm_mutator(src):
    src.anchors.append(1)


def alarm_del(src):
    del src.lib["k"]


def alarm_alias_local(src):
    x = src
    y = x
    y.width = 2


def ok_deepcopy(src):
    c = deepcopy(src)
    c.width = 1
    c.lib["k"] = 2


def ok_copy_module(src):
    c = copy.deepcopy(src)
    c.anchors.append(1)


def alarm_shallow_list_copy(src):
    # the list is new, its elements are not
    xs = list(src.glyphs)
    for g in xs:
        g.width = 0


def ok_shallow_list_copy_mutate_list(src):
    xs = list(src.glyphs)
    xs.append(1)


def alarm_via_list(src):
    xs = []
    xs.append(src)
    for x in xs:
        x.width = 1


def alarm_via_dict(src):
    d = {}
    d["a"] = src
    d["a"].width = 1


def alarm_via_dict_values(src):
    d = {"a": src}
    for v in d.values():
        v.width = 1


def alarm_via_dict_items(src):
    d = {"a": src}
    for k, v in d.items():
        v.width = 1


def ok_via_dict_items_key(src):
    d = {"a": deepcopy(src)}
    for k, v in d.items():
        v.width = 1


def alarm_via_tuple_unpack(src):
    a, b = (deepcopy(src), src)
    b.width = 1


def ok_via_tuple_unpack(src):
    a, b = (deepcopy(src), src)
    a.width = 1


def alarm_nested_container(src):
    xs = [[src]]
    for ys in xs:
        for y in ys:
            y.width = 1


def alarm_comprehension(src):
    xs = [g for g in src]
    xs[0].width = 1


def ok_comprehension_copy(src):
    xs = [deepcopy(g) for g in src]
    xs[0].width = 1


def alarm_dict_comprehension(src):
    d = {g.name: g for g in src}
    d["a"].width = 1


def alarm_generator_expression(src):
    d = dict((g.name, g) for g in src)
    d["a"].width = 1


def _helper_mutates(x):
    x.width = 1


def alarm_helper(src):
    _helper_mutates(src)


def ok_helper(src):
    _helper_mutates(deepcopy(src))


def _identity(x):
    return x


def alarm_identity(src):
    _identity(src).width = 1


def alarm_aug_assign_list(src):
    xs = src.glyphs
    xs += [1]


def alarm_slice(src):
    xs = [src, src]
    ys = xs[1:]
    ys[0].width = 1


def alarm_star_unpack(src):
    first, *rest = [deepcopy(src), src]
    rest[0].width = 1


def alarm_walrus(src):
    if (y := src.lib) is not None:
        y["k"] = 1


def alarm_ifexp(src):
    c = deepcopy(src)
    x = c if src.flag else src
    x.width = 1


def alarm_boolop(src):
    c = deepcopy(src)
    x = src.other or c
    x.width = 1


def alarm_pen_draw(src):
    # drawing INTO a pen that belongs to the source glyph
    pen = src.getPen()
    pen.moveTo((0, 0))


def ok_pen_draw_from(src):
    # drawing FROM the source into a fresh object only reads the source
    c = deepcopy(src)
    src.draw(c.getPen())


def alarm_setattr(src):
    setattr(src, "width", 1)


def alarm_setattr_computed_roundtrip(src):
    ns = _NS()
    for k in ("a", "b"):
        setattr(ns, k, src)
    ns.a.width = 1


class _NS:
    pass


def alarm_lib_namespace_setattr(src):
    from types import SimpleNamespace

    ns = SimpleNamespace()
    for k in ("a", "b"):
        setattr(ns, k, src)
    ns.a.width = 1


def alarm_lib_namespace_kw(src):
    from types import SimpleNamespace

    ns = SimpleNamespace(font=src)
    ns.font.width = 1


def ok_lib_namespace_kw(src):
    from types import SimpleNamespace

    ns = SimpleNamespace(font=deepcopy(src))
    ns.font.width = 1


def alarm_try_body(src):
    try:
        src.width = 1
    except Exception:
        pass


def alarm_except_handler(src):
    try:
        pass
    except Exception:
        src.width = 1


def alarm_finally(src):
    try:
        return 1
    finally:
        src.width = 1


def alarm_with_body(src):
    with open("/dev/null") as f:
        src.width = 1


def alarm_while(src):
    x = deepcopy(src)
    while x is not None:
        x.width = 1
        x = src


def alarm_loop_carried(src):
    # the alias is created at the END of the loop body and used at its START
    x = deepcopy(src)
    for _ in range(2):
        x.width = 1
        x = src


def alarm_lambda(src):
    f = lambda g: g.anchors.append(1)  # noqa: E731
    f(src)


def alarm_unknown_lib_call_result(src):
    import os

    r = os.path.commonprefix(src)  # unknown library function: the result may alias the argument
    r.append(1)


def alarm_sorted_elements(src):
    for g in sorted(src.glyphs):
        g.width = 1


def alarm_zip(src):
    cs = [deepcopy(src)]
    for a, b in zip(cs, [src]):
        b.width = 1


def ok_zip(src):
    cs = [deepcopy(src)]
    for a, b in zip(cs, [src]):
        a.width = 1


def alarm_enumerate(src):
    for i, g in enumerate(src):
        g.width = i


def alarm_dict_get(src):
    d = {"a": src}
    x = d.get("a")
    if x is not None:
        x.width = 1


def alarm_dict_get_none_branch(src):
    # d.get may be None: the branch is live
    d = {"b": 1}
    x = d.get("a")
    if x is None:
        src.width = 1


def alarm_dict_get_default(src):
    d = {}
    x = d.get("a", src)
    x.width = 1


def alarm_dict_setdefault(src):
    d = {}
    x = d.setdefault("a", src)
    x.width = 1


def alarm_dict_pop(src):
    d = {"a": src}
    d.pop("a").width = 1


def alarm_next_iter(src):
    g = next(iter(src))
    g.width = 1


def alarm_match(src):
    match src.kind:
        case 1:
            src.width = 1
        case _:
            pass


def alarm_shallow_copy_module(src):
    c = copy.copy(src.info)
    c.records.append(1)


def ok_shallow_copy_own_attr(src):
    c = copy.copy(src.info)
    c.name = "x"
    setattr(c, "other", 1)


def alarm_shallow_copy_method(src):
    lib = src.lib.copy()
    lib["a"]["b"] = 1


def ok_shallow_copy_method_top(src):
    lib = src.lib.copy()
    lib["a"] = 1


def alarm_defaultdict_factory(src):
    from collections import defaultdict

    dd = defaultdict(list)
    dd["a"].append(src)
    for g in dd["a"]:
        g.width = 1


def alarm_ordered_dict_pairs(src):
    from collections import OrderedDict

    d = OrderedDict((g.name, g) for g in src)
    d["a"].width = 1


def alarm_dict_update_pairs(src):
    d = {}
    d.update((g.name, g) for g in src)
    d["a"].width = 1


def alarm_dict_update_kw(src):
    d = {}
    d.update(a=src)
    d["a"].width = 1


def alarm_unknown_lib_method_result(src):
    import os

    r = os.path.commonprefix(src)
    r.things().append(1)


def alarm_max_returns_element(src):
    g = max(src.glyphs, key=lambda g: g.width)
    g.width = 1


def alarm_min_two_args(src):
    c = deepcopy(src)
    m = min(c, src)
    m.width = 1


def alarm_sum_concat(src):
    xs = sum([[src], [deepcopy(src)]], [])
    xs[0].width = 1


def alarm_typing_cast(src):
    from typing import cast

    cast(object, src).width = 1


def alarm_reversed(src):
    for g in reversed([src]):
        g.width = 1


def alarm_filter_builtin(src):
    g = next(filter(None, [None, src]))
    g.width = 1


def alarm_itertools_chain(src):
    import itertools

    for g in itertools.chain([deepcopy(src)], [src]):
        g.width = 1


def alarm_zip_longest_fill(src):
    import itertools

    for a, b in itertools.zip_longest([src, src], [deepcopy(src)]):
        if b is None:
            a.width = 1


def alarm_list_mul(src):
    xs = [src] * 3
    xs[1].width = 1


def alarm_list_add(src):
    xs = [deepcopy(src)] + [src]
    xs[1].width = 1


def alarm_dict_merge(src):
    d = {**{"a": src}}
    d["a"].width = 1


def alarm_list_star(src):
    xs = [*[src]]
    xs[0].width = 1


def alarm_set_union_op(src):
    s = {1} | {src}
    for x in s:
        x.width = 1


def alarm_slice_assignment(src):
    xs = [deepcopy(src)]
    xs[:] = [src]
    xs[0].width = 1


def ok_slice_assignment(src):
    ys = [(1, src)]
    xs = []
    xs[:] = [(a, deepcopy(b)) for a, b in ys]
    for a, b in xs:
        b.width = 1


def alarm_source_values(src):
    for g in src.values():
        g.width = 1


def alarm_source_items(src):
    for k, g in src.items():
        g.width = 1


def alarm_source_layers_values(src):
    for g in src.layers["x"].values():
        g.width = 1


def alarm_source_get(src):
    src.get("a").width = 1


def alarm_source_method_result_elements(src):
    for g in src.getGlyphs():
        g.width = 1


def ok_dict_keys_are_not_values(src):
    d = {"a": src}
    for k in d.keys():
        k.width = 1


def ok_iterating_dict_yields_keys(src):
    d = {"a": src}
    for k in d:
        k.width = 1
    for k in sorted(d):
        k.width = 1


def alarm_iterating_list(src):
    d = [src]
    for k in d:
        k.width = 1


def alarm_iterating_unknown_container(src):
    d = deepcopy({"a": 1})
    d["b"] = src
    for v in d.values():
        v.width = 1


def alarm_object_keys_display(src):
    d = {src: 1}
    for k in d:
        k.width = 1


def alarm_object_keys_store(src):
    d = {}
    d[src] = 1
    for k in d.keys():
        k.width = 1


def alarm_object_keys_items(src):
    d = {}
    d.setdefault(src, []).append(1)
    for k, v in d.items():
        k.width = 1


def alarm_object_keys_comprehension(src):
    d = {g: 1 for g in src}
    for k in sorted(d):
        k.width = 1


def alarm_object_keys_pairs(src):
    d = dict((g, 1) for g in src)
    for k in d:
        k.width = 1


def alarm_object_keys_counter(src):
    from collections import Counter

    c = Counter(src.glyphs)
    for k in c:
        k.width = 1


def alarm_object_keys_update(src):
    d = {}
    d.update({src: 1})
    for k in list(d):
        k.width = 1


def alarm_object_keys_copy(src):
    d = dict({src: 1})
    for k in d:
        k.width = 1


def alarm_library_dict_update_shares_values(src):
    from types import SimpleNamespace

    font = SimpleNamespace()
    groups = {k: v for k, v in src.groups.items()}
    font.groups.update(groups)  # the new object's dict now holds the SOURCE's lists
    for members in font.groups.values():
        members[0] = "x"


def ok_library_dict_update_copies(src):
    from types import SimpleNamespace

    font = SimpleNamespace()
    groups = {k: list(v) for k, v in src.groups.items()}
    font.groups.update(groups)
    for members in font.groups.values():
        members[0] = "x"


def alarm_library_list_extend(src):
    from types import SimpleNamespace

    o = SimpleNamespace()
    o.items.extend([src])
    for x in o.items:
        x.width = 1
