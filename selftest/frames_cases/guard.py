"""A library method that writes only where an attribute is None, after a loop that rejected None everywhere."""


class Inst:
    @classmethod
    def make(cls, doc, flag=True):
        doc.loadSourceFonts(open)  # writes s.font only for the sources s of doc with s.font is None
        return cls()


def _pre(doc):
    fonts = []
    for s in doc.sources:
        if s.font is None:
            raise AttributeError("missing font")
        fonts.append(s.font)
    return Inst.make(doc)


def ok_guard_loop_dominates(src):
    _pre(src)


def _pre_no_loop(doc):
    return Inst.make(doc)


def alarm_no_guard_loop(src):
    _pre_no_loop(src)


def _pre_break(doc):
    for s in doc.sources:
        if s.font is None:
            raise AttributeError
        if s.stop:
            break
    return Inst.make(doc)


def alarm_guard_loop_may_break(src):
    _pre_break(src)


def _pre_other_attr(doc):
    for s in doc.sources:
        if s.path is None:
            raise AttributeError
    return Inst.make(doc)


def alarm_guard_other_attribute(src):
    _pre_other_attr(src)


def _pre_not_first(doc):
    for s in doc.sources:
        if s.skip:
            continue
        if s.font is None:
            raise AttributeError
    return Inst.make(doc)


def alarm_guard_check_skipped(src):
    _pre_not_first(src)


def _pre_conditional(doc):
    if doc.flag:
        for s in doc.sources:
            if s.font is None:
                raise AttributeError
    return Inst.make(doc)


def alarm_guard_loop_conditional(src):
    _pre_conditional(src)


def _pre_after(doc):
    r = Inst.make(doc)
    for s in doc.sources:
        if s.font is None:
            raise AttributeError
    return r


def alarm_guard_loop_after_call(src):
    _pre_after(src)


def _pre_rebound(doc, other):
    for s in doc.sources:
        if s.font is None:
            raise AttributeError
    doc = other
    return Inst.make(doc)


def alarm_guard_other_object(src):
    _pre_rebound(src.a, src.b)


def _pre_two_callers_a(doc):
    for s in doc.sources:
        if s.font is None:
            raise AttributeError
    return Inst.make(doc, True)


def _pre_two_callers_b(doc):
    return Inst.make(doc, True)


def alarm_second_caller_without_loop(src):
    _pre_two_callers_a(src)
    _pre_two_callers_b(src)


def _pre_warn_only(doc):
    for s in doc.sources:
        if s.font is None:
            print("missing")
    return Inst.make(doc)


def alarm_guard_does_not_raise(src):
    _pre_warn_only(src)


def _outer(doc):
    for s in doc.sources:
        if s.font is None:
            raise AttributeError
    return _middle(doc)


def _middle(d):
    return Inst.make(d)


def ok_guard_through_two_calls(src):
    _outer(src)
