"""Synthetic programs for the self-test of pyvc.frames (see selftest/frames_run.py)."""
