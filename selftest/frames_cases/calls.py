"""Calls: *args / **kwargs, defaults, closures, generators, callbacks, contexts keyed on constants."""
from copy import deepcopy
from functools import partial


# ---- *args ---------------------------------------------------------------------------------------------------
def _mutate_all(*xs):
    for x in xs:
        x.width = 1


def alarm_varargs(src):
    _mutate_all(deepcopy(src), src)


def ok_varargs(src):
    _mutate_all(deepcopy(src), deepcopy(src))


def alarm_varargs_star_call(src):
    xs = [deepcopy(src), src]
    _mutate_all(*xs)


def _first(*xs):
    return xs[0]


def alarm_varargs_index(src):
    _first(src, 1).width = 1


def _run(*fs):
    # one argument: the thing itself; several: the first is only read
    if len(fs) == 1:
        fs[0].width = 1
        return
    fs[1].width = 1


def alarm_varargs_len_one(src):
    _run(src)


def ok_varargs_len_two(src):
    # in the two-argument context only fs[1] is written; fs[0] is the source
    # (needs: call-site context for *args functions, len(args) constant, return ends the block, tuple positions)
    _run(src, deepcopy(src))


def alarm_varargs_len_two(src):
    _run(deepcopy(src), src)


def alarm_varargs_len_unknown(src):
    xs = [src]
    _run(*xs)


def _run_rebinds(*fs):
    # `fs` is rebound before the test: its length is no longer the number of arguments
    fs = fs + (fs[0],)
    if len(fs) == 1:
        return
    fs[0].width = 1


def alarm_varargs_len_after_rebind(src):
    _run_rebinds(src)


def _run_loop(*fs):
    for _ in range(2):
        if len(fs) == 1:
            fs = (fs[0], fs[0])
            continue
        fs[0].width = 1


def alarm_varargs_len_in_loop_rebind(src):
    _run_loop(src)


# ---- **kwargs / keyword arguments -------------------------------------------------------------------------------
def _kw_mutate(a=None, b=None):
    if b is not None:
        b.width = 1


def alarm_kwargs_dict(src):
    opts = {"a": deepcopy(src), "b": src}
    _kw_mutate(**opts)


def ok_kwargs_dict_keyed(src):
    opts = {"a": src, "b": deepcopy(src)}
    _kw_mutate(**opts)


def alarm_kwargs_dict_computed_key(src):
    opts = {}
    for k in ("a", "b"):
        opts[k] = src
    _kw_mutate(**opts)


def _kw_collect(**kw):
    for v in kw.values():
        v.width = 1


def alarm_kwargs_collect(src):
    _kw_collect(x=src)


def _kw_get(**kw):
    kw.get("x").width = 1


def alarm_kwargs_get(src):
    _kw_get(x=src)


def _kw_pop(**kw):
    x = kw.pop("x", None)
    x.width = 1


def alarm_kwargs_pop(src):
    _kw_pop(x=src)


# ---- defaults --------------------------------------------------------------------------------------------------
def _default_none(x, target=None):
    if target is None:
        target = x
    target.width = 1


def alarm_default_none(src):
    _default_none(src)


def ok_default_given(src):
    _default_none(src, deepcopy(src))


def _copy_flag(x, copy=False):
    if copy:
        x = deepcopy(x)
    x.width = 1


def alarm_copy_flag_default(src):
    _copy_flag(src)


def ok_copy_flag_true(src):
    _copy_flag(src, copy=True)


def alarm_copy_flag_unknown(src):
    _copy_flag(src, copy=src.flag)


_SHARED = []


def _mutable_default(x, acc=_SHARED):
    acc.append(x)
    return acc


def galarm_mutable_module_default(src):
    _mutable_default(1)


def _mutable_default_literal(x, acc=[]):  # noqa: B006
    acc.append(x)
    return acc


def alarm_mutable_default_literal_roundtrip(src):
    # the default list is shared by all calls: it hands the source to the second call
    _mutable_default_literal(src)
    ys = _mutable_default_literal(1)
    ys[0].width = 1


# ---- closures ------------------------------------------------------------------------------------------------------
def alarm_closure_captures(src):
    def inner():
        src.width = 1

    inner()


def alarm_closure_returned(src):
    def make(x):
        def inner():
            x.width = 1

        return inner

    make(src)()


def ok_closure_returned(src):
    def make(x):
        def inner():
            x.width = 1

        return inner

    make(deepcopy(src))()


def alarm_closure_late_binding(src):
    x = deepcopy(src)

    def inner():
        x.width = 1

    x = src
    inner()


def alarm_closure_stored_on_object(src):
    b = _Box()
    b.f = lambda: src.anchors.clear()
    b.f()


class _Box:
    pass


def alarm_callback_to_library(src):
    # a callback handed to a library function is invoked by it
    def key(g):
        g.width = 1
        return 0

    sorted(src.glyphs, key=key)


def alarm_callback_map(src):
    def f(g):
        g.width = 1

    list(map(f, src.glyphs))


def alarm_partial(src):
    def f(a, g):
        g.width = a

    p = partial(f, 1)
    p(src)


def alarm_partial_bound_arg(src):
    def f(g, a):
        g.width = a

    p = partial(f, src)
    p(1)


# ---- generators ---------------------------------------------------------------------------------------------------
def _gen(xs):
    for x in xs:
        yield x


def alarm_generator(src):
    for g in _gen(src.glyphs):
        g.width = 1


def _gen_copy(xs):
    for x in xs:
        yield deepcopy(x)


def ok_generator_copy(src):
    for g in _gen_copy(src.glyphs):
        g.width = 1


def _gen_side_effect(xs):
    for x in xs:
        x.width = 1
        yield 1


def alarm_generator_body_effect(src):
    list(_gen_side_effect(src.glyphs))


def _gen_from(xs):
    yield from _gen(xs)


def alarm_yield_from(src):
    for g in _gen_from(src.glyphs):
        g.width = 1


def _gen_pairs(xs):
    for x in xs:
        yield deepcopy(x), x


def alarm_generator_pairs(src):
    for a, b in _gen_pairs(src.glyphs):
        b.width = 1


# ---- recursion / return ---------------------------------------------------------------------------------------------
def _rec(x, n):
    if n == 0:
        return x
    return _rec(x, n - 1)


def alarm_recursion(src):
    _rec(src, 3).width = 1


def _early_return(x, flag=True):
    if flag:
        return deepcopy(x)
    return x


def ok_early_return_const(src):
    _early_return(src).width = 1


def alarm_early_return_other(src):
    _early_return(src, False).width = 1


def _return_in_branch(x):
    if x.flag:
        return
    x.width = 1


def alarm_conditional_return(src):
    _return_in_branch(src)


def _dead_after_return(x):
    return 1
    x.width = 1


def ok_dead_after_return(src):
    _dead_after_return(src)


def _raise_then(x):
    if x.flag:
        raise ValueError
    x.width = 1


def alarm_conditional_raise(src):
    _raise_then(src)


def _loop_continue(xs):
    for x in xs:
        if x.flag:
            continue
        x.width = 1


def alarm_continue(src):
    _loop_continue(src.glyphs)


def _try_return(x):
    try:
        return 1
    finally:
        x.width = 1


def alarm_finally_after_return(src):
    _try_return(src)


def _with_suppress(x):
    from contextlib import suppress

    with suppress(ValueError):
        raise ValueError
    x.width = 1


def alarm_with_suppressed_raise(src):
    _with_suppress(src)


def _for_else(xs, y):
    for x in xs:
        if x:
            break
    else:
        return
    y.width = 1


def alarm_for_else(src):
    _for_else([1], src)


def _while_true(y):
    while True:
        if y.flag:
            break
    y.width = 1


def alarm_after_while_true(src):
    _while_true(src)


# ---- forwarding *args of known length ------------------------------------------------------------------------------------
def _target(a, b):
    b.width = 1


def _forward(*args, **kwargs):
    return _target(*args, **kwargs)


def ok_forward_positions(src):
    _forward(src, deepcopy(src))


def alarm_forward_positions(src):
    _forward(deepcopy(src), src)


def _forward_modified(*args):
    args = args[::-1]
    return _target(*args)


def alarm_forward_after_rebind(src):
    _forward_modified(src, deepcopy(src))


def alarm_forward_unknown_length(src):
    xs = [deepcopy(src), src]
    _forward(*xs)


def alarm_star_of_list_same_length(src):
    # a LIST of two elements is not a tuple display: positions are not tracked
    xs = [deepcopy(src)]
    xs.insert(0, src)
    xs.reverse()
    _target(*xs)


# ---- isinstance(args[i], C) narrows args[i] of the *args tuple ---------------------------------------------------------
class _Reader:
    def go(self, x):
        return x.width


class _Writer:
    def go(self, x):
        x.width = 1


def _pick(src, *objs):
    if isinstance(objs[0], _Reader):
        return objs[0].go(src)
    return objs[0].go(deepcopy(src))


def ok_vararg_index_narrowing(src):
    xs = [_Reader(), _Writer()]
    _pick(src, *xs)


def _pick_bad(src, *objs):
    if isinstance(objs[0], _Reader):
        return objs[0].go(deepcopy(src))
    return objs[0].go(src)


def alarm_vararg_index_narrowing(src):
    xs = [_Reader(), _Writer()]
    _pick_bad(src, *xs)


def _pick_other_index(src, *objs):
    if isinstance(objs[0], _Reader):
        return objs[1].go(src)  # a different position is not narrowed
    return None


def alarm_vararg_other_index(src):
    xs = [_Reader(), _Writer()]
    _pick_other_index(src, *xs)


def _pick_rebound(src, *objs):
    if isinstance(objs[0], _Reader):
        objs = (_Writer(),)
        return objs[0].go(src)
    return None


def alarm_vararg_rebound_in_region(src):
    _pick_rebound(src, _Reader())


def _pick_list(src, objs):
    # a LIST may change between the test and the use: no narrowing
    if isinstance(objs[0], _Reader):
        objs.reverse()
        return objs[0].go(src)
    return None


def alarm_list_index_not_narrowed(src):
    _pick_list(src, [_Reader(), _Writer()])


# ---- attributes of module objects are module-level state ------------------------------------------------------------------
from . import basic as _basic_mod  # noqa: E402


def galarm_module_attribute_store(src):
    _basic_mod.SOME_SETTING = 1


def alarm_module_attribute_roundtrip(src):
    _basic_mod.STASH = src
    _basic_mod.STASH.width = 1
