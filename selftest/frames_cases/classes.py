"""Objects: fields, methods, inheritance, dataclasses, dunder methods, properties, class attributes, isinstance."""
from collections.abc import Mapping
from copy import deepcopy
from dataclasses import dataclass, field
from functools import cached_property


class Holder:
    def __init__(self, font, copy=False):
        if copy:
            font = deepcopy(font)
        self.font = font

    def touch(self):
        self.font.width = 1


def alarm_field(src):
    Holder(src).touch()


def ok_field_copy(src):
    Holder(src, copy=True).touch()


def alarm_two_instances_one_site(src):
    # both instances come from ONE allocation site
    hs = [Holder(x) for x in (deepcopy(src), src)]
    hs[1].touch()


def ok_two_sites(src):
    a = Holder(deepcopy(src))
    b = Holder(src)
    a.touch()


def alarm_two_sites(src):
    a = Holder(deepcopy(src))
    b = Holder(src)
    b.touch()


class Base:
    def run(self, x):
        self.apply(x)

    def apply(self, x):
        pass


class Reader(Base):
    def apply(self, x):
        return x.width


class Writer(Base):
    def apply(self, x):
        x.width = 1


def alarm_virtual_dispatch(src):
    for o in (Reader(), Writer()):
        o.run(src)


def ok_virtual_dispatch_reader(src):
    Reader().run(src)


def alarm_super_call(src):
    SubWriter().apply(src)


class SubWriter(Writer):
    def apply(self, x):
        super().apply(x)


# ---- isinstance --------------------------------------------------------------------------------------------------------
def _dispatch(o, x):
    if isinstance(o, Writer):
        o.apply(x)
    else:
        o.apply(deepcopy(x))


def alarm_isinstance_true(src):
    _dispatch(Writer(), src)


def alarm_isinstance_subclass(src):
    _dispatch(SubWriter(), src)


def _dispatch2(o, x):
    # a Writer gets a copy, anything else the original
    if isinstance(o, Writer):
        o.apply(deepcopy(x))
    else:
        o.apply(x)


def ok_isinstance_writer_gets_copy(src):
    _dispatch2(Writer(), src)
    _dispatch2(Reader(), src)


def alarm_isinstance_mixed_callers(src):
    # SubWriter is a Writer -> copy; but `Other` also writes and is not a Writer
    _dispatch2(Other(), src)


class Other(Base):
    def apply(self, x):
        x.width = 2


def _early(o, x):
    if isinstance(o, Reader):
        return o.apply(x)
    o.apply(deepcopy(x))
    return None


def ok_isinstance_early_return(src):
    _early(Reader(), src)
    _early(Writer(), src)


def _early_bad(o, x):
    if isinstance(o, Reader):
        return o.apply(deepcopy(x))
    o.apply(x)
    return None


def alarm_isinstance_early_return(src):
    _early_bad(Reader(), src)
    _early_bad(Writer(), src)


def _isinstance_of_source(o, x):
    # the class of a library / source object is unknown: both branches are live
    if isinstance(x.thing, Writer):
        return
    x.width = 1


def alarm_isinstance_unknown(src):
    _isinstance_of_source(None, src)


def _isinstance_tuple(o, x):
    if isinstance(o, (Reader, Other)):
        return
    x.width = 1


def alarm_isinstance_tuple(src):
    _isinstance_tuple(Writer(), src)


def ok_isinstance_tuple(src):
    _isinstance_tuple(Reader(), src)
    _isinstance_tuple(Other(), src)


def _isinstance_rebound(o, x):
    o = Writer()
    if isinstance(o, Reader):
        return
    x.width = 1


def alarm_isinstance_rebound(src):
    _isinstance_rebound(Reader(), src)


def _not_isinstance(o, x):
    if not isinstance(o, Reader):
        x.width = 1


def alarm_not_isinstance(src):
    _not_isinstance(Writer(), src)


def ok_not_isinstance(src):
    _not_isinstance(Reader(), src)


def _isinstance_none(o, x):
    if isinstance(o, Reader):
        return
    x.width = 1


def alarm_isinstance_none(src):
    _isinstance_none(None, src)


def _isinstance_list(o, x):
    if isinstance(o, (list, tuple)):
        for y in o:
            y.width = 1
    else:
        deepcopy(o).width = 1


def alarm_isinstance_builtin_list(src):
    _isinstance_list([src], src)


def ok_isinstance_builtin_not_list(src):
    _isinstance_list(Reader(), src)


# ---- dataclasses -----------------------------------------------------------------------------------------------------
@dataclass
class Opts:
    font: object = None
    other: object = None
    items: list = field(default_factory=list)

    def touch(self):
        self.font.width = 1


def alarm_dataclass_positional(src):
    Opts(src).touch()


def alarm_dataclass_keyword(src):
    Opts(font=src).touch()


def ok_dataclass_other_field(src):
    Opts(font=deepcopy(src), other=src).touch()


def alarm_dataclass_kwargs(src):
    kw = {"font": src}
    Opts(**kw).touch()


def ok_dataclass_kwargs_keyed(src):
    kw = {"font": deepcopy(src), "other": src}
    Opts(**kw).touch()


def alarm_dataclass_kwargs_unknown_key(src):
    kw = {}
    kw[src.name] = src
    Opts(**kw).touch()


def alarm_dataclass_default_factory(src):
    o = Opts()
    o.items.append(src)
    o.items[0].width = 1


@dataclass
class WithPost:
    font: object = None

    def __post_init__(self):
        self.font.width = 1


def alarm_dataclass_post_init(src):
    WithPost(src)


def alarm_dict_view_of_instance(src):
    o = Opts(font=src)
    kw = dict(o.__dict__)
    kw["font"].width = 1


def alarm_forward_instance_dict(src):
    o = Opts(font=src)
    Opts(**o.__dict__).touch()


# ---- class attributes / module state ---------------------------------------------------------------------------------
class Registry:
    items = []
    table = {}

    def add(self, x):
        self.items.append(x)


def galarm_class_level_list(src):
    Registry().add(1)


def alarm_class_level_roundtrip(src):
    Registry().add(src)
    Registry.items[0].width = 1


_TABLE = {"w": Writer, "r": Reader}
_FUNCS = {"w": lambda x: x.anchors.clear()}


def alarm_module_table_of_classes(src):
    _TABLE[src.kind]().apply(src)


def alarm_module_table_of_functions(src):
    _FUNCS["w"](src)


# ---- properties, dunders ------------------------------------------------------------------------------------------------
class Lazy:
    def __init__(self, font):
        self._font = font

    @property
    def font(self):
        return self._font

    @cached_property
    def cached(self):
        return self._font

    @property
    def touching(self):
        self._font.width = 1
        return 1


def alarm_property_read(src):
    Lazy(src).font.width = 1


def alarm_cached_property_read(src):
    Lazy(src).cached.width = 1


def alarm_property_with_effect(src):
    Lazy(src).touching


class Layer(Mapping):
    def __init__(self, glyphs):
        self._glyphs = glyphs

    def __getitem__(self, k):
        return self._glyphs[k]

    def __iter__(self):
        return iter(self._glyphs)

    def __len__(self):
        return len(self._glyphs)


def alarm_dunder_getitem(src):
    Layer(src.glyphs)["a"].width = 1


def alarm_mapping_mixin_get(src):
    Layer(src.glyphs).get("a").width = 1


def alarm_mapping_mixin_values(src):
    for g in Layer(src.glyphs).values():
        g.width = 1


def ok_dunder_getitem_copy(src):
    Layer(deepcopy(src.glyphs))["a"].width = 1


class Touchy:
    def __init__(self, font):
        self.font = font

    def __str__(self):
        self.font.width = 1
        return "x"

    def __lt__(self, other):
        other.font.width = 1
        return True

    def __len__(self):
        self.font.width = 1
        return 1

    def __eq__(self, other):
        self.font.width = 1
        return True

    def __hash__(self):
        return 1


def alarm_dunder_str_format(src):
    "%s" % Touchy(src)


def alarm_dunder_str_fstring(src):
    f"{Touchy(src)}"


def alarm_dunder_lt_sorted(src):
    sorted([Touchy(src), Touchy(src)])


def alarm_dunder_len(src):
    len(Touchy(src))


def alarm_dunder_eq(src):
    Touchy(src) == 1


class Ctx:
    def __init__(self, font):
        self.font = font

    def __enter__(self):
        return self.font

    def __exit__(self, *a):
        self.font.width = 1
        return False


def alarm_context_manager_enter(src):
    with Ctx(src) as f:
        f.width = 1


def alarm_context_manager_exit(src):
    with Ctx(src):
        pass


class Dyn:
    def __init__(self, font):
        self._font = font

    def __getattr__(self, name):
        return self._font


def alarm_dunder_getattr(src):
    Dyn(src).anything.width = 1


def alarm_local_class(src):
    class Local:
        def go(self, x):
            x.width = 1

    Local().go(src)


def alarm_bound_method_value(src):
    w = Writer()
    f = w.apply
    f(src)


def alarm_classmethod_factory(src):
    Made.make(src).font.width = 1


def ok_classmethod_factory_copy(src):
    Made.make(src, copy=True).font.width = 1


class Made:
    @classmethod
    def make(cls, font, copy=False):
        if copy:
            font = deepcopy(font)
        self = cls()
        self.font = font
        return self


def alarm_type_call(src):
    w = Writer()
    type(w)().apply(src)


def alarm_getattr_method(src):
    getattr(Writer(), "apply")(src)


def alarm_getattr_computed(src):
    getattr(Writer(), src.name)(src)


# ---- more aliasing through objects --------------------------------------------------------------------------------------
class Bag:
    shared = None

    def __init__(self):
        self.lst = []


def alarm_augassign_attribute_list(src):
    b = Bag()
    b.lst = src.glyphs
    b.lst += [1]  # in-place extension of the SOURCE list


def alarm_augassign_subscript_list(src):
    d = {"a": src.glyphs}
    d["a"] += [1]


def alarm_class_attribute_store_then_instance_read(src):
    Bag.shared = src
    Bag().shared.width = 1


def alarm_unbound_method_call(src):
    Writer2.apply(Writer2(), src)


class Writer2:
    def apply(self, x):
        x.width = 1

    @staticmethod
    def sapply(x):
        x.width = 1


def alarm_staticmethod_via_instance(src):
    Writer2().sapply(src)


def alarm_sort_key_callback(src):
    xs = [src, src]

    def key(g):
        g.width = 1
        return 0

    xs.sort(key=key)


def alarm_lambda_default(src):
    f = lambda g=src: g.anchors.clear()  # noqa: E731
    f()


def alarm_for_target_attribute(src):
    b = Bag()
    for b.cur in [src]:
        pass
    b.cur.width = 1


def alarm_unpack_into_attribute(src):
    b = Bag()
    b.one, two = src, 1
    b.one.width = 1


def alarm_with_target_attribute(src):
    b = Bag()
    with src.open() as b.f:
        pass
    b.f.close()


def alarm_exception_payload(src):
    try:
        raise ValueError(src)
    except ValueError as e:
        e.args[0].width = 1


class CarryError(Exception):
    def __init__(self, obj):
        super().__init__("x")
        self.obj = obj


def alarm_exception_attribute(src):
    try:
        raise CarryError(src)
    except CarryError as e:
        e.obj.width = 1


def _raiser(x):
    raise CarryError(x)


def alarm_exception_across_calls(src):
    try:
        _raiser(src)
    except CarryError as e:
        e.obj.width = 1


class DictSub(dict):
    def __init__(self, pairs):
        super().__init__(pairs)
        self.extra = None


def alarm_dict_subclass_super_init(src):
    d = DictSub((g.name, g) for g in src)
    d["a"].width = 1


class DictSub2(dict):
    pass


def alarm_dict_subclass_plain(src):
    d = DictSub2((g.name, g) for g in src)
    for g in d.values():
        g.width = 1


def ok_dict_subclass_copy(src):
    d = DictSub2((g.name, deepcopy(g)) for g in src)
    for g in d.values():
        g.width = 1


class Acc2:
    def __init__(self):
        self.items = []

    @property
    def refill(self):
        self.items.append(self.src)
        return 1


def alarm_strong_field_read_property_between(src):
    a = Acc2()
    a.src = src
    a.items = []
    a.refill  # a property read runs analysed code that refills the field
    for i in a.items:
        i.width = 1


def alarm_generator_send(src):
    def gen():
        x = yield 1
        x.width = 1

    g = gen()
    next(g)
    g.send(src)


# ---- namedtuples ---------------------------------------------------------------------------------------------------------
from collections import namedtuple  # noqa: E402
from typing import NamedTuple  # noqa: E402

Pair = namedtuple("Pair", "first second")


class TPair(NamedTuple):
    first: object
    second: object = None


def alarm_namedtuple_field(src):
    p = Pair(deepcopy(src), src)
    p.second.width = 1


def ok_namedtuple_field(src):
    p = Pair(deepcopy(src), src)
    p.first.width = 1


def alarm_namedtuple_keyword(src):
    p = Pair(first=1, second=src)
    p.second.width = 1


def alarm_namedtuple_index(src):
    p = Pair(1, src)
    p[1].width = 1


def alarm_namedtuple_unpack(src):
    a, b = Pair(1, src)
    b.width = 1


def alarm_typing_namedtuple(src):
    p = TPair(1, src)
    p.second.width = 1


def galarm_none_for_namedtuple_read(src):
    # (sanity) reading a field of a named tuple is no write to module state; appending to a module list is
    _LOG.append(Pair(1, 2).first)


_LOG = []


# ---- class-level reflection (folded when pure and applied to one concrete class) ------------------------------------------
import sys  # noqa: E402


class PlainFilter:
    @classmethod
    def partner(cls):
        module = sys.modules[cls.__module__]
        name = cls.__name__
        if name.endswith("Filter"):
            name = name[:-6]
        return getattr(module, f"{name}IFilter", None)

    def run(self, x):
        return x.width


class PlainIFilter(PlainFilter):
    def run(self, x):
        return x.width


class OtherFilter(PlainFilter):
    pass


class OtherIFilter(PlainFilter):
    def run(self, x):
        x.width = 1


def ok_reflection_partner_reads(src):
    k = PlainFilter.partner()
    if k is not None:
        k().run(src)


def alarm_reflection_partner_writes(src):
    k = OtherFilter.partner()
    if k is not None:
        k().run(src)


def alarm_reflection_partner_either(src):
    for c in (PlainFilter, OtherFilter):
        k = c.partner()
        if k is not None:
            k().run(src)


class ImpureFilter:
    registry = []

    @classmethod
    def partner(cls):
        cls.registry.append(1)  # not pure: analysed normally
        return getattr(sys.modules[cls.__module__], cls.__name__[:-6] + "IFilter", None)


class ImpureIFilter:
    def run(self, x):
        x.width = 1


def alarm_reflection_impure(src):
    k = ImpureFilter.partner()
    if k is not None:
        k().run(src)


# ---- getattr with a name that has a constant prefix --------------------------------------------------------------------------
class Backends:
    @classmethod
    def run(cls, which, x):
        f = getattr(cls, f"_run_with_{which}")
        f(x)

    @classmethod
    def _run_with_a(cls, x):
        return x.width

    @classmethod
    def _run_with_b(cls, x):
        return x.height

    @classmethod
    def other(cls, x):
        x.width = 1


def ok_getattr_prefix(src):
    Backends.run(src.kind, src)


class BackendsBad(Backends):
    @classmethod
    def _run_with_c(cls, x):
        x.width = 1


def alarm_getattr_prefix(src):
    BackendsBad.run(src.kind, src)


class Plain:
    def setLeft(self, x):
        x.width = 1

    def getLeft(self, x):
        return x.width


def alarm_getattr_prefix_instance(src):
    getattr(Plain(), "set" + src.side)(src)


def ok_getattr_prefix_instance(src):
    getattr(Plain(), "get" + src.side)(src)


# ---- property setters, hasattr, decorators, __getattr__ methods ---------------------------------------------------------
class WithSetter:
    def __init__(self):
        self._v = None

    @property
    def v(self):
        return self._v

    @v.setter
    def v(self, value):
        value.width = 1
        self._v = value


def alarm_property_setter_runs(src):
    WithSetter().v = src


def alarm_property_setter_stores(src):
    w = WithSetter()
    w.v = deepcopy(src)
    w2 = WithSetterNoEffect()
    w2.v = src
    w2.v.width = 1


class WithSetterNoEffect:
    @property
    def v(self):
        return self._v

    @v.setter
    def v(self, value):
        self._v = value


def alarm_hasattr_runs_getter(src):
    hasattr(Lazy(src), "touching")


def _deco(f):
    def wrapper(x):
        x.width = 1
        return f(x)

    return wrapper


def alarm_decorated_nested_function(src):
    @_deco
    def reads(x):
        return x.width

    reads(src)


class Proxy:
    def __init__(self, target):
        self._t = target

    def __getattr__(self, name):
        return self._t.apply


def alarm_method_through_getattr(src):
    Proxy(Writer()).whatever(src)


def alarm_class_reassignment(src):
    r = Reader()
    r.__class__ = Writer
    r.apply(src)


@dataclass
class InitFalseFirst:
    computed: object = field(init=False, default=None)
    font: object = None

    def touch(self):
        self.font.width = 1


def alarm_dataclass_init_false_field_skipped(src):
    InitFalseFirst(src).touch()


def alarm_dataclass_starred_args(src):
    args = [deepcopy(src), src]
    Opts(*args).other.width = 1


# ---- `x.f = []` ... x.f: analysed code that runs IMPLICITLY in between may have rebound the field ---------------------------
class Acc3:
    def __init__(self):
        self.items = []
        self.src = None

    @property
    def rebind(self):
        self.items = [self.src]
        return 1


def alarm_strong_field_read_property_rebinds(src):
    a = Acc3()
    a.src = src
    a.items = []
    a.rebind  # a property read runs analysed code that REBINDS the field
    for i in a.items:
        i.width = 1


class _Rebinder:
    def __init__(self, holder, src):
        self.holder = holder
        self.src = src

    def __add__(self, other):
        self.holder.items = [self.src]
        return self

    def __str__(self):
        self.holder.items = [self.src]
        return "x"


def alarm_strong_field_read_operator_between(src):
    h = Acc3()
    r = _Rebinder(h, src)
    h.items = []
    r + 1  # runs _Rebinder.__add__
    for i in h.items:
        i.width = 1


def alarm_strong_field_read_dunder_in_library_call(src):
    h = Acc3()
    r = _Rebinder(h, src)
    h.items = []
    str(r)  # library code runs _Rebinder.__str__
    for i in h.items:
        i.width = 1


def alarm_strong_field_read_dunder_of_element(src):
    h = Acc3()
    rs = [_Rebinder(h, src)]
    h.items = []
    print("%s" % rs[0])
    for i in h.items:
        i.width = 1


def ok_strong_field_read_no_analysed_code_between(src):
    h = Acc3()
    h.items = [src]
    n = len(src.glyphs) + 1
    h.items = []
    print("%s" % n)
    for i in h.items:
        i.width = 1


class _Harmless:
    def __init__(self, holder):
        self.holder = holder
        self.count = 0

    def __str__(self):
        self.count = self.count + 1  # stores, but never to an attribute named `items`
        return "h"


def ok_strong_field_read_dunder_without_store(src):
    h = Acc3()
    h.items = [src]
    r = _Harmless(h)
    h.items = []
    str(r)
    for i in h.items:
        i.width = 1


def _rebind_items(holder, src):
    holder.items = [src]


class _IndirectRebinder:
    def __init__(self, holder, src):
        self.holder = holder
        self.src = src

    def __str__(self):
        _rebind_items(self.holder, self.src)  # the store is in a function the special method calls
        return "x"


def alarm_strong_field_read_dunder_calls_storing_helper(src):
    h = Acc3()
    r = _IndirectRebinder(h, src)
    h.items = []
    str(r)
    for i in h.items:
        i.width = 1


class _SetattrRebinder:
    def __init__(self, holder, src):
        self.holder = holder
        self.src = src

    def __len__(self):
        setattr(self.holder, "it" + "ems", [self.src])  # computed attribute name
        return 1


def alarm_strong_field_read_dunder_setattr(src):
    h = Acc3()
    r = _SetattrRebinder(h, src)
    h.items = []
    len(r)
    for i in h.items:
        i.width = 1


# ---- a copy of an instance of an analysed class is an instance of that class: its methods are the class's ------------------
class _Mut:
    def __init__(self):
        self.kept = []

    def run(self, x):
        x.width = 1

    def keep(self, x):
        self.kept.append(x)


def alarm_method_on_deepcopied_instance(src):
    m = deepcopy(_Mut())
    m.run(src)


def alarm_method_on_copied_instance(src):
    import copy

    m = copy.copy(_Mut())
    m.run(src)


def alarm_shallow_copied_instance_shares_fields(src):
    import copy

    a = _Mut()
    b = copy.copy(a)
    b.keep(src)  # a.kept IS b.kept
    a.kept[0].width = 1


def ok_deepcopied_instance_own_state(src):
    m = deepcopy(_Mut())
    m.keep(1)
    m.count = 2


def alarm_method_on_instance_in_deepcopied_list(src):
    ms = deepcopy([_Mut()])
    ms[0].run(src)


def alarm_method_on_instance_in_deepcopied_dict(src):
    ms = deepcopy({"a": [_Mut()]})
    for m in ms["a"]:
        m.run(src)
