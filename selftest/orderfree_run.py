"""Self-test of pyvc.orderfree: synthetic functions with a known verdict. Each rule that discharges an
order obligation has a twin that differs only in the thing that makes the order observable; the twin must leak.
usage: python -m selftest.orderfree_run   (exit 0 = all verdicts as expected)"""
import os
import sys
import tempfile
import textwrap

ROOT = os.path.dirname(os.path.dirname(os.path.abspath(__file__)))
sys.path.insert(0, ROOT)

SRC = '''
import logging
logger = logging.getLogger(__name__)

def log_it(a, b):
    logger.warning("x %s %s", a, b)

def not_log_only(a, b):
    logger.warning("x %s %s", a, b)
    OUT.append(a)

OUT = []

def ok_raise(names):
    s = set(names)
    raise ValueError("bad: %s" % ", ".join(s))

def leak_join(names):
    s = set(names)
    return ", ".join(s)

def ok_log_comp(names):
    s = set(names)
    logger.info("names %s", [n for n in s])

def leak_list_comp(names):
    s = set(names)
    return [n for n in s]

def ok_acc_sorted(names):
    s = set(names)
    acc = []
    for n in s:
        if n.startswith("a"):
            acc.append((n, 1))
    return sorted(acc)

def leak_acc_returned(names):
    s = set(names)
    acc = []
    for n in s:
        acc.append(n)
    return acc

def leak_acc_indexed(names):
    s = set(names)
    acc = []
    for n in s:
        acc.append(n)
    first = acc[0]
    return sorted(acc), first

def leak_acc_param(names, acc):
    s = set(names)
    for n in s:
        acc.append(n)
    return sorted(acc)

def leak_acc_rebound(names):
    s = set(names)
    acc = []
    for n in s:
        acc.append(n)
    acc = acc[:1]
    return sorted(acc)

def ok_del_distinct(names, d):
    s = set(names)
    for n in s:
        if n in d:
            del d[n]

def leak_del_other_key(names, d, k):
    s = set(names)
    for n in s:
        if n in d:
            del d[k]

def leak_del_reads_len(names, d, out):
    s = set(names)
    for n in s:
        if len(d) > 2:
            del d[n]

def ok_del_many(names, ds):
    s = set(names)
    for n in s:
        for d in ds:
            if n in d:
                del d[n]

def ok_log_callee(names, m):
    s = set(names)
    for n in s:
        orig = m[n]
        if orig != "x":
            log_it(orig, n)

def leak_non_log_callee(names, m):
    s = set(names)
    for n in s:
        orig = m[n]
        not_log_only(orig, n)

def leak_temp_used_after(names, m):
    s = set(names)
    for n in s:
        last = m[n]
    return last

def ok_set_add(names):
    s = set(names)
    t = set()
    for n in s:
        t.add(n + "x")
    return t

def leak_dict_insert(names):
    s = set(names)
    d = {}
    for n in s:
        d[n] = 1
    return d
'''


def main():
    from pyvc import orderfree

    with tempfile.TemporaryDirectory() as td:
        pkg = os.path.join(td, "Lib", "ufo2ft")
        os.makedirs(pkg)
        with open(os.path.join(pkg, "__init__.py"), "w") as f:
            f.write("")
        with open(os.path.join(pkg, "cases.py"), "w") as f:
            f.write(textwrap.dedent(SRC))
        an = orderfree.Analyzer(td)
        sites = an.collect()
    by_func = {}
    for s in sites:
        by_func.setdefault(s["func"], []).append(s["verdict"])
    bad = 0
    import re

    funcs = re.findall(r"^def ((?:ok|leak)_\w+)", SRC, re.M)
    for fn in funcs:
        vs = by_func.get(fn, [])
        want_ok = fn.startswith("ok_")
        got_ok = bool(vs) and all(not v.startswith("leak") for v in vs)
        got_leak = any(v.startswith("leak") for v in vs)
        status = "ok" if (want_ok and got_ok) or (not want_ok and got_leak) else "UNEXPECTED"
        if status != "ok":
            bad += 1
        print(f"{status:10s} {fn:24s} {vs}")
    print(f"orderfree selftest: {len(funcs)} cases, {bad} unexpected")
    return 1 if bad else 0


if __name__ == "__main__":
    sys.exit(main())
