"""python selftest/frames_run.py [substring ...] [-v]  -- self-test of pyvc.frames on synthetic programs.

`selftest/frames_cases` is a small python package (independent of ufo2ft).  Every function named `alarm_*` is a root
that DOES write to (something reachable from) its argument through some alias path: the analysis must raise at
least one frame alarm.  Every `ok_*` function is the repaired twin (copies first / does not alias): the analysis
must raise none.  `galarm_*` roots must raise a global-state alarm (mutation of a module-/class-level object).
A missing alarm on an `alarm_*` root means the analysis is UNSOUND for that construct (the worst outcome); an alarm
on an `ok_*` root is a lost precision feature.  Exit status 1 on any unexpected verdict.
"""
from __future__ import annotations

import importlib
import inspect
import os
import pkgutil
import sys
import time
import warnings

HERE = os.path.dirname(os.path.abspath(__file__))
ROOT = os.path.dirname(HERE)
sys.path.insert(0, ROOT)
sys.path.insert(0, HERE)
warnings.filterwarnings("ignore")

from pyvc.frames import Analysis  # noqa: E402

PKG = "frames_cases"


def roots():
    pkg = importlib.import_module(PKG)
    for m in sorted(pkgutil.iter_modules(pkg.__path__), key=lambda m: m.name):
        mod = importlib.import_module(f"{PKG}.{m.name}")
        for name, f in sorted(vars(mod).items(), key=lambda kv: getattr(kv[1], "__code__", None) and kv[1].__code__.co_firstlineno or 0):
            if inspect.isfunction(f) and f.__module__ == mod.__name__ and name.split("_")[0] in ("alarm", "ok", "galarm"):
                yield m.name, name, f


def run_case(f):
    A = Analysis(repo_pkg=PKG)
    sig = inspect.signature(f)
    pos = [{A.SRC} for p in sig.parameters.values() if p.default is inspect.Parameter.empty and p.kind in (p.POSITIONAL_ONLY, p.POSITIONAL_OR_KEYWORD)]
    A.add_root(f, pos, {})
    A.solve()
    return A


def main(argv):
    verbose = "-v" in argv
    pats = [a for a in argv if not a.startswith("-")]
    t0 = time.time()
    bad = 0
    n = 0
    for modname, name, f in roots():
        full = f"{modname}.{name}"
        if pats and not any(p in full for p in pats):
            continue
        n += 1
        try:
            A = run_case(f)
        except Exception as e:  # noqa
            import traceback

            traceback.print_exc()
            print(f"CRASH    {full}: {type(e).__name__}: {e}")
            bad += 1
            continue
        kind = name.split("_")[0]
        alarms = sorted({(a.site[0].split("/")[-1], a.site[1], a.what) for a in A.alarms.values()})
        galarms = sorted({(a.site[0].split("/")[-1], a.site[1], a.what, a.target) for a in A.globals_mut.values()})
        unsupported = sorted({(st[0].split("/")[-1], st[1], "unsupported: " + why) for (st, why) in A.unsupported})
        if not A.converged:
            unsupported.append(("<analysis>", 0, "no fixpoint"))
        # a run that met an unmodelled construct or did not converge claims nothing: it counts as an alarm
        verdict_alarm = bool(unsupported) or (bool(alarms) if kind != "galarm" else bool(galarms))
        alarms = alarms + unsupported
        if kind in ("alarm", "galarm") and not verdict_alarm:
            print(f"UNSOUND  {full}: mutation of the source not reported")
            bad += 1
        elif kind == "ok" and verdict_alarm:
            print(f"SPURIOUS {full}: {alarms[:3]}")
            bad += 1
        elif verbose:
            print(f"ok       {full}: {len(alarms)} alarm(s), {len(galarms)} global, {len(A.sites)} sites, restarts {getattr(A, 'restarts', '?')}")
    print(f"frames self-test: {n} roots, {bad} unexpected, {time.time() - t0:.1f}s")
    return 1 if bad else 0


if __name__ == "__main__":
    sys.exit(main(sys.argv[1:]))
