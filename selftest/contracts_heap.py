"""setitem / delitem hooks (also inside loops), old() with quantifier-bound variables, run-time side: nested proxies,
object identity across old(), contract globals that must not leak into native clause evaluation."""
import z3

from pyvc import models
from pyvc.api import INT, STR, Dict, List, Loop, Opt, Ref, Set, cls
from pyvc.core import Val, lift
from pyvc.symex import FuncRef

from . import cases_heap as M
from .harness import case

H = "selftest.cases_heap:"


def _t_get(ex, st, self, idx, node):
    return ex.getitem(ex.read_field(st, self, "metrics"), idx, st, node)


def _t_set(ex, st, self, idx, v, node):
    d = ex.read_field(st, self, "metrics")
    ex.write_field(st, self, "metrics", models.set_item(ex, st, d, idx, v, node), node)


def _t_del(ex, st, self, idx, node):
    d = ex.read_field(st, self, "metrics")
    ex.write_field(st, self, "metrics", models.del_item(ex, st, d, idx, node), node)


def _t_in(ex, st, self, x):
    d = ex.read_field(st, self, "metrics")
    return z3.Select(d.ty.sort().dom(d.term), lift(x, STR))


cls("HTable", fields={"metrics": Dict(STR, INT)}, getitem=_t_get, setitem=_t_set, delitem=_t_del, contains=_t_in, repo=H + "HTable")
cls("HItem", fields={"v": INT}, derived={"double": lambda ex, st, self: Val(INT, 2 * ex.read_field(st, self, "v").term)},
    views={"double": lambda o: 2 * o.v}, repo=H + "HItem")
cls("HBox", fields={"items": List(Ref("HItem")), "label": STR}, repo=H + "HBox")


def mk_table(d):
    t = M.HTable()
    t.metrics = dict(d)
    return t


def names(rng):
    return rng.sample(["a", "b", "c"], rng.randint(0, 3))


case(H + "fill_table", params={"t": Ref("HTable"), "names": List(STR)}, returns=Ref("HTable"), modifies=["HTable.metrics"],
     ensures={"same-object": "result is t", "all": "all(n in t and t[n] == 1 for n in names)", "kept": "all(k in t for k in old(t.metrics))"},
     canaries={"nothing": "t.metrics == old(t.metrics)", "only": "all(k in names for k in t.metrics)"},
     loops={"for n in names": Loop(index="i", invariants={"done": "all(names[j] in t and t[names[j]] == 1 for j in range(i))",
                                                          "kept": "all(k in t for k in old(t.metrics))"})},
     gen=lambda rng: {"t": {k: 5 for k in names(rng)}, "names": names(rng)}, build=lambda d: {"t": mk_table(d["t"]), "names": d["names"]})
case(H + "drop", params={"t": Ref("HTable"), "k": STR}, modifies=["HTable.metrics"], raises={"KeyError": "k not in t"},
     ensures={"gone": "k not in t", "rest": "all(implies(j != k, j in t and t[j] == old(t.metrics)[j]) for j in old(t.metrics))"},
     canaries={"still": "k in t", "empty": "len(t.metrics) == 0"},
     gen=lambda rng: {"t": {k: 5 for k in names(rng)}, "k": rng.choice(["a", "b"])}, build=lambda d: {"t": mk_table(d["t"]), "k": d["k"]})
case(H + "set_key", params={"d": Dict(STR, INT), "k": STR}, modifies=["d"],
     # old(d[j]) mentions the bound variable j
     ensures={"zero": "d[k] == 0", "rest": "all(implies(j != k, j in old(d) and d[j] == old(d[j])) for j in d)"},
     canaries={"all-kept": "all(implies(j in old(d), d[j] == old(d[j])) for j in d)", "nothing": "d == old(d)"},
     gen=lambda rng: {"d": {k: rng.randint(1, 5) for k in names(rng)}, "k": rng.choice(["a", "b", "z"])})
case(H + "touch", params={"c": Ref("HItem"), "cs": List(Ref("HItem"))}, modifies=["c.v"],
     # identity of objects (`is`) and old() of a field of a bound OBJECT variable
     ensures={"bumped": "c.v == old(c.v) + 1", "others": "all(implies(x is not c, x.v == old(x.v)) for x in cs)",
              "self-in-list": "all(implies(x is c, x.v == old(x.v) + 1) for x in cs)"},
     canaries={"all-same": "all(x.v == old(x.v) for x in cs)", "none-is-c": "all(x is not c for x in cs)"},
     gen=lambda rng: {"vs": [rng.randint(0, 5) for _ in range(rng.randint(1, 3))], "pick": rng.randint(0, 2), "inlist": rng.random() < 0.7},
     build=lambda d: (lambda items: {"c": items[d["pick"] % len(items)] if d["inlist"] else M.HItem(9), "cs": items})([M.HItem(v) for v in d["vs"]]))
case(H + "relabel", params={"box": Ref("HBox"), "s": STR}, returns=List(Ref("HItem")), modifies=["box.label"],
     # nested objects are seen through their class vocabulary at run time (`double` is a view of HItem)
     ensures={"label": "box.label == s", "items": "result == old(box.items)", "views": "all(it.double == 2 * it.v for it in result)",
              "identity": "all(result[i] is old(box.items)[i] for i in range(len(result)))"},
     canaries={"unlabelled": "box.label == old(box.label)", "odd": "any(it.double == 2 * it.v + 1 for it in result) or len(result) == 0"},
     gen=lambda rng: {"vs": [rng.randint(0, 5) for _ in range(rng.randint(0, 3))], "s": rng.choice(["x", "y"])},
     build=lambda d: {"box": M.HBox([M.HItem(v) for v in d["vs"]], "old"), "s": d["s"]})
case(H + "first_item", params={"box": Ref("HBox")}, returns=Ref("HItem"), requires=["len(box.items) > 0"],
     ensures={"first": "result is box.items[0]", "old": "not fresh(result)", "d": "result.double == 2 * box.items[0].v"},
     canaries={"second": "len(box.items) > 1 and result is box.items[1]", "fresh": "fresh(result)"},
     gen=lambda rng: {"vs": [rng.randint(0, 5) for _ in range(rng.randint(1, 3))]},
     build=lambda d: {"box": M.HBox([M.HItem(v) for v in d["vs"]])})


# a contract that re-binds a builtin to a (symbolic-side) model: native clause evaluation must still see the real builtin
def _len_model(ex, st, args, kwargs, node):
    return models._len(ex, st, args, kwargs, node)


case(H + "size", params={"xs": List(INT)}, returns=INT,
     globals={"len": Val.obj(FuncRef(None, "selftest.len"))}, models={"selftest.len": _len_model},
     ensures={"n": "result == len(xs)"}, canaries={"one": "result == 1"},
     gen=lambda rng: {"xs": [0] * rng.randint(0, 3)})

# ---- a local that aliases a container stored in a field: mutations through the local are mutations of the field ----------------------------
cls("HCtx", fields={"modified": Set(STR), "rows": Dict(STR, List(INT))}, repo=H + "HCtx")


def mk_ctx(mod=(), rows=None):
    c = M.HCtx()
    c.modified = set(mod)
    c.rows = {k: list(v) for k, v in (rows or {}).items()}
    return c


case(H + "alias_add", params={"ctx": Ref("HCtx"), "x": STR}, returns=INT, modifies=["HCtx.modified"],
     ensures={"added": "x in ctx.modified", "kept": "all(y in ctx.modified for y in old(ctx.modified))"},
     canaries={"unchanged": "ctx.modified == old(ctx.modified)"},
     gen=lambda rng: {"mod": names(rng), "x": rng.choice(["a", "q"])}, build=lambda d: {"ctx": mk_ctx(d["mod"]), "x": d["x"]})
case(H + "alias_then_direct", params={"ctx": Ref("HCtx"), "x": STR, "y": STR}, returns=BOOL if False else __import__("pyvc.api", fromlist=["BOOL"]).BOOL, modifies=["HCtx.modified"],
     ensures={"both": "result", "field": "x in ctx.modified and y in ctx.modified"},
     canaries={"unchanged": "ctx.modified == old(ctx.modified)", "false": "not result"},
     gen=lambda rng: {"mod": names(rng), "x": "p", "y": "q"}, build=lambda d: {"ctx": mk_ctx(d["mod"]), "x": d["x"], "y": d["y"]})
case(H + "alias_rebind_field", params={"ctx": Ref("HCtx"), "x": STR}, returns=INT, modifies=["HCtx.modified"],
     # the field is re-bound to a new set: the local keeps the OLD object, the new one stays empty
     ensures={"empty": "result == 0 and ctx.modified == set()"}, canaries={"has-x": "x in ctx.modified", "one": "result == 1"},
     gen=lambda rng: {"mod": names(rng), "x": "p"}, build=lambda d: {"ctx": mk_ctx(d["mod"]), "x": d["x"]})
case(H + "alias_loop", params={"ctx": Ref("HCtx"), "xs": List(STR)}, returns=INT, modifies=["HCtx.modified"],
     ensures={"all": "all(x in ctx.modified for x in xs)", "kept": "all(y in ctx.modified for y in old(ctx.modified))"},
     canaries={"unchanged": "ctx.modified == old(ctx.modified)"},
     loops={"for x in xs": Loop(index="i", invariants={"done": "all(xs[j] in ctx.modified for j in range(i))", "kept": "all(y in ctx.modified for y in old(ctx.modified))"})},
     gen=lambda rng: {"mod": names(rng), "xs": ["p"] + names(rng)}, build=lambda d: {"ctx": mk_ctx(d["mod"]), "xs": d["xs"]})
# a container taken out of another container (`row = ctx.rows[k]`) and mutated: no write-through model -> refused
case(H + "alias_item", params={"ctx": Ref("HCtx"), "k": STR, "x": INT}, returns=INT, modifies=["HCtx.rows"], requires=["k in ctx.rows"],
     expect="unsupported", msg="aliased")

# ---- getattr / setattr with a loop variable over a LITERAL set of names: unrolled automatically ----------------------------------------------
cls("HInfo", fields={"v": Opt(INT), "w": Opt(INT)}, repo=H + "HInfo")
case(H + "copy_attrs", params={"src": Ref("HInfo"), "dst": Ref("HInfo")}, modifies=["dst.v", "dst.w"], requires=["src is not dst"],
     ensures={"v": "dst.v == (src.v if src.v is not None else old(dst.v))", "w": "dst.w == (src.w if src.w is not None else old(dst.w))"},
     canaries={"always": "dst.v == src.v", "never": "dst.w == old(dst.w)"},
     gen=lambda rng: {"s": [rng.choice([None, 1, 2]), rng.choice([None, 3])], "d": [rng.choice([None, 7]), rng.choice([None, 8])]},
     build=lambda d: {"src": M.HInfo(*d["s"]), "dst": M.HInfo(*d["d"])})

# in-place mutation of the containers stored in a container, through the loop variable: no write-through model -> refused
case(H + "update_values", params={"d": Dict(STR, List(INT))}, returns=INT, modifies=["d"], expect="unsupported", msg="aliased")
from pyvc.api import BOOL as _BOOL, REAL as _REAL, Tuple as _Tuple  # noqa: E402

# a python-level slice of a tuple of REALs against a constant tuple of ints: component-wise with numeric promotion
case(H + "unit_transform", params={"t": _Tuple(_REAL, _REAL, _REAL, _REAL, _REAL, _REAL)}, returns=_BOOL,
     ensures={"v": "result == (t[0] == 1 and t[1] == 0 and t[2] == 0 and t[3] == 1 and t[4] == 0)"}, canaries={"t": "result", "f": "not result"},
     gen=lambda rng: {"t": rng.choice([[1, 0, 0, 1, 0, 5], [1.0, 0.0, 0.0, 1.0, 0.0, 2.5], [2, 0, 0, 1, 0, 0]])}, build=lambda d: {"t": tuple(d["t"])})

# ---- indexing a lambda-valued derived Map view, beta-reduced (round 4, C03 #4) -----------------------------------------------
from pyvc.api import Map  # noqa: E402
from pyvc.core import fresh_name  # noqa: E402


def _reg_twice(ex, st, self):
    d = ex.read_field(st, self, "vals")
    n = z3.String(fresh_name("rn"))
    return Val(Map(STR, INT), z3.Lambda([n], 2 * z3.Select(d.ty.sort().map(d.term), n)))


cls("HReg", fields={"vals": Dict(STR, INT)}, derived={"twice": _reg_twice}, views={"twice": lambda o: {k: 2 * v for k, v in o.vals.items()}}, repo=H + "HReg")
for _beta in (True, False):
    case(H + "reg_bump", name=f"beta-{_beta}", params={"r": Ref("HReg"), "k": STR}, returns=INT, modifies=["HReg.vals"], beta_reduce=_beta,
         ensures={"view": "r.twice[k] == 2 * result", "others": "all(implies(n != k, r.twice[n] == old(r.twice[n])) for n in old(r.vals))",
                  "bumped": "implies(k in old(r.vals), r.twice[k] == old(r.twice[k]) + 2)"},
         canaries={"view-same": "r.twice[k] == old(r.twice[k])", "by-one": "implies(k in old(r.vals), r.twice[k] == old(r.twice[k]) + 1)"},
         gen=lambda rng: {"r": {k: rng.randint(0, 3) for k in names(rng)}, "k": rng.choice(["a", "b", "z"])},
         build=lambda d: {"r": M.HReg(dict(d["r"])), "k": d["k"]})

# ---- `obj.field = x` aliases the container (round 4 soundness fix) -------------------------------------------------------------
cls("HSub", fields={"glyphs": Set(STR)}, repo=H + "HSub")


def _mk_sub(d):
    return {"sub": M.HSub(), "glyphs": set(d["glyphs"]), "extra": d["extra"]}


case(H + "store_then_mutate", params={"sub": Ref("HSub"), "glyphs": Set(STR), "extra": STR}, returns=INT, modifies=["HSub.glyphs", "glyphs"],
     ensures={"grown": "glyphs == old(glyphs) | {extra}", "field": "sub.glyphs == glyphs"},
     canaries={"untouched": "glyphs == old(glyphs)"},
     gen=lambda rng: {"glyphs": names(rng), "extra": rng.choice(["a", "z"])}, build=_mk_sub)
case(H + "store_then_mutate", name="undeclared", params={"sub": Ref("HSub"), "glyphs": Set(STR), "extra": STR}, returns=INT, modifies=["HSub.glyphs"],
     must_fail=["glyphs-unchanged"],
     gen=lambda rng: {"glyphs": [], "extra": "a"}, build=_mk_sub, n=2)
case(H + "store_then_mutate_local", params={"sub": Ref("HSub"), "extra": STR}, returns=Set(STR), modifies=["HSub.glyphs"],
     ensures={"one": "result == {extra}", "field": "sub.glyphs == result"},
     canaries={"empty": "len(result) == 0"},
     gen=lambda rng: {"extra": rng.choice(["a", "z"])}, build=lambda d: {"sub": M.HSub(), "extra": d["extra"]})
case(H + "store_twice", params={"a": Ref("HSub"), "b": Ref("HSub"), "m": Set(STR)}, returns=INT, modifies=["HSub.glyphs"],
     ensures={"both": "a.glyphs == m and b.glyphs == m", "m": "m == old(m)"},
     canaries={"empty": "len(a.glyphs) == 0"},
     gen=lambda rng: {"m": names(rng)}, build=lambda d: {"a": M.HSub(), "b": M.HSub(), "m": set(d["m"])})
case(H + "store_twice_then_mutate", params={"a": Ref("HSub"), "b": Ref("HSub"), "m": Set(STR), "x": STR}, returns=INT, modifies=["HSub.glyphs", "m"],
     expect="unsupported", msg="stored into two")
