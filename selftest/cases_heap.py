"""protocol hooks in loops, del on objects, old() under quantifiers, nested objects at run time."""


class HTable:
    def __init__(self):
        self.metrics = {}

    def __setitem__(self, k, v):
        self.metrics[k] = v

    def __getitem__(self, k):
        return self.metrics[k]

    def __delitem__(self, k):
        del self.metrics[k]

    def __contains__(self, k):
        return k in self.metrics


class HItem:
    def __init__(self, v):
        self.v = v


class HBox:
    def __init__(self, items, label=""):
        self.items = items
        self.label = label


def fill_table(t, names):
    for n in names:
        t[n] = 1
    return t


def drop(t, k):
    del t[k]


def set_key(d, k):
    d[k] = 0


def touch(c, cs):
    c.v = c.v + 1


def relabel(box, s):
    box.label = s
    return box.items


def size(xs):
    return len(xs)


def first_item(box):
    return box.items[0]


class HCtx:
    def __init__(self):
        self.modified = set()
        self.rows = {}


def alias_add(ctx, x):
    modified = ctx.modified
    modified.add(x)
    return len([x])


def alias_then_direct(ctx, x, y):
    modified = ctx.modified
    ctx.modified.add(y)
    modified.add(x)
    return x in modified and y in modified


def alias_rebind_field(ctx, x):
    modified = ctx.modified
    ctx.modified = set()
    modified.add(x)
    return 0


def alias_loop(ctx, xs):
    modified = ctx.modified
    for x in xs:
        modified.add(x)
    return 0


def alias_item(ctx, k, x):
    row = ctx.rows[k]
    row.append(x)
    return 0


COPY_ATTRS = {"v", "w"}


class HInfo:
    def __init__(self, v=None, w=None):
        self.v = v
        self.w = w


def copy_attrs(src, dst):
    for attr in COPY_ATTRS:
        if (value := getattr(src, attr, None)) is not None:
            setattr(dst, attr, value)


def update_values(d):
    for xs in d.values():
        xs.append(0)
    return 0


def unit_transform(t):
    return t[:-1] == (1, 0, 0, 1, 0)


class HReg:
    def __init__(self, vals):
        self.vals = vals


def reg_bump(r, k):
    # round 4 (C03 #4): clauses read the derived view `twice` (a lambda over the heap); beta_reduce=True
    r.vals[k] = r.vals.get(k, 0) + 1
    return r.vals[k]


class HSub:
    def __init__(self):
        self.glyphs = set()


def store_then_mutate(sub, glyphs, extra):
    # round 4 (soundness, ext-C05-C10): `obj.field = param` stores the SAME set object: a later in-place change of the field
    # changes the caller's set
    sub.glyphs = glyphs
    sub.glyphs.add(extra)
    return len([extra])


def store_then_mutate_local(sub, extra):
    s = set()
    sub.glyphs = s
    sub.glyphs.add(extra)
    return s


def store_twice(a, b, m):
    # one dict stored into two objects (cmap4_0_3.cmap = mapping; cmap4_3_1.cmap = mapping)
    a.glyphs = m
    b.glyphs = m
    return len([a, b])


def store_twice_then_mutate(a, b, m, x):
    a.glyphs = m
    b.glyphs = m
    b.glyphs.add(x)  # would change a.glyphs and m too: not modelled -> refused
    return 0
