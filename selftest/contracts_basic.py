"""Contracts for cases_basic.py (regression protection for pre-existing engine features)."""
from pyvc.api import BOOL, INT, STR, Dict, List, Loop, Opt, Ref, Set, Tuple, cls

from . import cases_basic as M
from .harness import case

B = "selftest.cases_basic:"

cls("STCounter", fields={"count": INT, "label": STR}, repo=B + "STCounter")
cls("STNode", fields={"value": INT, "tag": STR}, repo=B + "STNode")


def mk_counter(d):
    return M.STCounter(d.get("count", 0), d.get("label", ""))


def ints(rng, lo=0, hi=4):
    return [rng.randint(-3, 3) for _ in range(rng.randint(lo, hi))]


# ---- loops with invariants -------------------------------------------------------------------------------------
case(
    B + "sum_to", params={"xs": List(INT)}, returns=INT,
    requires=["all(x >= 0 for x in xs)"],
    ensures={"nonneg": "result >= 0", "bound": "all(result >= xs[k] for k in range(len(xs)))"},
    canaries={"positive": "result > 0", "small": "result <= 5"},
    loops={"for x in xs": Loop(index="i", invariants={"nn": "total >= 0", "dom": "all(total >= xs[k] for k in range(i))"})},
    locals={"total": INT},
    gen=lambda rng: {"xs": [rng.randint(0, 4) for _ in range(rng.randint(0, 4))]},
)
case(
    B + "count_pos", params={"xs": List(INT)}, returns=INT,
    ensures={"range": "0 <= result and result <= len(xs)", "none": "implies(all(x <= 0 for x in xs), result == 0)"},
    canaries={"all": "result == len(xs)", "off-by-one": "result < len(xs)"},
    loops={"for x in xs": Loop(index="i", invariants={"r": "0 <= n and n <= i", "z": "implies(all(xs[k] <= 0 for k in range(i)), n == 0)"})},
    locals={"n": INT},
    gen=lambda rng: {"xs": ints(rng)},
)
case(
    B + "while_down", params={"n": INT}, returns=INT,
    requires=["n >= 0"],
    ensures={"steps": "result == n"},
    canaries={"off": "result == n + 1"},
    loops={"while k > 0": Loop(invariants={"sum": "k + steps == n", "k": "k >= 0"})},
    locals={"k": INT, "steps": INT},
    gen=lambda rng: {"n": rng.randint(0, 6)},
)

# ---- dict iteration -----------------------------------------------------------------------------------------------
case(
    B + "dict_total", params={"d": Dict(STR, INT)}, returns=INT,
    requires=["all(d[k] >= 0 for k in d)"],
    ensures={"nn": "result >= 0", "dom": "all(result >= d[k] for k in d)"},
    canaries={"pos": "result > 0"},
    loops={"for (k, v) in d.items()": Loop(index="i", seq="K", invariants={"nn": "t >= 0", "dom": "all(t >= d[K[a]] for a in range(i))"})},
    locals={"t": INT},
    gen=lambda rng: {"d": {k: rng.randint(0, 3) for k in rng.sample(["a", "b", "c"], rng.randint(0, 3))}},
)
case(
    B + "dict_keys_copy", params={"d": Dict(STR, INT)}, returns=List(STR),
    ensures={"len": "len(result) == len(d)", "in": "all(k in d for k in result)", "all": "all(k in result for k in d)"},
    canaries={"nonempty": "len(result) > 0", "short": "len(result) < len(d) or len(d) == 0"},
    loops={"for k in d": Loop(index="i", seq="K", invariants={"copy": "out == K[:i]"})},
    locals={"out": List(STR)},
    gen=lambda rng: {"d": {k: 1 for k in rng.sample(["a", "b", "c"], rng.randint(0, 3))}},
)

# ---- Opt -------------------------------------------------------------------------------------------------------------
case(
    B + "opt_default", params={"x": Opt(INT), "dflt": INT}, returns=INT,
    ensures={"none": "implies(x is None, result == dflt)", "some": "implies(x is not None, result == x + 1)"},
    canaries={"always-dflt": "result == dflt", "wrong": "implies(x is not None, result == x)"},
    gen=lambda rng: {"x": rng.choice([None, 0, 1, 5]), "dflt": rng.randint(0, 9)},
)
case(
    B + "opt_deref", params={"x": Opt(INT)}, returns=INT,
    must_fail=["safe.TypeError"],  # None + 1
    gen=lambda rng: {"x": rng.choice([0, 1, 5])}, requires=["x is not None or True"], raises={},
    name="unguarded", n=5,
)
case(
    B + "opt_deref", params={"x": Opt(INT)}, returns=INT, requires=["x is not None"],
    ensures={"v": "result == x + 1"}, canaries={"w": "result == x"},
    gen=lambda rng: {"x": rng.choice([0, 1, 5])}, name="guarded",
)

# ---- heap writes, framing ---------------------------------------------------------------------------------------------
case(
    B + "bump", params={"c": Ref("STCounter"), "by": INT}, returns=INT, modifies=["STCounter.count"],
    ensures={"new": "c.count == old(c.count) + by", "ret": "result == c.count", "label": "c.label == old(c.label)"},
    canaries={"same": "c.count == old(c.count)", "ret-old": "result == old(c.count)"},
    gen=lambda rng: {"c": {"count": rng.randint(0, 5)}, "by": rng.randint(1, 3)},
    build=lambda d: {"c": mk_counter(d["c"]), "by": d["by"]},
)
case(
    B + "bump_two", params={"a": Ref("STCounter"), "b": Ref("STCounter")}, returns=INT, modifies=["STCounter.count"],
    ensures={"b": "b.count >= old(b.count) + 1", "alias": "implies(a is b, a.count == old(a.count) + 2)",
             "noalias": "implies(a is not b, a.count == old(a.count) + 1 and result == a.count)"},
    # false when a and b are the same object
    canaries={"plus1": "a.count == old(a.count) + 1", "ret": "result == old(a.count) + 1"},
    gen=lambda rng: {"a": rng.randint(0, 3), "b": rng.randint(0, 3), "same": rng.random() < 0.4},
    build=lambda d: (lambda a: {"a": a, "b": a if d["same"] else M.STCounter(d["b"])})(M.STCounter(d["a"])),
)
case(
    B + "loop_field", params={"c": Ref("STCounter"), "xs": List(INT)}, returns=INT, modifies=["STCounter.count"],
    ensures={"n": "c.count == old(c.count) + len(xs)", "ret": "result == c.count"},
    canaries={"same": "c.count == old(c.count)"},
    loops={"for x in xs": Loop(index="i", invariants={"n": "c.count == old(c.count) + i"})},
    gen=lambda rng: {"c": rng.randint(0, 3), "xs": ints(rng)},
    build=lambda d: {"c": M.STCounter(d["c"]), "xs": d["xs"]},
)
case(
    # the field is first touched INSIDE the loop (no requires/invariant mentions it): it must still be havocked
    B + "loop_untouched_field", params={"c": Ref("STCounter"), "xs": List(INT)}, modifies=["STCounter.count"],
    ensures={"label": "c.label == old(c.label)"},
    canaries={"same": "c.count == old(c.count)"},
    gen=lambda rng: {"c": rng.randint(0, 3), "xs": ints(rng)},
    build=lambda d: {"c": M.STCounter(d["c"]), "xs": d["xs"]},
)

# ---- allocation / freshness, constructors by contract ------------------------------------------------------------------
case(
    # "<param>.field" in modifies: only that object's field changes (callers keep everything else)
    B + "STNode.__init__", params={"self": Ref("STNode"), "value": INT}, modifies=["self.value", "self.tag"],
    ensures={"v": "self.value == value", "t": "self.tag == ''"},
    canaries={"v0": "self.value == 0"},
    gen=lambda rng: {"value": rng.randint(1, 5)},
    build=lambda d: {"self": M.STNode.__new__(M.STNode), "value": d["value"]},
)
case(
    B + "make_node", params={"v": INT}, returns=Ref("STNode"),
    ensures={"fresh": "fresh(result)", "v": "result.value == v", "alloc": "allocated(result)"},
    canaries={"old": "not fresh(result)", "v1": "result.value == v + 1"},
    gen=lambda rng: {"v": rng.randint(0, 5)},
)
case(
    B + "make_two", params={"v": INT}, returns=List(Ref("STNode")),
    ensures={"two": "len(result) == 2", "distinct": "result[0] is not result[1]", "fresh": "fresh(result[0]) and fresh(result[1])",
             "vals": "result[0].value == v and result[1].value == v + 1", "tag": "result[0].tag == 'a' and result[1].tag == ''"},
    canaries={"same": "result[0] is result[1]", "tagb": "result[1].tag == 'a'"},
    gen=lambda rng: {"v": rng.randint(0, 5)},
)

# ---- call by contract with modifies ---------------------------------------------------------------------------------------
case(
    B + "push", params={"xs": List(INT), "x": INT}, modifies=["xs"],
    ensures={"app": "xs == old(xs) + [x]"}, canaries={"same": "xs == old(xs)"},
    gen=lambda rng: {"xs": ints(rng), "x": rng.randint(0, 3)},
)
case(
    B + "push_twice", params={"xs": List(INT), "x": INT}, returns=INT, modifies=["xs"],
    ensures={"app": "xs == old(xs) + [x, x + 1]", "len": "result == len(old(xs)) + 2"},
    canaries={"one": "xs == old(xs) + [x]", "len1": "result == len(old(xs)) + 1"},
    gen=lambda rng: {"xs": ints(rng), "x": rng.randint(0, 3)},
)

# ---- implicit exceptions ---------------------------------------------------------------------------------------------------
case(
    B + "lookup", params={"d": Dict(STR, INT), "k": STR}, returns=INT, name="unguarded",
    must_fail=["safe.KeyError"],
    gen=lambda rng: {"d": {"a": 1}, "k": "a"}, n=3,
)
case(
    B + "lookup", params={"d": Dict(STR, INT), "k": STR}, returns=INT, name="raises",
    raises={"KeyError": "k not in d"}, ensures={"v": "result == d[k]"}, canaries={"zero": "result == 0"},
    gen=lambda rng: {"d": {k: rng.randint(1, 3) for k in rng.sample(["a", "b"], rng.randint(0, 2))}, "k": rng.choice(["a", "b"])},
)
case(
    B + "lookup_safe", params={"d": Dict(STR, INT), "k": STR}, returns=INT,
    ensures={"hit": "implies(k in d, result == d[k])", "miss": "implies(k not in d, result == -1)"},
    canaries={"always-miss": "result == -1"},
    gen=lambda rng: {"d": {k: rng.randint(1, 3) for k in rng.sample(["a", "b"], rng.randint(0, 2))}, "k": rng.choice(["a", "b"])},
)
case(
    B + "first", params={"xs": List(INT)}, returns=INT, name="unguarded", must_fail=["safe.IndexError"],
    gen=lambda rng: {"xs": [1]}, n=2,
)
case(
    B + "try_lookup", params={"d": Dict(STR, INT), "k": STR}, returns=INT,
    ensures={"hit": "implies(k in d, result == d[k])", "miss": "implies(k not in d, result == 0)"},
    canaries={"always-miss": "result == 0"},
    gen=lambda rng: {"d": {k: rng.randint(1, 3) for k in rng.sample(["a", "b"], rng.randint(0, 2))}, "k": rng.choice(["a", "b"])},
)
case(
    B + "raise_if_neg", params={"x": INT}, returns=INT, raises={"ValueError": "x < 0"},
    ensures={"id": "result == x"}, canaries={"pos": "result > 0"},
    gen=lambda rng: {"x": rng.randint(-3, 3)},
)
case(
    B + "raise_if_neg", params={"x": INT}, returns=INT, raises={"ValueError": "x <= 0"}, name="wrong-cond",
    must_fail=["raises.no-ValueError"],
    gen=lambda rng: {"x": rng.randint(1, 3)}, n=3,
)

# ---- values --------------------------------------------------------------------------------------------------------------------
case(
    B + "set_ops", params={"a": Set(INT), "b": Set(INT)}, returns=Set(INT),
    ensures={"sym": "all(iff(x in result, (x in a) != (x in b)) for x in a | b)", "sub": "result <= a | b"},
    canaries={"union": "result == a | b", "empty": "result == set()"},
    gen=lambda rng: {"a": rng.sample(range(4), rng.randint(0, 3)), "b": rng.sample(range(4), rng.randint(0, 3))},
    build=lambda d: {"a": set(d["a"]), "b": set(d["b"])},
)
case(
    B + "str_ops", params={"s": STR, "t": STR}, returns=STR,
    ensures={"len": "len(result) == len(s) + len(t)", "x": "implies(s.startswith('x'), result.startswith('x'))"},
    canaries={"st": "result == s + t"},
    gen=lambda rng: {"s": rng.choice(["x", "xa", "b", ""]), "t": rng.choice(["q", "", "zz"])},
)
case(
    B + "branchy", params={"x": INT, "y": INT}, returns=INT,
    ensures={"max": "result >= x and result >= y and (result == x or result == y)"},
    canaries={"x": "result == x", "gt": "result > y"},
    gen=lambda rng: {"x": rng.randint(-2, 2), "y": rng.randint(-2, 2)},
)

# ---- `modifies` is checked: what a body changes without declaring it must be provably unchanged ---------------------------------
case(
    B + "sneaky_field", params={"c": Ref("STCounter")}, returns=INT, must_fail=["modifies.STCounter.count-unchanged"],
    ensures={"z": "result == 0"}, gen=lambda rng: {"c": 1}, build=lambda d: {"c": M.STCounter(d["c"])}, n=2,
)
case(
    B + "sneaky_param", params={"xs": List(INT)}, returns=INT, must_fail=["modifies.xs-unchanged"],
    ensures={"z": "result == 0"}, gen=lambda rng: {"xs": [1]}, n=2,
)
case(
    B + "sneaky_loop", params={"xs": List(INT), "ys": List(INT)}, returns=INT, must_fail=["modifies.xs-unchanged"],
    ensures={"z": "result == 0"}, gen=lambda rng: {"xs": [1], "ys": [2]}, n=2,
)
case(
    # re-binding a parameter and mutating the NEW object is not visible to the caller: no modifies needed
    B + "rebind_param", params={"xs": List(INT)}, returns=INT,
    ensures={"n": "result == len(xs) + 2"}, canaries={"n1": "result == len(xs) + 1"},
    gen=lambda rng: {"xs": ints(rng)},
)
case(
    # stores to an object the function allocated itself need no modifies entry (the constructor's own effects do)
    B + "own_object_store", params={"v": INT}, returns=INT,
    ensures={"v": "result == v"}, canaries={"z": "result == 0"},
    gen=lambda rng: {"v": rng.randint(1, 4)},
)

# ---- a call under `and` / conditional-expression guards has conditional effects ------------------------------------------------------
case(
    B + "guarded_push", params={"xs": List(INT), "flag": BOOL}, returns=INT, modifies=["xs"],
    ensures={"n": "result == len(old(xs)) + ite(flag, 1, 0)", "kept": "implies(not flag, xs == old(xs))", "app": "implies(flag, xs == old(xs) + [1])"},
    canaries={"always": "result == len(old(xs)) + 1", "never": "xs == old(xs)"},
    gen=lambda rng: {"xs": ints(rng), "flag": rng.random() < 0.5},
)
case(
    B + "guarded_bump", params={"c": Ref("STCounter"), "flag": BOOL}, returns=INT, modifies=["STCounter.count"],
    ensures={"kept": "implies(not flag, c.count == old(c.count) and result == 0)", "bumped": "implies(flag, c.count == old(c.count) + 1 and result == c.count)"},
    canaries={"always": "c.count == old(c.count) + 1", "never": "c.count == old(c.count)"},
    gen=lambda rng: {"c": rng.randint(0, 3), "flag": rng.random() < 0.5}, build=lambda d: {"c": M.STCounter(d["c"]), "flag": d["flag"]},
)

# ---- a `modifies` parameter that is re-bound on one path (`if visited is None: visited = set()`) ---------------------------------------------
case(
    B + "visit", params={"name": STR, "visited": Opt(Set(STR))}, returns=INT, modifies=["visited"],
    ensures={"some": "implies(old(visited) is not None, name in visited and all(x in visited for x in old(visited)))",
             "none": "implies(old(visited) is None, visited is None)"},
    canaries={"always-in": "visited is not None and name in visited", "unchanged": "visited == old(visited)"},
    gen=lambda rng: {"name": rng.choice(["a", "b"]), "visited": rng.choice([None, [], ["a"], ["c"]])},
    build=lambda d: {"name": d["name"], "visited": None if d["visited"] is None else set(d["visited"])},
)

# ---- fresh() in a callee's requires refers to the state at the CALL (an object the caller created itself is not fresh there) ---------------
case(
    B + "needs_existing", params={"n": Ref("STNode")}, returns=INT, requires=["not fresh(n)"],
    ensures={"v": "result == n.value"}, canaries={"z": "result == 0"},
    gen=lambda rng: {"v": rng.randint(1, 4)}, build=lambda d: {"n": M.STNode(d["v"])},
)
case(
    B + "make_and_use", params={"v": INT}, returns=INT,
    ensures={"v": "result == v"}, canaries={"z": "result == 0"},
    gen=lambda rng: {"v": rng.randint(1, 4)},
)

# ---- references inside tuple / Optional results of a call are allocated (a later new object differs from them) -----------------------------
from pyvc.api import Tuple  # noqa: E402

case(
    B + "pair_of", params={"a": Ref("STNode"), "b": Opt(Ref("STNode"))}, returns=Tuple(Ref("STNode"), Opt(Ref("STNode"))),
    ensures={"same": "result[0] is a", "alloc": "allocated(result[0]) and allocated(result[1]) and not fresh(result[1])"},
    canaries={"fresh": "fresh(result[0])"},
    gen=lambda rng: {"v": rng.randint(0, 3)}, build=lambda d: {"a": M.STNode(d["v"]), "b": None},
)
case(
    B + "use_pair", params={"a": Ref("STNode"), "v": INT}, returns=STR,
    ensures={"kept": "result == a.tag"}, canaries={"new": "result == 'new'"},
    gen=lambda rng: {"v": rng.randint(0, 3)}, build=lambda d: {"a": M.STNode(d["v"]), "v": d["v"]},
)

# ---- per-contract solver order (round 4): `portfolio=[...]` only re-orders, canaries keep the default order -----------------
case(
    B + "sum_to", name="portfolio-cvc5", params={"xs": List(INT)}, returns=INT,
    requires=["all(x >= 0 for x in xs)"],
    ensures={"nonneg": "result >= 0"},
    canaries={"positive": "result > 0"},
    loops={"for x in xs": Loop(index="i", invariants={"nn": "total >= 0"})},
    locals={"total": INT},
    portfolio=["cvc5"], first_solver="cvc5",
    gen=lambda rng: {"xs": [rng.randint(0, 4) for _ in range(rng.randint(0, 4))]},
)

# ---- `Opt(X) or X` has type X (round 4) --------------------------------------------------------------------------------------
case(
    B + "opt_or_default", params={"x": Opt(STR)}, returns=STR,
    ensures={"none": "implies(x is None, result == '!')", "some": "implies(x is not None and x != '', result == x + '!')", "empty": "implies(x == '', result == '!')"},
    canaries={"never-bare": "result != '!'", "keeps": "implies(x is not None, result == x + '!!')"},
    gen=lambda rng: {"x": rng.choice([None, "", "a", "bc"])},
)
case(
    B + "opt_or_len", params={"x": Opt(List(INT)), "d": List(INT)}, returns=INT,
    ensures={"none": "implies(x is None, result == len(d))", "some": "implies(x is not None and len(x) > 0, result == len(x))"},
    canaries={"x-wins": "implies(x is not None, result == len(x))"},
    gen=lambda rng: {"x": rng.choice([None, [], [1], [1, 2]]), "d": [0] * rng.randint(0, 3)},
)

# ---- python-level list + python-level list with symbolic elements (round 4) -------------------------------------------------
case(
    B + "pylist_concat", params={"a": INT, "b": INT, "zs": List(INT)}, returns=Tuple(List(INT), List(INT), Tuple(INT, INT)),
    ensures={"len": "len(result[0]) == 3 + len(zs)", "head": "result[0][0] == a and result[0][1] == b and result[0][2] == a",
             "tail": "all(result[0][3 + k] == zs[k] for k in range(len(zs)))", "snd": "result[1] == zs + [b]", "tup": "result[2] == (a, b)"},
    canaries={"swapped": "result[0][1] == a", "tup-swapped": "result[2] == (b, a)", "short": "len(result[1]) == len(zs)"},
    gen=lambda rng: {"a": rng.randint(0, 3), "b": rng.randint(4, 6), "zs": ints(rng)},
)

# ---- Optional parameters are narrowed like locals (round 4, C03 #5) ---------------------------------------------------------
for _fn in ("opt_param_narrow", "opt_param_narrow_early"):
    case(
        B + _fn, params={"d": Dict(STR, INT), "key": Opt(STR)}, returns=INT,
        requires=["implies(key is not None, key in d)"],
        ensures={"none": "implies(key is None, result == 0)", "some": "implies(key is not None, result == d[key])"},
        canaries={"always-zero": "result == 0", "old-key": "implies(key is not None, result == 0)"},
        gen=lambda rng: (lambda k: {"d": {"a": 1, "b": 2}, "key": k})(rng.choice([None, "a", "b"])),
    )

# ---- `any(True for ..)` = non-empty; entailed guards drop out of conditional effects (round 4, C13 #11) ----------------------
case(
    B + "any_const_guard", params={"c": Ref("STCounter"), "xs": List(INT)}, returns=INT, modifies=["STCounter.count"],
    requires=["c.count >= 0"],
    ensures={"bumped": "implies(len(xs) > 0, c.count == old(c.count) + 1 and result == 1)", "kept": "implies(len(xs) == 0, c.count == old(c.count) and result == 0)"},
    canaries={"always": "c.count == old(c.count) + 1", "never": "result == 0"},
    gen=lambda rng: {"c": rng.randint(0, 3), "xs": ints(rng)}, build=lambda d: {"c": M.STCounter(d["c"]), "xs": d["xs"]},
)
case(
    B + "any_const_guard", name="nonempty", params={"c": Ref("STCounter"), "xs": List(INT)}, returns=INT, modifies=["STCounter.count"],
    requires=["c.count >= 0", "len(xs) > 0"],
    ensures={"bumped": "c.count == old(c.count) + 1 and result == 1"},
    canaries={"never": "result == 0"},
    gen=lambda rng: {"c": rng.randint(0, 3), "xs": [1] + ints(rng)}, build=lambda d: {"c": M.STCounter(d["c"]), "xs": d["xs"]},
)

# ---- hint form `same-witnesses: implies(A, B)` (round 4, C03 #6) --------------------------------------------------------------------
_DUP = "any(any(any(any({0}[i][a] == {0}[j][b] and (i != j or a != b) for b in range(len({0}[j]))) for a in range(len({0}[i]))) for j in range(len({0}))) for i in range(len({0})))"
_PW = "len(xs) == len(ys) and all(xs[i] == ys[i] for i in range(len(xs)))"
case(
    B + "witness_transfer", params={"xs": List(List(INT)), "ys": List(List(INT))}, returns=INT, requires=[_PW],
    ensures={"both": "implies(" + _DUP.format("xs") + ", " + _DUP.format("ys") + ")"},
    canaries={"never-dup": "not " + _DUP.format("xs")},
    hints={"z = 0": ["same-witnesses: implies(" + _DUP.format("xs") + ", " + _DUP.format("ys") + ")"]},
    gen=lambda rng: (lambda v: {"xs": v, "ys": [list(x) for x in v]})([ints(rng, hi=2) for _ in range(rng.randint(0, 3))]),
)
case(
    # a FALSE implication under the tactic: ys may differ from xs, nothing transfers
    B + "witness_transfer", name="false-hint", params={"xs": List(List(INT)), "ys": List(List(INT))}, returns=INT, requires=["len(xs) == len(ys)"],
    must_fail=["assert.hint"],
    hints={"z = 0": ["same-witnesses: implies(" + _DUP.format("xs") + ", " + _DUP.format("ys") + ")"]},
    gen=lambda rng: {"xs": [[1]], "ys": [[2]]}, n=2,
)
case(
    B + "witness_transfer", name="not-an-implication", params={"xs": List(List(INT)), "ys": List(List(INT))}, returns=INT,
    hints={"z = 0": ["same-witnesses: len(xs) >= 0"]}, expect="unsupported", msg="same-witnesses",
)

# ---- one local, two types: "name@L<line>" declares the type at that assignment (round 4) ------------------------------------------
_L2 = next(i for i, l in enumerate(open(M.__file__), 1) if "r = {k: [] for k in xs}" in l)
case(
    B + "two_types", params={"xs": List(INT)}, returns=INT, locals={"r": List(INT), f"r@L{_L2}": Dict(INT, List(INT))},
    ensures={"bound": "result >= len(xs)"},
    canaries={"exact": "result == len(xs)"},
    loops={"for x in xs": Loop(index="i", invariants={"n": "len(r) == i"})},
    gen=lambda rng: {"xs": ints(rng)},
)

# ---- old() inside a `raises` condition (a pre-state formula: old(e) is e), also with a bound variable (round 4) ------------------
case(
    B + "lookup", name="old-in-raises", params={"d": Dict(STR, INT), "k": STR}, returns=INT,
    raises={"KeyError": "k not in old(d) or not any(old(d[j]) == d[j] and j == k for j in d)"}, ensures={"v": "result == d[k]"},
    canaries={"zero": "result == 0"},
    gen=lambda rng: {"d": {"a": 1, "b": 2}, "k": rng.choice(["a", "b", "z"])},
)
