"""static / class methods through self./cls./the class, super(), truthiness of Ref and Opt(Ref)."""
import z3

from pyvc.api import INT, Const, List, Loop, Opt, Ref, cls
from pyvc.core import Val

from . import cases_oop as M
from .harness import case

O = "selftest.cases_oop:"

cls("OBase", fields={"total": INT}, repo=O + "OBase")
cls("ODerived", fields={"total": INT}, repo=O + "ODerived")
cls("OAnchor", fields={"x": INT}, repo=O + "OAnchor")


def _bag_len(ex, st, self):
    return Val(INT, z3.Length(ex.read_field(st, self, "items").term))


cls("OBag", fields={"items": List(INT)}, repo=O + "OBag", length=_bag_len)
cls("OBagNoHook", fields={"items": List(INT)}, repo=O + "OBag")


def mk_base(total=0, klass=M.OBase):
    o = klass()
    o.total = total
    return o


def ints(rng):
    return [rng.randint(-3, 3) for _ in range(rng.randint(0, 3))]


def selfcall(fn, args):
    return fn(**args)


# ---- callee contracts -------------------------------------------------------------------------------------------------
case(O + "OBase.double", params={"x": INT}, returns=INT, ensures={"d": "result == 2 * x"}, canaries={"id": "result == x"},
     gen=lambda rng: {"x": rng.randint(-3, 3)})
case(O + "OBase.make_label", params={"cls": Const(M.OBase), "x": INT}, returns=INT, ensures={"l": "result == x + 1"}, canaries={"id": "result == x"},
     gen=lambda rng: {"x": rng.randint(-3, 3)}, call=lambda fn, a: fn(a["x"]))
case(O + "OBase.fill", params={"xs": List(INT), "x": INT}, modifies=["xs"], ensures={"app": "xs == old(xs) + [x]"}, canaries={"same": "xs == old(xs)"},
     gen=lambda rng: {"xs": ints(rng), "x": rng.randint(0, 3)})
case(O + "OBase.add", params={"self": Ref("OBase"), "xs": List(INT), "x": INT}, modifies=["xs"],
     ensures={"app": "xs == old(xs) + [x + self.total]"}, canaries={"plain": "xs == old(xs) + [x]"},
     gen=lambda rng: {"t": rng.randint(1, 3), "xs": ints(rng), "x": rng.randint(0, 3)},
     build=lambda d: {"self": mk_base(d["t"]), "xs": d["xs"], "x": d["x"]})
case(O + "OBase.setup", params={"self": Ref("OBase"), "n": INT}, returns=INT, modifies=["OBase.total"],
     ensures={"t": "self.total == n", "r": "result == n + 1"}, canaries={"r0": "result == n"},
     gen=lambda rng: {"n": rng.randint(0, 5)}, build=lambda d: {"self": mk_base(), "n": d["n"]})
case(O + "OBase.setup", name="ODerived", params={"self": Ref("ODerived"), "n": INT}, returns=INT, modifies=["ODerived.total"],
     ensures={"t": "self.total == n", "r": "result == n + 1"}, canaries={"r0": "result == n"},
     gen=lambda rng: {"n": rng.randint(0, 5)}, build=lambda d: {"self": mk_base(0, M.ODerived), "n": d["n"]},
     call=lambda fn, a: M.OBase.setup(a["self"], a["n"]))

# ---- static / class methods through self. / cls. / the class --------------------------------------------------------------
case(O + "OBase.use_static", params={"self": Ref("OBase"), "x": INT}, returns=INT,
     ensures={"v": "result == 2 * x + 1"}, canaries={"w": "result == 2 * x"},
     gen=lambda rng: {"x": rng.randint(-3, 3)}, build=lambda d: {"self": mk_base(), "x": d["x"]})
case(O + "OBase.use_class", params={"self": Ref("OBase"), "x": INT}, returns=INT,
     ensures={"v": "result == x + 1"}, canaries={"w": "result == x"},
     gen=lambda rng: {"x": rng.randint(-3, 3)}, build=lambda d: {"self": mk_base(), "x": d["x"]})
case(O + "OBase.use_fill", params={"self": Ref("OBase"), "xs": List(INT), "x": INT}, returns=INT, modifies=["xs"],
     ensures={"app": "xs == old(xs) + [x]", "n": "result == len(old(xs)) + 1"}, canaries={"same": "xs == old(xs)", "n0": "result == len(old(xs))"},
     gen=lambda rng: {"xs": ints(rng), "x": rng.randint(0, 3)}, build=lambda d: {"self": mk_base(), **d})
case(O + "OBase.use_add", params={"self": Ref("OBase"), "xs": List(INT)}, returns=INT, modifies=["xs"],
     ensures={"app": "xs == old(xs) + [1 + self.total]", "n": "result == len(old(xs)) + 1"}, canaries={"same": "xs == old(xs)", "n0": "result == len(old(xs))"},
     gen=lambda rng: {"t": rng.randint(1, 3), "xs": ints(rng)}, build=lambda d: {"self": mk_base(d["t"]), "xs": d["xs"]})
case(O + "OBase.loop_add", params={"self": Ref("OBase"), "xs": List(INT), "ys": List(INT)}, returns=INT, modifies=["xs"],
     ensures={"n": "result == len(old(xs)) + len(ys)", "pre": "xs[:len(old(xs))] == old(xs)"},
     canaries={"same": "xs == old(xs)", "n0": "result == len(old(xs))"},
     loops={"for y in ys": Loop(index="i", invariants={"n": "len(xs) == len(old(xs)) + i", "pre": "xs[:len(old(xs))] == old(xs)"})},
     gen=lambda rng: {"t": rng.randint(1, 3), "xs": ints(rng), "ys": [1] + ints(rng)}, build=lambda d: {"self": mk_base(d["t"]), "xs": d["xs"], "ys": d["ys"]})
case(O + "OBase.loop_fill", params={"self": Ref("OBase"), "xs": List(INT), "ys": List(INT)}, returns=INT, modifies=["xs"],
     ensures={"n": "result == len(old(xs)) + len(ys)"},
     canaries={"same": "xs == old(xs)", "n0": "result == len(old(xs))"},
     loops={"for y in ys": Loop(index="i", invariants={"n": "len(xs) == len(old(xs)) + i"})},
     gen=lambda rng: {"xs": ints(rng), "ys": [1] + ints(rng)}, build=lambda d: {"self": mk_base(), "xs": d["xs"], "ys": d["ys"]})
case(O + "OBase.via_cls", params={"cls": Const(M.OBase), "x": INT}, returns=INT,
     ensures={"v": "result == 3 * x + 1"}, canaries={"w": "result == 3 * x"},
     gen=lambda rng: {"x": rng.randint(-3, 3)}, call=lambda fn, a: fn(a["x"]))
case(O + "via_class", params={"x": INT}, returns=INT,
     ensures={"v": "result == 3 * x + 1"}, canaries={"w": "result == 3 * x"},
     gen=lambda rng: {"x": rng.randint(-3, 3)})

# ---- super() ------------------------------------------------------------------------------------------------------------
case(O + "ODerived.setup", params={"self": Ref("ODerived"), "n": INT}, returns=INT, modifies=["ODerived.total"],
     ensures={"t": "self.total == n + 1", "r": "result == 2 * (n + 2)"}, canaries={"t0": "self.total == n", "r0": "result == 2 * (n + 1)"},
     gen=lambda rng: {"n": rng.randint(0, 5)}, build=lambda d: {"self": mk_base(0, M.ODerived), "n": d["n"]})

# ---- truthiness -------------------------------------------------------------------------------------------------------------
A = Ref("OAnchor")


def anc(v):
    return None if v is None else M.OAnchor(v)


case(O + "pick", params={"a": Opt(A), "b": A}, returns=INT,
     ensures={"a": "implies(a is not None, result == a.x)", "b": "implies(a is None, result == b.x)"},
     canaries={"always-b": "result == b.x", "always-a": "implies(a is not None, result == b.x)"},
     gen=lambda rng: {"a": rng.choice([None, 1, 2]), "b": rng.randint(5, 7)}, build=lambda d: {"a": anc(d["a"]), "b": anc(d["b"])})
case(O + "either", params={"a": Opt(A), "b": Opt(A)}, returns=INT,
     ensures={"v": "result == ite(a is None and b is None, 0, 1)"}, canaries={"one": "result == 1", "a-only": "result == ite(a is None, 0, 1)"},
     gen=lambda rng: {"a": rng.choice([None, 1]), "b": rng.choice([None, 2])}, build=lambda d: {"a": anc(d["a"]), "b": anc(d["b"])})
case(O + "both", params={"a": Opt(A), "b": Opt(A)}, returns=INT,
     ensures={"v": "implies(a is not None and b is not None, result == a.x + b.x)", "z": "implies(a is None or b is None, result == 0)"},
     canaries={"zero": "result == 0"},
     gen=lambda rng: {"a": rng.choice([None, 1]), "b": rng.choice([None, 2])}, build=lambda d: {"a": anc(d["a"]), "b": anc(d["b"])})
case(O + "truthy_obj", params={"a": A}, returns=INT, ensures={"one": "result == 1"}, canaries={"zero": "result == 0"},
     gen=lambda rng: {"a": rng.randint(0, 2)}, build=lambda d: {"a": anc(d["a"])})
case(O + "opt_obj", params={"a": Opt(A)}, returns=INT,
     ensures={"none": "implies(a is None, result == -1)", "some": "implies(a is not None, result == a.x)"},
     canaries={"neg": "result == -1", "x0": "implies(a is not None, result == 0)"},
     gen=lambda rng: {"a": rng.choice([None, 0, 3])}, build=lambda d: {"a": anc(d["a"])})
case(O + "bag_truth", params={"b": Ref("OBag")}, returns=INT,
     ensures={"v": "result == ite(len(b.items) == 0, 0, 1)"}, canaries={"one": "result == 1", "zero": "result == 0"},
     gen=lambda rng: {"b": ints(rng)}, build=lambda d: {"b": M.OBag(d["b"])})
case(O + "opt_bag", params={"b": Opt(Ref("OBag"))}, returns=INT,
     ensures={"none": "implies(b is None, result == 0)", "some": "implies(b is not None, result == len(b.items))"},
     canaries={"zero": "result == 0", "one": "implies(b is not None, result >= 1)"},
     gen=lambda rng: {"b": rng.choice([None, [], [1], [1, 2]])}, build=lambda d: {"b": None if d["b"] is None else M.OBag(d["b"])})
# the real class defines __len__, the model has no hook: refusing is the only sound answer
case(O + "bag_truth", name="nohook", params={"b": Ref("OBagNoHook")}, returns=INT, expect="unsupported", msg="__bool__/__len__")

# ---- properties of repo classes: reading the attribute applies the getter's contract ------------------------------------------------------
cls("OPair", fields={"a": INT, "b": INT}, repo=O + "OPair")
case(O + "OPair.total", params={"self": Ref("OPair")}, returns=INT, ensures={"v": "result == self.a + self.b"}, canaries={"a": "result == self.a"},
     gen=lambda rng: {"a": rng.randint(0, 20), "b": rng.randint(1, 3)}, build=lambda d: {"self": M.OPair(d["a"], d["b"])},
     call=lambda fn, a: fn.fget(a["self"]))
from pyvc.api import BOOL  # noqa: E402

case(O + "OPair.big", params={"self": Ref("OPair")}, returns=BOOL, ensures={"v": "result == (self.a > 10)"}, canaries={"t": "result"},
     gen=lambda rng: {"a": rng.randint(0, 20), "b": rng.randint(1, 3)}, build=lambda d: {"self": M.OPair(d["a"], d["b"])},
     call=lambda fn, a: fn.fget(a["self"]))
case(O + "use_prop", params={"p": Ref("OPair")}, returns=INT,
     ensures={"big": "implies(p.a > 10, result == p.a + p.b)", "small": "implies(p.a <= 10, result == 0)"},
     canaries={"always": "result == p.a + p.b", "zero": "result == 0"},
     gen=lambda rng: {"a": rng.randint(0, 20), "b": rng.randint(1, 3)}, build=lambda d: {"p": M.OPair(d["a"], d["b"])})

# ---- enum members as values -------------------------------------------------------------------------------------------------------------------
from pyvc.api import STR, Enum  # noqa: E402

case(O + "pick_backend", params={"version": INT, "name": Opt(STR)}, returns=STR,
     raises={"ValueError": "(version != 1 and version != 2) or (name is not None and name != 'fast' and name != 'safe')"},
     ensures={"default1": "implies(version == 1 and name is None, result == 'safe1')", "default2": "implies(version == 2 and name is None, result == 'fast2')",
              "bad": "implies(version == 1 and name == 'fast', result == 'unsupported')", "explicit": "implies(version == 2 and name == 'safe', result == 'safe2')"},
     canaries={"always-safe": "result == 'safe1' or result == 'safe2'", "never-bad": "result != 'unsupported'"},
     gen=lambda rng: {"version": rng.choice([1, 2, 2, 3]), "name": rng.choice([None, "fast", "safe", "x"])})
case(O + "backend_name", params={"b": Enum(O + "OBackend")}, returns=STR,
     ensures={"v": "result == ite(b == OBackend.FAST, 'FAST', 'SAFE')", "val": "iff(b.value == 'fast', result == 'FAST')"},
     canaries={"fast": "result == 'FAST'"},
     gen=lambda rng: {"b": rng.choice(["fast", "safe"])}, build=lambda d: {"b": M.OBackend(d["b"])})

# ---- a Union-typed FIELD whose alternative the path condition fixes ------------------------------------------------------------------------------
from pyvc.api import Set as _Set, TupleOf, Union  # noqa: E402

cls("OSide", fields={"side1": Union(STR, TupleOf(STR))}, repo=O + "OSide")


def mk_side(v):
    return M.OSide(tuple(v) if isinstance(v, list) else v)


case(O + "OSide.first_glyphs", params={"self": Ref("OSide")}, returns=TupleOf(STR),
     ensures={"tup": "implies(isinstance(self.side1, tuple), result == self.side1)",
              "str": "implies(isinstance(self.side1, str), len(result) == 1 and result[0] == self.side1)"},
     canaries={"one": "len(result) == 1"},
     gen=lambda rng: {"s": rng.choice(["a", ["x", "y"], []])}, build=lambda d: {"self": mk_side(d["s"])})
case(O + "OSide.bases", params={"self": Ref("OSide"), "marks": _Set(STR)}, returns=TupleOf(STR), locals={},
     ensures={"nomarks": "all(g not in marks for g in result)", "str": "implies(isinstance(self.side1, str), len(result) == 0)"},
     canaries={"empty": "len(result) == 0"},
     gen=lambda rng: {"s": rng.choice(["a", ["x", "y"], ["m", "x"]]), "marks": ["m"]}, build=lambda d: {"self": mk_side(d["s"]), "marks": set(d["marks"])})
from pyvc.api import Dict as _Dict  # noqa: E402

case(O + "side_in_marks", params={"p": Ref("OSide"), "marks": _Set(STR), "table": _Dict(STR, INT)}, returns=INT,
     ensures={"tup": "implies(isinstance(p.side1, tuple), result == 0)", "miss": "implies(isinstance(p.side1, str) and p.side1 not in marks, result == 2)"},
     canaries={"two": "result == 2", "zero": "result == 0"},
     gen=lambda rng: {"s": rng.choice(["a", "m", ["x"]]), "marks": ["m"], "table": {"m": 5}},
     build=lambda d: {"p": mk_side(d["s"]), "marks": set(d["marks"]), "table": d["table"]})

# ---- functools.cached_property under contract: read like a property (round 4) ------------------------------------------------------
cls("OScaler", fields={"k": INT}, repo=O + "OScaler")
case(O + "OScaler.scale", params={"self": Ref("OScaler"), "x": INT}, returns=INT, ensures={"v": "result == self.k * x"}, canaries={"x": "result == x"},
     gen=lambda rng: {"k": rng.randint(2, 4), "x": rng.randint(1, 5)}, build=lambda d: {"self": M.OScaler(d["k"]), "x": d["x"]})
case(O + "OScaler.__init__", params={"self": Ref("OScaler"), "k": INT}, modifies=["self.k"], ensures={"k": "self.k == k"}, canaries={"z": "self.k == 0"},
     gen=lambda rng: {"k": rng.randint(1, 5)}, build=lambda d: {"self": M.OScaler.__new__(M.OScaler), "k": d["k"]})
case(O + "OPair.scaler", params={"self": Ref("OPair")}, returns=Ref("OScaler"), ensures={"k": "result.k == self.a", "new": "fresh(result)"},
     canaries={"b": "result.k == self.b"},
     gen=lambda rng: {"a": rng.randint(0, 20), "b": 21}, build=lambda d: {"self": M.OPair(d["a"], d["b"])},
     call=lambda fn, a: fn.func(a["self"]))
case(O + "use_cached", params={"p": Ref("OPair"), "x": INT}, returns=INT,
     ensures={"v": "result == p.a * x + p.a"}, canaries={"b": "result == p.b * x + p.b"},
     gen=lambda rng: {"a": rng.randint(0, 5), "b": 7, "x": rng.randint(0, 3)}, build=lambda d: {"p": M.OPair(d["a"], d["b"]), "x": d["x"]})
