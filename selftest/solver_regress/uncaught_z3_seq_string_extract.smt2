; Satisfiable (c = ["x","y"], r = [1,2], f(1)="x", f(2)="y", pos(1)=0, pos(2)=1) but z3 5.1.0 (default, mbqi=false, noext) and
; z3 4.8.12 answer `unsat`; the noematch configurations and cvc5 answer `unknown`, so the confirmation step sees no disagreement.
; Found by ext-C05-C10 (notes/C10.requests.md item 11) through a canary.  Trigger: Seq String (nested sequences) + seq.extract
; under quantifiers.  With PYVC_STRICT_SEQ=1 such an `unsat` counts only when a non-z3 solver confirms it.
(declare-fun c () (Seq String))
(declare-fun r () (Seq Int))
(declare-fun pos (Int) Int)
(declare-fun f (Int) String)
(assert (= (seq.len c) (seq.len r)))
(assert (forall ((i Int)) (=> (and (>= i 0) (< i (seq.len r))) (seq.contains r (seq.unit (seq.nth r i))))))
(assert (forall ((x Int)) (=> (seq.contains r (seq.unit x)) (and (>= (pos x) 0) (< (pos x) (seq.len r)) (= (seq.nth r (pos x)) x)))))
(assert (forall ((i Int)) (=> (and (>= i 0) (< i (seq.len r))) (= (seq.nth c i) (f (seq.nth r i))))))
(assert (forall ((k Int)) (let ((e (seq.extract c 1 (ite (< 1 (seq.len c)) (- (seq.len c) 1) 0)))) (=> (and (<= 0 k) (< k (seq.len c))) (or (> 1 k) (= (seq.nth c k) (seq.nth e (- k 1))))))))
(assert (let ((e (seq.extract c 1 (ite (< 1 (seq.len c)) (- (seq.len c) 1) 0))))
  (not (or (forall ((j Int)) (=> (and (>= j 0) (< j (seq.len e))) (= (seq.nth e j) (seq.nth c 0))))
           (forall ((j Int)) (=> (and (>= j 0) (< j (seq.len e))) (= (str.len (seq.nth e j)) 0)))))))
(check-sat)
