; The hypotheses are those of uncaught_z3_51_concrete_dict.smt2 (satisfiable; z3 5.1 says unsat), the goal is FALSE (last assertion = its
; negation).  z3 5.1 "proves" it; the vacuity probe (hypotheses alone are unsat for the prover, cvc5 certifies nothing) must turn the
; verdict into unknown / vacuous.
(declare-datatypes ((D 0)) (((mk (dom (Array String Bool)) (map (Array String Int)) (keys (Seq String))))))
(declare-fun p0 () D)
(declare-fun dflt () (Array String Int))
(declare-fun keypos (String) Int)
(define-fun cdom () (Array String Bool) (store (store (store ((as const (Array String Bool)) false) "c" true) "b" true) "a" true))
(define-fun cmap () (Array String Int) (store (store (store dflt "c" 2) "b" 0) "a" 3))
(assert (and (= (dom p0) cdom) (forall ((k String)) (=> (select (dom p0) k) (= (select (map p0) k) (select cmap k))))))
(assert (forall ((x String)) (=> (select (dom p0) x) (and (>= (keypos x) 0) (< (keypos x) (seq.len (keys p0))) (= (seq.nth (keys p0) (keypos x)) x)))))
(assert (forall ((i Int)) (=> (and (>= i 0) (< i (seq.len (keys p0)))) (select (dom p0) (seq.nth (keys p0) i)))))
(assert (forall ((i Int) (j Int)) (=> (and (>= i 0) (< i j) (< j (seq.len (keys p0)))) (distinct (seq.nth (keys p0) i) (seq.nth (keys p0) j)))))
(assert (= (keys p0) (seq.++ (seq.unit "c") (seq.++ (seq.unit "b") (seq.unit "a")))))
(assert (not false))
(check-sat)
