; Satisfiable (model: the empty dict), but z3 5.1.0 and z3 4.8.12 answer `unsat` with default settings
; (E-matching + seq.extract + datatype field).  z3 with smt.ematching=false answers `sat`.
; Found by selftest case dict_keys_copy (a FALSE postcondition `len(result) > 0` became provable).
(declare-datatypes ((D 0)) (((mk (dom (Array String Bool)) (keys (Seq String))))))
(declare-fun d () D)
(declare-fun out () (Seq String))
(assert (forall ((i Int)) (=> (and (>= i 0) (< i (seq.len (keys d)))) (select (dom d) (seq.nth (keys d) i)))))
(assert (= out (seq.extract (keys d) 0 (ite (< (seq.len (keys d)) 0) (+ (seq.len (keys d)) 1) (seq.len (keys d))))))
(assert (not (< 0 (seq.len out))))
(check-sat)
(get-model)
