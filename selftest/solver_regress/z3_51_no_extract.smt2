; Satisfiable (empty key list), no seq.extract, no dict_wf quantifier: z3 5.1.0 answers `unsat` (z3 4.8.12 and z3 5.1 with
; smt.ematching=false answer `sat`).  Shows that seq.extract is NOT necessary for the first bug: a datatype field of sequence
; sort + an `ite` over its length + one quantifier over positions are enough.  Caught by the confirmation step.
(declare-datatypes ((D 0)) (((mk (dom (Array String Bool)) (keys (Seq String))))))
(declare-fun d () D)
(declare-fun out () (Seq String))
(declare-fun t () (Seq String))
(define-fun hi () Int (ite (< (seq.len (keys d)) 0) (+ (seq.len (keys d)) 1) (seq.len (keys d))))
(assert (= (seq.len t) (ite (> hi 0) (ite (> hi (seq.len (keys d))) (seq.len (keys d)) hi) 0)))
(assert (forall ((i Int)) (=> (and (>= i 0) (< i (seq.len t))) (= (seq.nth t i) (seq.nth (keys d) i)))))
(assert (= out t))
(assert (not (< 0 (seq.len out))))
(check-sat)
(get-model)
