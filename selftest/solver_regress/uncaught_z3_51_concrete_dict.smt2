; Satisfiable (p0 = the concrete dict {"c": 2, "b": 0, "a": 3} with key list [c, b, a], keypos c->0, b->1, a->2) but z3 5.1.0 answers
; `unsat` (default and smt.mbqi=false; z3 4.8.12, noematch, cvc5: unknown) => NOT caught by the confirmation step.
; With Int keys instead of String keys z3 answers `sat`: the trigger is again a sequence OF STRINGS (Seq String) under the dict
; well-formedness quantifiers.  Found by selftest/fuzz.py (seed 2, f119): the `requires` of a contract that pins a dict parameter
; to a concrete value was "unsatisfiable", which made a FALSE postcondition provable.  Only PYVC_STRICT_SEQ=1 rejects it.
(declare-datatypes ((D 0)) (((mk (dom (Array String Bool)) (map (Array String Int)) (keys (Seq String))))))
(declare-fun p0 () D)
(declare-fun dflt () (Array String Int))
(declare-fun keypos (String) Int)
(define-fun cdom () (Array String Bool) (store (store (store ((as const (Array String Bool)) false) "c" true) "b" true) "a" true))
(define-fun cmap () (Array String Int) (store (store (store dflt "c" 2) "b" 0) "a" 3))
(assert (and (= (dom p0) cdom) (forall ((k String)) (=> (select (dom p0) k) (= (select (map p0) k) (select cmap k))))))
(assert (forall ((x String)) (=> (select (dom p0) x) (and (>= (keypos x) 0) (< (keypos x) (seq.len (keys p0))) (= (seq.nth (keys p0) (keypos x)) x)))))
(assert (forall ((i Int)) (=> (and (>= i 0) (< i (seq.len (keys p0)))) (select (dom p0) (seq.nth (keys p0) i)))))
(assert (forall ((i Int) (j Int)) (=> (and (>= i 0) (< i j) (< j (seq.len (keys p0)))) (distinct (seq.nth (keys p0) i) (seq.nth (keys p0) j)))))
(assert (= (keys p0) (seq.++ (seq.unit "c") (seq.++ (seq.unit "b") (seq.unit "a")))))
(check-sat)
