"""python -m selftest.fuzz [--n 300] [--seed 1] [--inputs 2] [-v] [--keep]

Differential testing of the VC generator against CPython.

A generator of random small python functions inside the supported subset writes a module `selftest/_fuzz_<seed>.py`.  For each
function and each of a few random CONCRETE inputs:
  * CPython runs the function: a value or an exception;
  * TRUE contract: `requires <every parameter> == <its concrete value>` (dict parameters also pin their key order),
    `ensures result == <CPython's value>` (resp. `raises={Exc: "True"}`): every obligation should be discharged;
  * FALSE contract: the same with a slightly wrong value / "it raises" for a function that returns / "it returns" for a function
    that raises: must NOT verify.
Verdicts per (function, input):
  ok            true contract discharged, false contract not discharged
  incomplete    some obligation of the true contract is unknown / timed out (solver weakness, not counted as a bug)
  unsupported   the engine refused the function (Unsupported / ContractMisfit): fine
  BUG-refuted   an obligation of the TRUE contract got `sat` from a solver (the engine's encoding contradicts CPython)
  BUG-unsound   the FALSE contract was discharged
  BUG-crash     the engine raised an internal exception
Exit status 1 when any BUG-* was found.  Deterministic for a given seed.
"""
from __future__ import annotations

import argparse
import copy
import importlib
import os
import random
import sys
import time
import traceback
import warnings

ROOT = os.path.dirname(os.path.dirname(os.path.abspath(__file__)))
sys.path.insert(0, ROOT)
warnings.filterwarnings("ignore")

from pyvc import api  # noqa: E402
from pyvc.api import BOOL, INT, REAL, STR, Dict, List, Opt, Set, Tuple  # noqa: E402
from pyvc.core import ContractMisfit, Unsupported  # noqa: E402
from pyvc.extract import load_function  # noqa: E402
from pyvc.solve import discharge  # noqa: E402
from pyvc.symex import Executor  # noqa: E402

TYPES = {
    "int": INT, "bool": BOOL, "str": STR, "li": List(INT), "ls": List(STR), "dsi": Dict(STR, INT), "dii": Dict(INT, INT),
    "si": Set(INT), "oi": Opt(INT), "tii": Tuple(INT, INT), "real": REAL, "tri": Tuple(REAL, INT),
}
REALS = [-1.5, -1.0, 0.0, 0.5, 1.0, 2.0, 2.5]  # binary fractions: float arithmetic on them is exact, so "floats are reals" holds
ALLOWED_EXC = ("KeyError", "IndexError", "ValueError", "ZeroDivisionError", "TypeError")
WORDS = ["", "a", "b", "ab", "ba", "abc", "x", "xy", "a-b"]


class Gen:
    """one random function; tracks the types of variables so that everything it writes is well-typed python"""

    def __init__(self, rng, name):
        self.r = rng
        self.name = name
        self.vars = {}  # name -> type tag
        self.params = []
        self.lines = []
        self.counter = 0
        self.loop_depth = 0
        self.loops = {}  # header text -> api.Loop (synthesised invariants)
        self.all_vars = {}
        self.ptags = {}

    # ---- helpers ---------------------------------------------------------------------------------------------
    def pick(self, xs):
        return xs[self.r.randrange(len(xs))]

    def fresh(self, tag, prefix="v"):
        self.counter += 1
        n = f"{prefix}{self.counter}"
        self.vars[n] = tag
        self.all_vars[n] = tag
        return n

    def of(self, tag):
        return [n for n, t in self.vars.items() if t == tag]

    def small(self):
        return self.r.randint(-4, 6)

    # ---- expressions -------------------------------------------------------------------------------------------
    def e_int(self, d=2):
        r = self.r
        vs = self.of("int")
        if d <= 0 or r.random() < 0.25:
            return self.pick(vs) if vs and r.random() < 0.7 else str(self.small())
        k = r.randrange(17)
        a = self.e_int(d - 1)
        if k == 0:
            return f"({a} + {self.e_int(d - 1)})"
        if k == 1:
            return f"({a} - {self.e_int(d - 1)})"
        if k == 2:
            return f"({a} * {r.randint(-3, 3)})"
        if k == 3:
            return f"({a} // {self.pick([2, 3, 5, -2, 7])})"
        if k == 4:
            return f"({a} % {self.pick([2, 3, 5, -3, 4])})"
        if k == 5:
            return f"abs({a})"
        if k == 6:
            return f"{self.pick(['min', 'max'])}({a}, {self.e_int(d - 1)})"
        if k == 7 and (self.of("li") or self.of("str") or self.of("dsi") or self.of("ls")):
            return f"len({self.pick(self.of('li') + self.of('str') + self.of('dsi') + self.of('ls'))})"
        if k == 8 and self.of("li"):
            return f"{self.pick(self.of('li'))}[{self.pick([0, 1, -1, -2, 2, 3])}]"
        if k == 9 and self.of("dsi"):
            dn = self.pick(self.of("dsi"))
            key = repr(self.pick(["a", "b", "c"]))
            return f"{dn}[{key}]" if r.random() < 0.4 else f"{dn}.get({key}, {self.small()})"
        if k == 10:
            return f"({a} if {self.e_bool(d - 1)} else {self.e_int(d - 1)})"
        if k == 11:
            return f"({a} {self.pick(['and', 'or'])} {self.e_int(d - 1)})"
        if k == 12 and self.of("tii"):
            return f"{self.pick(self.of('tii'))}[{self.pick([0, 1])}]"
        if k == 13 and self.of("li"):
            return f"{self.pick(['min', 'max'])}({self.pick(self.of('li'))})"
        if k == 14 and self.of("oi"):
            o = self.pick(self.of("oi"))
            return f"({o} if {o} is not None else {self.small()})" if r.random() < 0.7 else f"({o} + 1)"
        if k == 15 and self.of("dii"):
            dn = self.pick(self.of("dii"))
            return f"{dn}.get({self.e_int(0)}, {self.small()})"
        if k == 16 and self.of("real") and r.random() < 0.5:
            return f"int({self.e_real(d - 1)})"
        if k == 16:
            return f"int({self.e_bool(d - 1)})"
        return f"({a} + {self.small()})"

    def e_bool(self, d=2):
        r = self.r
        vs = self.of("bool")
        if d <= 0 or r.random() < 0.2:
            return self.pick(vs) if vs and r.random() < 0.6 else self.pick(["True", "False"])
        k = r.randrange(12)
        if k == 0:
            return f"({self.e_int(d - 1)} {self.pick(['<', '<=', '==', '!=', '>', '>='])} {self.e_int(d - 1)})"
        if k == 1:
            return f"({self.e_int(d - 1)} {self.pick(['<', '<='])} {self.e_int(d - 1)} {self.pick(['<', '<=', '=='])} {self.e_int(d - 1)})"
        if k == 2:
            return f"(not {self.e_bool(d - 1)})"
        if k == 3:
            return f"({self.e_bool(d - 1)} {self.pick(['and', 'or'])} {self.e_bool(d - 1)})"
        if k == 4 and self.of("li"):
            return f"({self.e_int(d - 1)} {self.pick(['in', 'not in'])} {self.pick(self.of('li'))})"
        if k == 5 and self.of("dsi"):
            return f"({self.e_str(0)} in {self.pick(self.of('dsi'))})"
        if k == 6 and self.of("str"):
            s = self.pick(self.of("str"))
            return f"{s}.{self.pick(['startswith', 'endswith'])}({repr(self.pick(['a', 'b', 'ab', '']))})" if r.random() < 0.5 else f"({repr(self.pick(['a', 'b', 'ab']))} in {s})"
        if k == 7 and self.of("si"):
            return f"({self.e_int(d - 1)} in {self.pick(self.of('si'))})"
        if k == 8 and self.of("oi"):
            return f"({self.pick(self.of('oi'))} is {self.pick(['', 'not '])}None)"
        if k == 9 and self.of("li"):
            return f"({self.e_list(d - 1)} == {self.e_list(d - 1)})"
        if k == 10 and self.of("str"):
            return f"({self.e_str(d - 1)} {self.pick(['==', '!=', '<'])} {self.e_str(d - 1)})"
        if k == 11:
            return f"({self.e_bool(d - 1)} ^ {self.e_bool(d - 1)})"
        if self.of("real") and r.random() < 0.5:
            return f"({self.e_real(d - 1)} {self.pick(['<', '<=', '==', '!=', '>'])} {self.pick([self.e_real(d - 1), self.e_int(d - 1)])})"
        if self.of("tri") and r.random() < 0.5:
            return f"({self.pick(self.of('tri'))} == ({self.e_int(d - 1)}, {self.e_int(d - 1)}))"
        return f"({self.e_int(d - 1)} < {self.e_int(d - 1)})"

    def e_str(self, d=2):
        r = self.r
        vs = self.of("str")
        if d <= 0 or r.random() < 0.3:
            return self.pick(vs) if vs and r.random() < 0.7 else repr(self.pick(WORDS))
        k = r.randrange(8)
        a = self.e_str(d - 1)
        if k == 0:
            return f"({a} + {self.e_str(d - 1)})"
        if k == 1:
            lo, hi = self.pick(["", "0", "1", "-1", "-2"]), self.pick(["", "1", "2", "-1", "5"])
            return f"{a}[{lo}:{hi}]"
        if k == 2:
            return f"('%s-%d' % ({a}, {self.e_int(d - 1)}))"
        if k == 3:
            return f"'{{}}:{{}}'.format({a}, {self.e_int(d - 1)})"
        if k == 4:
            return f"str({self.e_int(d - 1)})"
        if k == 5:
            return f"({a} if {self.e_bool(d - 1)} else {self.e_str(d - 1)})"
        if k == 6 and self.of("ls"):
            return f"{self.pick(self.of('ls'))}[{self.pick([0, -1, 1])}]"
        if k == 7:
            return f"({a} {self.pick(['and', 'or'])} {self.e_str(d - 1)})"
        return a

    def e_list(self, d=2):
        r = self.r
        vs = self.of("li")
        if d <= 0 or r.random() < 0.3:
            if vs and r.random() < 0.6:
                return self.pick(vs)
            return "[" + ", ".join(self.e_int(0) for _ in range(r.randint(0, 3))) + "]"
        k = r.randrange(7)
        a = self.e_list(d - 1)
        if k == 0:
            return f"({a} + {self.e_list(d - 1)})"
        if k == 1:
            lo, hi = self.pick(["", "0", "1", "-1", "-2"]), self.pick(["", "1", "2", "-1", "5"])
            return f"{a}[{lo}:{hi}]"
        if k == 2:
            return f"sorted({a})"
        if k == 3:
            return f"[{self.e_int(d - 1)}, {self.e_int(d - 1)}]"
        if k == 4 and vs:
            return f"[(w + {self.small()}) for w in {self.pick(vs)}]"
        if k == 5 and vs:
            return f"[w for w in {self.pick(vs)} if w {self.pick(['>', '<', '!='])} {self.small()}]"
        if k == 6 and self.of("dii"):
            return f"list({self.pick(self.of('dii'))}.{self.pick(['keys', 'values'])}())"
        if k == 6:
            return f"({a} * {r.randint(0, 2)})"
        return a

    def e_real(self, d=2):
        r = self.r
        vs = self.of("real")
        if d <= 0 or r.random() < 0.3:
            return self.pick(vs) if vs and r.random() < 0.7 else repr(self.pick(REALS))
        k = r.randrange(7)
        a = self.e_real(d - 1)
        if k == 0:
            return f"({a} + {self.e_real(d - 1)})"
        if k == 1:
            return f"({a} - {self.e_int(d - 1)})"
        if k == 2:
            return f"({a} * {r.randint(-2, 3)})"
        if k == 3:
            return f"({a} / {self.pick([2, 4, -2])})"
        if k == 4:
            return f"({self.e_int(d - 1)} / {self.pick([2, 4])})"
        if k == 5:
            return f"({a} if {self.e_bool(d - 1)} else {self.e_real(d - 1)})"
        return f"abs({a})"

    def expr(self, tag, d=2):
        r = self.r
        if tag == "real":
            return self.e_real(d)
        if tag == "tri":
            vs_ = self.of("tri")
            return self.pick(vs_) if vs_ and r.random() < 0.4 else f"({self.e_real(d - 1)}, {self.e_int(d - 1)})"
        if tag == "int":
            return self.e_int(d)
        if tag == "bool":
            return self.e_bool(d)
        if tag == "str":
            return self.e_str(d)
        if tag == "li":
            return self.e_list(d)
        vs = self.of(tag)
        if tag == "ls":
            return self.pick(vs) if vs and r.random() < 0.6 else "[" + ", ".join(self.e_str(0) for _ in range(r.randint(0, 3))) + "]"
        if tag == "tii":
            return self.pick(vs) if vs and r.random() < 0.4 else f"({self.e_int(d - 1)}, {self.e_int(d - 1)})"
        if tag == "oi":
            if vs and r.random() < 0.4:
                return self.pick(vs)
            if self.of("dsi") and r.random() < 0.3:
                return f"{self.pick(self.of('dsi'))}.get({repr(self.pick(['a', 'b', 'z']))})"
            return "None" if r.random() < 0.3 else self.e_int(d - 1)
        if tag == "si":
            k = r.randrange(5)
            if k == 0 and vs:
                return self.pick(vs)
            if k == 1 and vs:
                return f"({self.pick(vs)} {self.pick(['|', '&', '-'])} {self.expr('si', 0)})"
            if k == 2 and self.of("li"):
                return f"set({self.pick(self.of('li'))})"
            if k == 3 and self.of("li"):
                return f"{{(w % 3) for w in {self.pick(self.of('li'))}}}"
            return "{" + ", ".join(str(self.small()) for _ in range(r.randint(1, 3))) + "}"
        if tag == "dsi":
            k = r.randrange(4)
            if k == 0 and vs:
                return self.pick(vs)
            if k == 1 and vs:
                return f"{{**{self.pick(vs)}, {repr(self.pick(['a', 'b', 'z']))}: {self.e_int(d - 1)}}}"
            if k == 2 and self.of("ls"):
                return f"{{w: len(w) for w in {self.pick(self.of('ls'))}}}"
            return "{" + ", ".join(f"{repr(k_)}: {self.small()}" for k_ in self.r.sample(["a", "b", "c"], r.randint(0, 2))) + "}"
        if tag == "dii":
            k = r.randrange(4)
            if k == 0 and vs:
                return self.pick(vs)
            if k == 1 and self.of("li"):
                return f"{{(w % 3): w for w in {self.pick(self.of('li'))}}}"
            if k == 2 and vs:
                return f"{{(k_ + 1): v_ for k_, v_ in {self.pick(vs)}.items()}}"
            return "{" + ", ".join(f"{k_}: {self.small()}" for k_ in self.r.sample(range(4), r.randint(0, 2))) + "}"
        raise AssertionError(tag)

    # ---- statements --------------------------------------------------------------------------------------------------
    def emit(self, ind, s):
        self.lines.append("    " * ind + s)

    def stmt(self, ind, budget):
        r = self.r
        k = r.randrange(16)
        if k <= 2:
            tag = self.pick(list(TYPES))
            e = self.expr(tag)
            n = self.pick(self.of(tag)) if self.of(tag) and r.random() < 0.4 and not (self.loop_depth and tag in ("li", "ls", "dsi", "dii", "si")) else self.fresh(tag)
            self.emit(ind, f"{n} = {e}")
        elif k == 3 and self.of("int"):
            self.emit(ind, f"{self.pick(self.of('int'))} {self.pick(['+=', '-=', '*='])} {self.e_int(1)}")
        elif k == 4 and self.of("li"):
            xs = self.pick(self.of("li"))
            m = r.randrange(6)
            if m == 0:
                self.emit(ind, f"{xs}.append({self.e_int(1)})")
            elif m == 1:
                self.emit(ind, f"{xs}.extend({self.e_list(1)})")
            elif m == 2:
                self.emit(ind, f"{xs}.insert({self.pick([0, 1, -1, 5])}, {self.e_int(1)})")
            elif m == 3:
                n = self.fresh("int")
                self.emit(ind, f"{n} = {xs}.pop()")
            elif m == 4:
                self.emit(ind, f"del {xs}[{self.pick([0, -1, 1])}]")
            else:
                self.emit(ind, f"{xs}[{self.pick([0, -1, 1])}] = {self.e_int(1)}")
        elif k == 5 and self.of("dsi"):
            dn = self.pick(self.of("dsi"))
            key = repr(self.pick(["a", "b", "c", "z"]))
            m = r.randrange(5)
            if m == 0:
                self.emit(ind, f"{dn}[{key}] = {self.e_int(1)}")
            elif m == 1:
                self.emit(ind, f"del {dn}[{key}]")
            elif m == 2:
                n = self.fresh("int")
                self.emit(ind, f"{n} = {dn}.pop({key}, {self.small()})")
            elif m == 3:
                n = self.fresh("int")
                self.emit(ind, f"{n} = {dn}.setdefault({key}, {self.small()})")
            else:
                self.emit(ind, f"{dn}.update({self.expr('dsi', 0)})")
        elif k == 6 and self.of("si"):
            sn = self.pick(self.of("si"))
            m = r.randrange(4)
            self.emit(ind, [f"{sn}.add({self.e_int(1)})", f"{sn}.discard({self.e_int(1)})", f"{sn}.update({self.expr('si', 0)})", f"{sn} |= {self.expr('si', 0)}"][m])
        elif k == 7 and budget > 1:
            self.emit(ind, f"if {self.e_bool()}:")
            self.block(ind + 1, budget - 1)
            if r.random() < 0.5:
                if r.random() < 0.3:
                    self.emit(ind, f"elif {self.e_bool()}:")
                    self.block(ind + 1, budget - 1)
                self.emit(ind, "else:")
                self.block(ind + 1, budget - 1)
        elif k == 8 and budget > 1 and self.loop_depth == 0:
            # loops over concrete-length iterables are unrolled by the engine
            w = self.fresh("int", "w")
            it = self.pick([f"range({r.randint(0, 3)})", "[" + ", ".join(str(self.small()) for _ in range(r.randint(0, 3))) + "]", f"range({r.randint(-1, 1)}, {r.randint(1, 4)})",
                            "(" + ", ".join(str(self.small()) for _ in range(r.randint(1, 3))) + ",)"])
            self.emit(ind, f"for {w} in {it}:")
            self.loop_depth += 1
            saved = dict(self.vars)
            self.block(ind + 1, budget - 1, in_loop=True)
            for n in list(self.vars):
                if n not in saved:
                    del self.vars[n]  # defined only inside the loop body: may be unbound afterwards
            self.vars.pop(w, None)
            self.loop_depth -= 1
        elif k == 9 and budget > 1 and self.loop_depth == 0 and self.of("li") and self.of("int"):
            # a loop over a SYMBOLIC list with a synthesised invariant: counting
            xs = self.pick([p for p in self.params if self.vars.get(p) == "li"] or [None])
            if xs is not None and not any(f".append" in l_ and xs in l_ for l_ in self.lines):
                n = self.fresh("int", "cnt")
                w = self.fresh("int", "w")
                step = r.randint(1, 3)
                self.emit(ind, f"{n} = 0")
                self.emit(ind, f"for {w} in {xs}:")
                self.emit(ind + 1, f"{n} += {step}")
                self.loops[f"for {w} in {xs}"] = api.Loop(index=f"ix{self.counter}", invariants={"cnt": f"{n} == {step} * ix{self.counter}"})
                self.vars.pop(w, None)
                self.frozen = getattr(self, "frozen", set()) | {xs}
        elif k == 10 and budget > 1:
            self.emit(ind, "try:")
            self.block(ind + 1, budget - 1, risky=True)
            self.emit(ind, f"except {self.pick(['KeyError', 'IndexError', '(KeyError, IndexError)'])}:")
            self.block(ind + 1, budget - 1)
        elif k == 11:
            self.emit(ind, f"if {self.e_bool(1)}:")
            self.emit(ind + 1, f"raise ValueError({repr(self.pick(WORDS))})")
        elif k == 12 and ind > 1 and r.random() < 0.5:
            self.emit(ind, f"return {self.expr(self.ret)}")
            return True
        elif k == 13 and self.loop_depth and r.random() < 0.6:
            self.emit(ind, self.pick(["break", "continue"]))
            return True
        elif k == 14 and self.of("ls"):
            ls = self.pick(self.of("ls"))
            self.emit(ind, f"{ls}.append({self.e_str(1)})")
        elif k == 14 and self.of("tii"):
            a_, b_ = self.fresh("int"), self.fresh("int")
            self.emit(ind, f"{a_}, {b_} = {self.pick([v for v in self.of('tii')])}")
        elif k == 15 and self.of("ls"):
            e = f"{repr(self.pick(['-', '', ', ']))}.join({self.pick(self.of('ls'))})"
            self.emit(ind, f"{self.fresh('str')} = {e}")
        else:
            tag = self.pick(["int", "bool", "str"])
            e = self.expr(tag)
            self.emit(ind, f"{self.fresh(tag)} = {e}")
        return False

    def block(self, ind, budget, in_loop=False, risky=False):
        n = self.r.randint(1, 3)
        saved = set(self.vars)
        for _ in range(n):
            if self.stmt(ind, budget):
                break
        # variables first bound inside a conditional block may be unbound afterwards
        if ind > 1:
            for v in list(self.vars):
                if v not in saved:
                    del self.vars[v]

    def function(self):
        r = self.r
        tags = [self.pick(list(TYPES)) for _ in range(r.randint(1, 3))]
        for i, t in enumerate(tags):
            p = f"p{i}"
            self.params.append(p)
            self.vars[p] = t
            self.ptags[p] = t
        self.ret = self.pick(list(TYPES))
        self.emit(0, f"def {self.name}({', '.join(self.params)}):")
        for _ in range(r.randint(2, 7)):
            if self.stmt(1, 3):
                break
        self.emit(1, f"return {self.expr(self.ret)}")
        return "\n".join(self.lines) + "\n"


def rand_value(rng, tag):
    if tag == "int":
        return rng.randint(-5, 7)
    if tag == "bool":
        return rng.random() < 0.5
    if tag == "str":
        return rng.choice(WORDS)
    if tag == "li":
        return [rng.randint(-3, 5) for _ in range(rng.randint(0, 4))]
    if tag == "ls":
        return [rng.choice(WORDS[1:]) for _ in range(rng.randint(0, 3))]
    if tag == "dsi":
        return {k: rng.randint(-2, 4) for k in rng.sample(["a", "b", "c"], rng.randint(0, 3))}
    if tag == "dii":
        return {k: rng.randint(-2, 4) for k in rng.sample(range(-1, 4), rng.randint(0, 3))}
    if tag == "si":
        return set(rng.sample(range(-2, 5), rng.randint(0, 3)))
    if tag == "oi":
        return None if rng.random() < 0.35 else rng.randint(-3, 4)
    if tag == "tii":
        return (rng.randint(-3, 4), rng.randint(-3, 4))
    if tag == "real":
        return rng.choice(REALS)
    if tag == "tri":
        return (rng.choice(REALS), rng.randint(-2, 3))
    raise AssertionError(tag)


def lit(v):
    if isinstance(v, set) and not v:
        return "set()"
    return repr(v)


def value_clauses(v, what="result"):
    """clauses saying `what` is exactly the python value v (dicts: content AND insertion order)"""
    if v is None:
        return [f"{what} is None"]
    cl = [f"{what} == {lit(v)}"]
    if isinstance(v, dict):
        cl.append(f"list({what}) == {lit(list(v))}")
    return cl


def mutate_value(rng, v):
    """a value of the same type that differs from v"""
    if v is None:
        return 0
    if isinstance(v, bool):
        return not v
    if isinstance(v, int):
        return v + rng.choice([1, -1, 2])
    if isinstance(v, float):
        return v + rng.choice([0.5, -1.0, 1.0])
    if isinstance(v, str):
        return v + "x" if rng.random() < 0.5 or not v else v[:-1]
    if isinstance(v, list):
        if v and rng.random() < 0.5:
            w = list(v)
            i = rng.randrange(len(w))
            w[i] = mutate_value(rng, w[i])
            return w
        return v + [v[0] if v else 0] if rng.random() < 0.5 or not v else v[:-1]
    if isinstance(v, tuple):
        w = list(v)
        i = rng.randrange(len(w))
        w[i] = mutate_value(rng, w[i])
        return tuple(w)
    if isinstance(v, set):
        w = set(v)
        if w and rng.random() < 0.5:
            w.discard(next(iter(sorted(w))))
        else:
            w.add(max(w, default=0) + 1)
        return w
    if isinstance(v, dict):
        w = dict(v)
        if w and rng.random() < 0.4:
            k = rng.choice(list(w))
            w[k] = mutate_value(rng, w[k])
        elif len(w) >= 2 and rng.random() < 0.4:
            ks = list(w)
            ks[0], ks[-1] = ks[-1], ks[0]  # same content, different insertion order
            w = {k: v[k] for k in ks}
        else:
            w["zz" if (not w or isinstance(next(iter(w)), str)) else 99] = 0
        return w
    raise AssertionError(type(v))


def contracts_for(target, g: Gen, args, outcome, rng):
    """-> (true contract, false contract) as FnContract objects (not registered)"""
    params = {p: TYPES[g.vars_at_entry[p]] for p in g.params}
    requires = []
    for p in g.params:
        requires += value_clauses(args[p], p)
    locals_ = {n: TYPES[t] for n, t in g.all_vars.items() if n not in g.params}
    base = dict(target=target, props=["FUZZ"], comp_positions=True, sorted_axioms=True, params=params, returns=TYPES[g.ret], requires=requires, locals=locals_, loops=dict(g.loops),
                modifies=[p for p in g.params if g.vars_at_entry[p] in ("li", "ls", "dsi", "dii", "si")])
    kind, val = outcome
    if kind == "value":
        true = api.FnContract(**base, ensures={f"v{i}": c for i, c in enumerate(value_clauses(val))})
        if rng.random() < 0.2:
            false = api.FnContract(**base, raises={"ValueError": "True"})
        else:
            wrong = mutate_value(rng, val)
            cl = value_clauses(wrong)
            if isinstance(val, dict) and dict(wrong) == dict(val):
                cl = cl[1:]  # only the order differs: the order clause alone must fail
            false = api.FnContract(**base, ensures={"wrong": " and ".join(f"({c})" for c in cl)})
    else:
        true = api.FnContract(**base, raises={val: "True"})
        other = [e for e in ALLOWED_EXC if e != val]
        false = api.FnContract(**base, raises={rng.choice(other): "True"}) if rng.random() < 0.5 else api.FnContract(**base, ensures={"any": "True"})
    return true, false


def run_cpython(fn, args):
    try:
        return ("value", fn(**copy.deepcopy(args)))
    except Exception as e:  # noqa
        return ("raise", type(e).__name__)


_OPAQUE = ("sorted_", "sortedby", "fmt_", "str_", "card_", "reversed_", "spec_int_hex", "elems_")


def _underspecified(path):
    try:
        with open(path) as f:
            txt = f.read()
    except OSError:
        return False
    return any(tok in txt for tok in _OPAQUE)


def second_opinions(results):
    """An `unsat` that makes a FALSE claim provable: engine bug or solver bug?  Every deciding file is re-run on the other
    solver families.  BUG-unsound: cvc5 (a different code base) agrees on every file.  solver-disagree: somebody answers `sat`.
    solver-suspect: only z3 says unsat and nobody contradicts it (z3 is known to answer unsat wrongly on such files)."""
    from pyvc.solve import _no_cvc5, run_solver

    verdicts = []
    for r in results:
        answers = {}
        for cfg in ("cvc5", "z3-5.1/noematch", "z3-4.8", "z3-5.1"):
            if cfg == r.solver or (cfg == "cvc5" and r.smt_file in _no_cvc5):
                continue
            answers[cfg] = run_solver(cfg, r.smt_file, 5.0)[0]
        if "sat" in answers.values():
            verdicts.append("solver-disagree")
        elif answers.get("cvc5") == "unsat" or r.solver == "cvc5":
            verdicts.append("BUG-unsound")
        else:
            verdicts.append("solver-suspect")
    for v in ("solver-disagree", "solver-suspect"):
        if v in verdicts:
            return v
    return "BUG-unsound"


def gen_obs(c):
    ex = Executor(c, load_function(c.target))
    ex.label_prefix = "FZ."
    ex.fn_name = c.target.split(":")[1]
    return ex.run()


def main(argv=None):
    ap = argparse.ArgumentParser()
    ap.add_argument("--n", type=int, default=300)
    ap.add_argument("--seed", type=int, default=1)
    ap.add_argument("--inputs", type=int, default=2)
    ap.add_argument("-v", action="store_true")
    ap.add_argument("--keep", action="store_true")
    a = ap.parse_args(argv)
    res = run(a.n, a.seed, a.inputs, a.v, a.keep)
    return 1 if res["bugs"] else 0


def run(n, seed, n_inputs=2, verbose=False, keep=False, jobs=16, timeout=3.0, out=print):
    t0 = time.time()
    rng = random.Random(seed)
    modname = f"_fuzz_{seed}_{n}"
    path = os.path.join(ROOT, "selftest", modname + ".py")
    gens = []
    src = ['"""generated by selftest/fuzz.py (seed %d) - do not edit"""' % seed]
    for k in range(n):
        g = Gen(random.Random(rng.getrandbits(64)), f"f{k}")
        text = None
        try:
            # the parameter tags are fixed before the body is generated
            text = g.function()
            compile(text, "<fuzz>", "exec")
        except Exception:  # noqa
            continue
        gens.append((g, text))
        src.append(text)
    with open(path, "w") as f:
        f.write("\n\n".join(src))
    importlib.invalidate_caches()
    mod = importlib.import_module("selftest." + modname)
    items = []  # one per (program, input): dict
    skipped = {}
    irng = random.Random(seed * 7919 + 13)
    for g, text in gens:
        fn = getattr(mod, g.name)
        for _ in range(n_inputs):
            args = {p: rand_value(irng, g.ptags[p]) for p in g.params}
            outcome = run_cpython(fn, args)
            if outcome[0] == "raise" and outcome[1] not in ALLOWED_EXC:
                skipped[outcome[1]] = skipped.get(outcome[1], 0) + 1
                continue  # a generator slip (NameError, AttributeError ..): not a program of the subset
            items.append({"g": g, "text": text, "args": args, "outcome": outcome})
    # obligations
    all_obs, verdict = [], {}
    for idx, it in enumerate(items):
        g = it["g"]
        g.vars_at_entry = g.ptags
        try:
            true, false = contracts_for(f"selftest.{modname}:{g.name}", g, it["args"], it["outcome"], irng)
        except Exception:  # noqa
            verdict[idx] = ("skip", traceback.format_exc()[-300:])
            continue
        it["true"], it["false"] = true, false
        try:
            for which, c in (("T", true), ("F", false)):
                for o in gen_obs(c):
                    o.name = f"{o.name}~{idx}{which}{len(all_obs)}"
                    all_obs.append((idx, which, o))
        except (Unsupported, ContractMisfit) as e:
            verdict[idx] = ("unsupported", f"{type(e).__name__}: {e}")
            all_obs = [x for x in all_obs if x[0] != idx]
        except RecursionError:
            verdict[idx] = ("unsupported", "recursion limit")
            all_obs = [x for x in all_obs if x[0] != idx]
        except Exception as e:  # noqa
            verdict[idx] = ("BUG-crash", f"{type(e).__name__}: {e} @ {traceback.format_exc().strip().splitlines()[-3].strip()}")
            all_obs = [x for x in all_obs if x[0] != idx]
    outdir = os.path.join(os.environ.get("VERIF_OUT", os.path.join(ROOT, "out")), f"FUZZ_{seed}_{n}", "smt")
    if os.path.isdir(outdir):
        for f in os.listdir(outdir):
            os.unlink(os.path.join(outdir, f))
    results = discharge([o for _, _, o in all_obs], outdir, timeout=timeout, jobs=jobs, rounds=[timeout], portfolio=("z3-5.1", "z3-4.8", "cvc5"), confirm_unsat=os.environ.get("FUZZ_CONFIRM", "0") == "1")
    per = {}
    for (idx, which, o), r in zip(all_obs, results):
        per.setdefault(idx, {"T": [], "F": []})[which].append(r)
    n_clauses = 0
    for idx, it in enumerate(items):
        if idx in verdict:
            continue
        rs = per.get(idx, {"T": [], "F": []})
        real_t = [r for r in rs["T"] if not r.expect_fail]
        real_f = [r for r in rs["F"] if not r.expect_fail]
        n_clauses += len(real_t) + len(real_f)
        # TRUE contract
        refuted = [r for r in real_t if r.status == "refuted"]
        open_ = [r for r in real_t if r.status not in ("proved", "refuted")]
        # FALSE contract: unsound iff EVERY obligation is discharged (then the false claim is "verified")
        false_verified = bool(real_f) and all(r.status == "proved" for r in real_f)
        # a vacuous path condition (requires unsatisfiable in the encoding) shows as the cover guard being proved
        covers = [r for r in rs["T"] if r.expect_fail and r.kind == "cover"]
        vacuous = any(r.status == "proved" for r in covers)
        if false_verified or vacuous:
            what = "the requires clauses are unsatisfiable in the encoding" if vacuous else "the FALSE contract was discharged: " + str(it["false"].ensures or it["false"].raises)
            deciders = [r for r in covers if r.status == "proved"] if vacuous else real_f
            verdict[idx] = (second_opinions(deciders), what)
        elif refuted and all(_underspecified(r.smt_file) or (".post.v1@" in r.name and isinstance(it["outcome"][1], dict)) for r in refuted):
            # (.post.v1 of a dict result is the insertion-ORDER clause: the engine does not model the key order of dicts built
            # by comprehensions / update / pop, only that the key list enumerates the domain)
            # the result goes through a function the engine deliberately leaves uninterpreted (sorted without a multiset
            # axiom, str.upper, "%03d", card ..): `sat` is expected there, it is not an encoding error
            verdict[idx] = ("underspecified", refuted[0].name.split("~")[0])
        elif refuted:
            verdict[idx] = ("BUG-refuted", refuted[0].name.split("~")[0] + " got sat from " + str(refuted[0].solver))
        elif open_:
            verdict[idx] = ("incomplete", open_[0].name.split("~")[0] + " " + open_[0].status)
        else:
            verdict[idx] = ("ok", "")
    counts = {}
    for v, _ in verdict.values():
        counts[v] = counts.get(v, 0) + 1
    bugs = [(idx, v, msg) for idx, (v, msg) in sorted(verdict.items()) if v.startswith("BUG")]
    for idx, (v, msg) in sorted(verdict.items()):
        if v.startswith("solver-"):
            it = items[idx]
            out(f"{v}: {it['g'].name} args={it['args']} cpython={it['outcome']}: {msg}  [only a solver says unsat; see docs: known solver unsoundness]")
    for idx, v, msg in bugs[:40] if not verbose else bugs:
        it = items[idx]
        out(f"{v}: {it['g'].name} args={it['args']} cpython={it['outcome']}: {msg}")
        out("    " + it["text"].replace("\n", "\n    "))
    if verbose:
        for idx, (v, msg) in sorted(verdict.items()):
            if v in ("incomplete", "unsupported"):
                out(f"{v}: {items[idx]['g'].name}: {msg[:160]}")
    out(f"fuzz seed={seed}: programs={len(gens)} inputs={len(items)} obligations={n_clauses} " + " ".join(f"{k}={v}" for k, v in sorted(counts.items())) + f" skipped-inputs={sum(skipped.values())}{skipped if verbose else ''}  ({time.time() - t0:.0f}s)")
    if not keep and not bugs:
        try:
            os.unlink(path)
        except OSError:
            pass
    return {"bugs": bugs, "counts": counts, "programs": len(gens), "inputs": len(items), "clauses": n_clauses, "items": items, "verdict": verdict, "module": path}


if __name__ == "__main__":
    sys.exit(main())
