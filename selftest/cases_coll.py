"""dict views as iterables, comprehensions over sequences, dict merging, bool operators, any/all, conditional functions."""
import itertools


def keys_set(d):
    return set(d.keys())


def keys_inter(s, d):
    return s.intersection(d.keys())


def keys_diff_update(s, d):
    s.difference_update(d.keys())
    return s


def values_list(d):
    return list(d.values())


def keys_list(d):
    return list(d.keys())


def len_views(d):
    return len(d.keys()) + len(d.values()) + len(d.items())


def in_keys(d, k):
    if k in d.keys():
        return 1
    return 0


def in_values(d, v):
    return v in d.values()


def view_truth(d):
    if d.keys():
        return 1
    return 0


def set_of_list(xs):
    return set(xs)


def has(xs, x):
    return x in xs


def names_of(xs):
    return {x + 1 for x in xs}


def evens(xs):
    return {x for x in xs if x % 2 == 0}


def index_by_name(xs):
    return {x: 1 for x in xs if x > 0}


def square_map(xs):
    return {x: x * x for x in xs}


def rekey(d):
    return {k + 1: v for k, v in d.items()}


def rekey_collide(d):
    # computed key that is NOT injective: later entries overwrite earlier ones
    return {k // 2: v for k, v in d.items()}


def last_wins(xs):
    return {x % 3: x for x in xs}


def empty_lists(xs):
    out = {x: [] for x in xs}
    return out


def merge(a, b):
    return {**a, **b}


def merge3(a, b, k, v):
    return {**a, k: v, **b}


def xor(a, b):
    return a ^ b


def and_or(a, b):
    return (a & b) | (a ^ b)


def any_tuple(t):
    return any(t)


def all_list(xs):
    return all(xs)


def any_sets(t):
    if any(t):
        return 1
    return 0


def rnd_up(x):
    return x + 1


def rnd_id(x):
    return x


def choose(flag, x):
    f = rnd_up if flag else rnd_id
    return f(x)


def choose_same(flag, x):
    f = rnd_up if flag else rnd_up
    return f(x)


def del_at(xs, i):
    del xs[i]
    return xs


def insert_at(xs, i, x):
    xs.insert(i, x)
    return xs


def count_down(n):
    out = []
    for i in range(n - 1, -1, -1):
        out.append(i)
    return out


def sort_list(xs):
    return sorted(xs)


def sort_set(s):
    return sorted(s)


def sort_desc(xs):
    return sorted(xs, reverse=True)


def sort_by_key(ps):
    return sorted(ps, key=lambda p: p[1])


def sort_inplace(xs):
    xs.sort()
    return xs


def smallest(xs):
    return sorted(xs)[0]


def sort_dict(d):
    return sorted(d)


def gen_evens(xs):
    for x in xs:
        if x % 2 == 0:
            yield x


def gen_pairs(a, b):
    yield a
    yield from b
    yield a + 1


def use_gen(xs):
    n = 0
    for e in gen_evens(xs):
        n += 1
    return n


def gen_to_set(xs):
    return {e + 1 for e in gen_evens(xs)}


def gen_to_list(xs):
    return list(gen_evens(xs))


def extend_lazy(xs, src):
    xs.extend(g for g in src if g not in xs)
    return xs


def extend_lazy_other(xs, src):
    # a lazily evaluated generator reading the list it extends, NOT of the de-duplicating form: refused
    xs.extend(g + len(xs) for g in src)
    return xs


def or_empty(langs):
    n = 0
    for l in langs or ("dflt",):
        n += 1
    return n


def unroll_many(d):
    n = 0
    for k in ("a", "b", "c", "d", "e", "f", "g", "h", "i", "j"):
        if k not in d:
            continue
        if d[k] == 0:
            continue
        n += 1
    return n


def remove_then_len(xs, x):
    xs.remove(x)
    return len(xs)


def filtered_lookup(ds, k):
    return [d[k] for d in ds if k in d]


def is_big(x):
    return x > 10


def any_big(xs):
    return any(is_big(x) for x in xs)


def bigs(xs):
    return [x for x in xs if is_big(x)]


def names_update(seen, xs):
    seen.update(x + 1 for x in xs if x > 0)
    return seen


def replace_all(xs, ys):
    xs[:] = ys
    return len(xs)


def keep_pos(xs):
    return [x for x in xs if x > 0]


def version_string(major, minor):
    return "%d.%03d" % (major, minor)


def head2(t):
    a, b = t[0:2]
    return a + b


def max_or_zero(xs):
    return max((x + 1 for x in xs), default=0)


def full_name(a, b):
    return "{}-{}".format(a, b)


def padded(n):
    return str(n).zfill(3)


def add3(a, b, c):
    return a + b + c


def star_tuple(t):
    return add3(1, *t)


def neighbour_colors(adj, colors):
    return {colors[n] for n in adj if n in colors}


def starts_alpha(key):
    if key[0].isalpha():
        return 1
    return 0


def ignorable(key):
    flag = key and not key[0].isalpha()
    if flag:
        return 1
    return 0


def busy_names(glyph_sets):
    return {name for gs in glyph_sets for name, n in gs.items() if n > 0}


def pairs_flat(rows):
    return [x + 1 for row in (rows, rows) for x in row]


def cross(xs, ys):
    return {x + y for x in xs for y in ys if y != x}


def sub_location(loc, dflt):
    items = dflt.items()
    return loc.items() <= items


def extra_keys(d, s):
    return d.keys() - s


def common_keys(a, b):
    return a.keys() & b.keys()


def same_keys(a, b):
    return a.keys() == b.keys()


def all_names(glyph_sets):
    return set.union(*[set(gs.keys()) for gs in glyph_sets])


def star_known(xs):
    return add3(*xs)


def build_trace(xs):
    out = []
    for x in xs:
        out.append(x + 1)
    out = [0] + out
    return out


def side_key(is_class, side):
    if isinstance(side, tuple):
        return len(side) + (1 if is_class else 0)
    return 0


def pair_lt(a_cls, a_side, b_cls, b_side):
    return (a_cls, a_side) < (b_cls, b_side)


def lex_lt(a, b):
    return a < b


def as_tuple(xs):
    t = tuple(x for x in xs)
    return t


def count_distinct(xs):
    return len(set(xs))


def is_single(s):
    return len(s) == 0


def rename_keys(d, m):
    return {m.get(k, k): v for k, v in d.items()}


def strip_num(name, number):
    key = name.rstrip(number)
    return key


def store_none(d, k, x):
    b = x
    if b is not None:
        b = b + 1
    d[k] = b
    return 0


def neg_div(x):
    return (x // -3, x % -3, x // 4, x % 4)


def glue(a, b, x):
    return (*a, x, *b)


def first_of(t):
    return next(iter(t))


def extend_dedupe(xs, src):
    # round 4: the generator is consumed LAZILY -- `g not in out` sees what this very call appended so far
    out = list(xs)
    out.extend(g for g in src if g not in out)
    return out


def extend_dedupe_small(a, b):
    out = []
    out.extend(g for g in (a, b, a) if g not in out)
    return out


def only_member(groups, k):
    # round 4 (C05 #16): `(x,) = S` for a set S
    (g,) = groups[k]
    return g


def product_count(xs, ys):
    # round 4 (C05 #16): itertools.product consumed by a `for`
    n = 0
    for a, b in itertools.product(xs, ys):
        if a >= 0 and b >= 0:
            n += 1
    return n


def product_all(xs, ys):
    return all(a + b >= 0 for a, b in itertools.product(xs, ys))


def product_small(x, y):
    return [a * 10 + b for a, b in itertools.product((x, 2), (y, 4))]


def sorted_items_tuple_keys(d):
    # round 4 (C05 #16): sorted(d.items()) for a dict keyed by tuples of strings -- the items ordered by key
    out = []
    for k, v in sorted(d.items()):
        out.append(k)
    return out


def extend_views(d, xs):
    # round 4: list.extend of a dict view; a `for` over a generator expression; de-duplicating extend from a values view
    out = list(xs)
    out.extend(d.values())
    n = 0
    for v in (x + 1 for x in xs):
        n += v
    seen = []
    seen.extend(v for v in d.values() if v not in seen)
    return out, n, seen


def invert_classes(classes):
    # round 4 (C10): {glyph: class for class, glyphs in classes.items() for glyph in glyphs} over a symbolic dict
    return {g: n for n, glyphs in classes.items() for g in glyphs}


def singleton_len(x):
    s = {x}
    return len(s)


def all_same_len(s, x):
    return len(s)


def repeat_none(xs):
    # round 4: `[c] * n` with a symbolic count
    out = [None] * len(xs)
    zeros = len(xs) * [0]
    return out, zeros
