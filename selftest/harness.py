"""Registration helper for engine self-tests.

    case("selftest.cases_basic:f", params=..., returns=..., ensures={true posts}, canaries={FALSE posts},
         gen=lambda rng: {"x": rng.randint(-3, 3)}, build=None, call=None)

* `ensures` (and every safety / invariant obligation) must be discharged;
* each entry of `canaries` is a FALSE postcondition: it must not be discharged on at least one return path, and it
  must evaluate to False natively on at least one generated input (so that the test itself is known to be a real
  negative test) unless `canary_native=False`;
* `gen(rng)` makes one JSON-able input description, `build(desc)` the keyword arguments (default: the description
  itself); the real function is run on `n` of them and every clause is evaluated natively (pyvc.rt);
* `expect="unsupported"`: the engine must refuse the function (Unsupported / ContractMisfit) — used for constructs
  that are deliberately outside the subset because supporting them as-is would be unsound;
* `must_fail=[substr]`: obligations whose name contains one of the substrings must NOT be discharged
  (e.g. a KeyError obligation that is really violated).
"""
from __future__ import annotations

from dataclasses import dataclass, field

from pyvc import api
from pyvc.api import Runtime

CASES: list = []


@dataclass
class Case:
    contract: object
    expect: str = "proved"
    must_fail: list = field(default_factory=list)
    n: int = 40
    canary_native: bool = True
    msg: str | None = None  # substring expected in the Unsupported message
    first_solver: str | None = None  # per-contract `portfolio=`: the configuration that must get the first attempt at every real obligation


def case(target, *, expect="proved", must_fail=(), gen=None, build=None, call=None, n=40, canary_native=True, msg=None, first_solver=None, **kw):
    kw.setdefault("props", ["SELFTEST"])
    if gen is not None:
        def _gen(rng, k, gen=gen):
            return [gen(rng) for _ in range(k)]

        kw["runtime"] = Runtime(_gen, build or (lambda d: dict(d)), call)
    c = api.contract(target, **kw)
    CASES.append(Case(c, expect, list(must_fail), n, canary_native, msg, first_solver))
    return c
