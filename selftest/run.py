"""python -m selftest.run [substring ...] [-v]  — engine self-tests (see selftest/harness.py).

One line per case; exit status 1 on any unexpected verdict.  A FALSE postcondition that is discharged means the
engine is unsound for that construct: reported as UNSOUND (the worst outcome).
"""
from __future__ import annotations

import copy
import importlib
import os
import pkgutil
import random
import sys
import time
import traceback
import warnings

ROOT = os.path.dirname(os.path.dirname(os.path.abspath(__file__)))
sys.path.insert(0, ROOT)
warnings.filterwarnings("ignore")

from pyvc import api, rt  # noqa: E402
from pyvc.core import ContractMisfit, Unsupported  # noqa: E402
from pyvc.extract import load_function  # noqa: E402
from pyvc.solve import discharge  # noqa: E402
from pyvc.symex import Executor  # noqa: E402


def load_cases():
    import selftest
    from selftest import harness

    for m in sorted(pkgutil.iter_modules(selftest.__path__), key=lambda m: m.name):
        if m.name.startswith("contracts_"):
            importlib.import_module("selftest." + m.name)
    return harness.CASES


def gen(c):
    src = load_function(c.target)
    ex = Executor(c, src)
    ex.label_prefix = "ST."
    ex.fn_name = c.target.split(":")[1] + ("#" + c.name if c.name else "")
    return ex.run()


def runtime(case):
    """-> (n_ok, n_skip, failures, canaries that were never false natively)"""
    c = case.contract
    if c.runtime is None:
        return 0, 0, [], []
    rng = random.Random(12345)
    descs = c.runtime.gen(rng, case.n)
    ok = skip = 0
    fails = []
    # the false posts, evaluated natively: each must be False on at least one input
    neg = copy.copy(c)
    never_false = set(c.canaries) if case.canary_native else set()
    for d in descs:
        try:
            r = rt.run_case(c, c.runtime.build(copy.deepcopy(d)), c.runtime.call)
        except Exception:  # noqa
            r = {"status": "fail", "clause": "harness", "detail": traceback.format_exc()[-400:]}
        if r["status"] == "ok":
            ok += 1
        elif r["status"] == "skip":
            skip += 1
            if r.get("detail"):
                fails.append((d, r))  # a requires clause that RAISES is a test bug
            continue
        else:
            fails.append((d, r))
        for nm in list(never_false):
            neg.ensures = {nm: c.canaries[nm]}
            neg.bounded_ensures = {}
            try:
                r2 = rt.run_case(neg, c.runtime.build(copy.deepcopy(d)), c.runtime.call)
            except Exception:  # noqa
                continue
            if r2["status"] == "fail" and "clause raised" not in str(r2.get("detail")):
                never_false.discard(nm)
    return ok, skip, fails, sorted(never_false)


def main(argv):
    verbose = "-v" in argv
    pats = [a for a in argv if not a.startswith("-")]
    t0 = time.time()
    cases = load_cases()
    if pats:
        cases = [k for k in cases if any(p in k.contract.key for p in pats)]
    all_obs = []
    gen_err = {}
    for k in cases:
        c = k.contract
        try:
            obs = gen(c)
            for o in obs:
                o.name = o.name + "~" + str(len(all_obs))  # unique file names across cases
                all_obs.append((c.key, o))
        except (Unsupported, ContractMisfit) as e:
            gen_err[c.key] = ("unsupported", f"{type(e).__name__}: {e}")
        except Exception as e:  # noqa
            gen_err[c.key] = ("crash", f"{type(e).__name__}: {e} @ {traceback.format_exc().strip().splitlines()[-3].strip()}")
            if verbose:
                traceback.print_exc()
    t_gen = time.time() - t0
    outdir = os.path.join(os.environ.get("VERIF_OUT", os.path.join(ROOT, "out")), "SELFTEST", "smt")
    if os.path.isdir(outdir) and not pats:
        for f in os.listdir(outdir):
            os.unlink(os.path.join(outdir, f))
    tmo = float(os.environ.get("SELFTEST_TIMEOUT", "10"))
    results = discharge([o for _, o in all_obs], outdir, timeout=tmo, jobs=int(os.environ.get("VERIF_JOBS", "16")), rounds=[3.0, tmo])
    by_case = {}
    for (key, o), r in zip(all_obs, results):
        by_case.setdefault(key, []).append(r)
    bad = 0
    unsound = 0
    for k in cases:
        c = k.contract
        problems = []
        rs = by_case.get(c.key, [])
        if c.key in gen_err:
            kind, msg = gen_err[c.key]
            if k.expect == "unsupported" and kind == "unsupported" and (k.msg is None or k.msg in msg):
                print(f"ok      {c.key:70s} refused as expected: {msg[:70]}")
                continue
            problems.append(f"generation {kind}: {msg}")
        elif k.expect == "unsupported":
            problems.append("the engine accepted a function it is expected to refuse")
        real = [r for r in rs if not r.expect_fail]
        guards = [r for r in rs if r.expect_fail]
        n_proved = 0
        for r in real:
            want_fail = any(s in r.name for s in k.must_fail)
            if want_fail:
                if r.status == "proved":
                    problems.append(f"UNSOUND: {r.name} was discharged but must fail")
                    unsound += 1
            elif r.status != "proved":
                problems.append(f"not discharged: {r.name} ({r.status})")
            else:
                n_proved += 1
        if k.first_solver:
            wrong = [r.name for r in real if r.attempts and r.attempts[0]["solver"] != k.first_solver]
            if wrong or not any(r.attempts for r in real):
                problems.append(f"per-contract portfolio ignored: first attempt not by {k.first_solver} on {wrong[:2]}")
            late = [r.name for r in guards if r.attempts and r.attempts[0]["solver"] != "z3-5.1"]
            if late:
                problems.append(f"canaries must keep the default solver order: {late[:2]}")
        for s in k.must_fail:
            if c.key not in gen_err and not any(s in r.name for r in real):
                problems.append(f"no obligation matches must_fail pattern '{s}'")
        groups = {}
        for r in guards:
            base = r.name.split("@L")[0] if r.kind == "canary" else r.name
            groups.setdefault(base, []).append(r)
        n_sat = n_unk = 0
        for base, grp in groups.items():
            if all(r.status == "proved" for r in grp):
                problems.append(f"UNSOUND: false postcondition / cover {base} was DISCHARGED on every path")
                unsound += 1
            elif any(r.status == "refuted" for r in grp):
                n_sat += 1
            else:
                n_unk += 1
        rt_txt = ""
        if c.runtime is not None and c.key not in gen_err:
            ok, skip, fails, never_false = runtime(k)
            rt_txt = f" rt={ok}ok/{skip}skip"
            if fails:
                problems.append(f"run-time differential: {fails[0][1].get('clause')} {str(fails[0][1].get('detail'))[:200]} on {fails[0][0]}")
            if ok == 0:
                problems.append("run-time differential: no generated input passed the requires clauses")
            for nm in never_false:
                problems.append(f"false postcondition '{nm}' never evaluated to False natively (bad negative test)")
        elif c.key not in gen_err and k.expect != "unsupported":
            problems.append("no run-time differential (gen=) for this case")
        if problems:
            bad += 1
            print(f"FAIL    {c.key:70s} " + " | ".join(problems)[:1200])
        else:
            print(f"ok      {c.key:70s} proved={n_proved}/{len(real)} false-posts: sat={n_sat} unknown={n_unk}{rt_txt}")
        if verbose:
            for r in rs:
                print("          ", "guard" if r.expect_fail else "     ", r.name, r.status, r.solver, round(r.time_s, 2))
    # unit test of the "goal is literally a hypothesis" shortcut: alpha-equality must not leak state between comparisons
    import z3

    from pyvc.symex import alpha_eq

    _x, _y, _a = z3.Int("x!1"), z3.Int("y!2"), z3.Int("a")
    _f = z3.Function("f", z3.IntSort(), z3.IntSort())
    _g1 = z3.ForAll([_x], z3.Implies(_f(_x) > _a, z3.Exists([_y], _f(_y) == _x + 1)))
    _h_bad = z3.ForAll([_y], z3.Implies(_f(_y) > _a, z3.Exists([_x], _f(_x) == _y + 2)))  # differs deep inside
    _h_ok = z3.ForAll([_y], z3.Implies(_f(_y) > _a, z3.Exists([_x], _f(_x) == _y + 1)))
    _h_share = z3.ForAll([_y], z3.Implies(_f(_y) > _a, z3.Exists([_x], _f(_x) == _y + 3)))
    unit = [alpha_eq(_g1, _h_bad) is False, alpha_eq(_g1, _h_ok) is True, alpha_eq(_g1, _h_share) is False, alpha_eq(_h_bad, _h_share) is False]
    from pyvc.solve import PORTFOLIO, ordered_portfolio

    _op = ordered_portfolio(["cvc5", "z3-4.8"])
    unit.append(_op[:2] == ("cvc5", "z3-4.8") and sorted(_op) == sorted(PORTFOLIO) and ordered_portfolio(None) == PORTFOLIO)
    try:
        ordered_portfolio(["z4"])
        unit.append(False)
    except ValueError:
        unit.append(True)
    if all(unit) and not pats:
        print(f"ok      unit alpha_eq                                                          {len(unit)} comparisons")
    elif not pats:
        bad += 1
        unsound += 1
        print(f"FAIL    unit alpha_eq                                                          UNSOUND: {unit}")
    # differential testing against CPython: a small fixed-seed run of selftest/fuzz.py (random programs of the supported subset,
    # concrete inputs, CPython's result as the postcondition, a wrong result as the false postcondition)
    if not pats and os.environ.get("SELFTEST_FUZZ", "1") != "0":
        from selftest import fuzz

        fr = fuzz.run(60, 20261002, n_inputs=2, out=lambda *a: None)
        if fr["bugs"]:
            bad += 1
            unsound += sum(1 for b in fr["bugs"] if b[1] == "BUG-unsound")
            print(f"FAIL    fuzz (seed 20261002, 60 programs)                                        {[(items_[1], items_[2][:80]) for items_ in fr['bugs'][:3]]}")
        else:
            print(f"ok      fuzz (seed 20261002)                                                   programs={fr['programs']} inputs={fr['inputs']} obligations={fr['clauses']} {fr['counts']}")
    # solver regression files: satisfiable inputs on which a solver of the portfolio is known to answer `unsat`;
    # the confirmation step of pyvc.solve must turn that into `disagree` (never `proved`)
    import shutil

    from pyvc.solve import Result, solve_file

    rdir = os.path.join(ROOT, "selftest", "solver_regress")
    for fn in sorted(os.listdir(rdir)) if os.path.isdir(rdir) and not pats else []:
        if not fn.endswith(".smt2"):
            continue
        os.makedirs(outdir, exist_ok=True)
        p = os.path.join(outdir, "regress." + fn)
        shutil.copy(os.path.join(rdir, fn), p)
        if fn.startswith("uncaught_"):
            # a recorded wrong `unsat` of z3 that NO configuration contradicts: only the strict mode rejects it
            os.environ["PYVC_STRICT_SEQ"] = "1"
            try:
                r = solve_file(Result("regress." + fn, "post", "unknown", smt_file=p), timeout=10.0, rounds=[3.0])
            finally:
                os.environ.pop("PYVC_STRICT_SEQ", None)
            if r.status == "proved":
                bad += 1
                unsound += 1
                print(f"FAIL    solver_regress/{fn:55s} UNSOUND even with PYVC_STRICT_SEQ=1 (prover={r.solver})")
            else:
                print(f"ok      solver_regress/{fn:55s} verdict={r.status} under PYVC_STRICT_SEQ=1 (NOT caught by the default portfolio: known z3 bug)")
            continue
        r = solve_file(Result("regress." + fn, "post", "unknown", smt_file=p), timeout=10.0)
        if fn.startswith("probe_"):
            os.environ["PYVC_VACUITY_STRICT"] = "1"
            try:
                r = solve_file(Result("regress." + fn, "post", "unknown", smt_file=p), timeout=10.0)
            finally:
                os.environ.pop("PYVC_VACUITY_STRICT", None)
            if r.status != "proved" and r.vacuous:
                print(f"ok      solver_regress/{fn:55s} verdict={r.status} vacuous=True (probe: {r.solver} says the hypotheses alone are {r.vacuity_probe})")
            else:
                bad += 1
                unsound += 1
                print(f"FAIL    solver_regress/{fn:55s} UNSOUND: status={r.status} vacuous={r.vacuous} probe={r.vacuity_probe}")
            continue
        if r.status in ("disagree", "refuted", "unknown"):
            print(f"ok      solver_regress/{fn:55s} verdict={r.status} (prover={r.solver}, contradicted by {(r.disagree or {}).get('solver')})")
        else:
            bad += 1
            unsound += 1
            print(f"FAIL    solver_regress/{fn:55s} UNSOUND: a satisfiable file was accepted as {r.status} by {r.solver}; confirmations: {r.confirm_attempts}")
    print(f"selftest: {len(cases)} cases, {len(all_obs)} obligations, {bad} failing, {unsound} UNSOUND, gen {t_gen:.1f}s, total {time.time() - t0:.1f}s")
    return 1 if bad else 0


if __name__ == "__main__":
    sys.exit(main(sys.argv[1:]))
