"""Self-tests of the pyvc engine: tiny python functions (cases_*.py) under contracts (contracts_*.py).

Every case has true postconditions that must be discharged, FALSE postconditions (`canaries=`) that must NOT be
discharged, and a differential run against CPython (`runtime=`).  `python -m selftest.run` runs them all.
"""
