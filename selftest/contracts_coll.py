"""dict views as iterables, comprehensions over sequences, {**a, **b}, bool operators, any/all, conditional functions,
list deletion / insertion, stepped ranges."""
from pyvc.api import BOOL, INT, STR, Dict, List, Loop, Named, Opt, Ref, Set, Tuple

from .harness import case

C = "selftest.cases_coll:"


def ints(rng, lo=0, hi=4, a=-3, b=3):
    return [rng.randint(a, b) for _ in range(rng.randint(lo, hi))]


def sdict(rng, keys=("a", "b", "c"), lo=0, hi=3):
    return {k: rng.randint(0, 3) for k in rng.sample(list(keys), rng.randint(0, len(keys)))}


def idict(rng):
    return {k: rng.randint(0, 3) for k in rng.sample(range(6), rng.randint(0, 4))}


D = Dict(STR, INT)

# ---- dict views ----------------------------------------------------------------------------------------------------------
case(C + "keys_set", params={"d": D}, returns=Set(STR),
     ensures={"eq": "all(k in result for k in d) and all(k in d for k in result)"}, canaries={"empty": "result == set()", "has-a": "'a' in result"},
     gen=lambda rng: {"d": sdict(rng)})
case(C + "keys_inter", params={"s": Set(STR), "d": D}, returns=Set(STR),
     ensures={"eq": "all(iff(x in result, x in s and x in d) for x in s | set(d))"}, canaries={"all-s": "result == s", "empty": "result == set()"},
     gen=lambda rng: {"s": rng.sample(["a", "b", "z"], rng.randint(0, 3)), "d": sdict(rng)}, build=lambda d: {"s": set(d["s"]), "d": d["d"]})
case(C + "keys_diff_update", params={"s": Set(STR), "d": D}, returns=Set(STR), modifies=["s"],
     ensures={"eq": "all(iff(x in result, x in old(s) and x not in d) for x in old(s) | set(d))", "same": "result == s"},
     canaries={"all-s": "result == old(s)", "empty": "result == set()"},
     gen=lambda rng: {"s": rng.sample(["a", "b", "z"], rng.randint(0, 3)), "d": sdict(rng)}, build=lambda d: {"s": set(d["s"]), "d": d["d"]})
case(C + "values_list", params={"d": D}, returns=List(INT),
     ensures={"len": "len(result) == len(d)", "pos": "all(result[i] == d[list(d)[i]] for i in range(len(d)))"},
     canaries={"nonempty": "len(result) > 0", "zeros": "all(v == 0 for v in result)"},
     gen=lambda rng: {"d": sdict(rng)})
case(C + "keys_list", params={"d": D}, returns=List(STR),
     ensures={"len": "len(result) == len(d)", "in": "all(k in d for k in result)"}, canaries={"nonempty": "len(result) > 0"},
     gen=lambda rng: {"d": sdict(rng)})
case(C + "len_views", params={"d": D}, returns=INT,
     ensures={"three": "result == 3 * len(d)"}, canaries={"nine": "result == 9", "one": "result == len(d)"},
     gen=lambda rng: {"d": sdict(rng)})
case(C + "in_keys", params={"d": D, "k": STR}, returns=INT,
     ensures={"v": "result == ite(k in d, 1, 0)"}, canaries={"zero": "result == 0", "one": "result == 1"},
     gen=lambda rng: {"d": sdict(rng), "k": rng.choice(["a", "b", "z"])})
case(C + "in_values", params={"d": D, "v": INT}, returns=BOOL,
     ensures={"hit": "implies(any(d[k] == v for k in d), result)", "miss": "implies(result, any(d[k] == v for k in d))"},
     canaries={"never": "not result", "always": "result"},
     gen=lambda rng: {"d": sdict(rng), "v": rng.randint(0, 3)})
case(C + "view_truth", params={"d": D}, returns=INT,
     ensures={"v": "result == ite(len(d) == 0, 0, 1)"}, canaries={"one": "result == 1", "zero": "result == 0"},
     gen=lambda rng: {"d": sdict(rng)})

# ---- set(list), comprehensions over sequences -----------------------------------------------------------------------------------
case(C + "set_of_list", params={"xs": List(INT)}, returns=Set(INT), seq_positions=True,
     ensures={"in": "all(x in result for x in xs)", "only": "all(x in xs for x in result)"}, canaries={"empty": "result == set()", "has0": "0 in result"},
     gen=lambda rng: {"xs": ints(rng)})
case(C + "names_of", params={"xs": List(INT)}, returns=Set(INT),
     ensures={"img": "all(x + 1 in result for x in xs)", "only": "all(y - 1 in xs for y in result)"},
     canaries={"same": "all(x in result for x in xs)", "empty": "result == set()"},
     gen=lambda rng: {"xs": ints(rng)})
case(C + "evens", params={"xs": List(INT)}, returns=Set(INT),
     ensures={"even": "all(x % 2 == 0 and x in xs for x in result)", "all": "all(implies(x % 2 == 0, x in result) for x in xs)"},
     canaries={"everything": "all(x in result for x in xs)", "empty": "result == set()"},
     gen=lambda rng: {"xs": ints(rng, a=0, b=5)}, requires=["all(x >= 0 for x in xs)"])
case(C + "index_by_name", params={"xs": List(INT)}, returns=Dict(INT, INT),
     ensures={"dom": "all(iff(x in result, x > 0) for x in xs)", "only": "all(k in xs and k > 0 for k in result)", "val": "all(result[k] == 1 for k in result)"},
     canaries={"all": "all(x in result for x in xs)", "empty": "len(result) == 0", "val2": "all(result[k] == 2 for k in result) and len(result) > 0"},
     gen=lambda rng: {"xs": ints(rng)})
case(C + "square_map", params={"xs": List(INT)}, returns=Dict(INT, INT),
     ensures={"dom": "all(x in result and result[x] == x * x for x in xs)", "only": "all(k in xs for k in result)"},
     canaries={"id": "all(result[x] == x for x in xs)", "empty": "len(result) == 0"},
     gen=lambda rng: {"xs": ints(rng)})
case(C + "rekey", params={"d": Dict(INT, INT)}, returns=Dict(INT, INT),
     ensures={"only": "all(k - 1 in d for k in result)"},
     canaries={"same-keys": "all(k in result for k in d)", "empty": "len(result) == 0", "zero": "all(result[k] == 0 for k in result)"},
     gen=lambda rng: {"d": idict(rng)})
case(C + "rekey_collide", params={"d": Dict(INT, INT)}, returns=Dict(INT, INT), requires=["all(k >= 0 for k in d)"], comp_lastpos_free=True,
     ensures={"dom": "all(k // 2 in result for k in d)"},
     # FALSE: when both 2j and 2j+1 are keys the LATER one (in insertion order) wins, not always the even one
     canaries={"even-wins": "all(implies(2 * j in d, result[j] == d[2 * j]) for j in result)", "empty": "len(result) == 0"},
     gen=lambda rng: {"d": idict(rng)})
case(C + "last_wins", params={"xs": List(INT)}, returns=Dict(INT, INT), requires=["all(x >= 0 for x in xs)"], comp_lastpos_free=True,
     ensures={"dom": "all(x % 3 in result for x in xs)",
              "last": "implies(len(xs) == 2, result[xs[1] % 3] == xs[1])"},
     # FALSE: the FIRST occurrence does not win
     canaries={"first": "implies(len(xs) == 2, result[xs[0] % 3] == xs[0])", "empty": "len(result) == 0"},
     gen=lambda rng: {"xs": rng.choice([[1, 4], [2, 5], [0, 3]]) if rng.random() < 0.4 else ints(rng, a=0, b=8)})
case(C + "empty_lists", params={"xs": List(INT)}, returns=Dict(INT, List(INT)), locals={"out": Dict(INT, List(INT))},
     ensures={"dom": "all(x in result and len(result[x]) == 0 for x in xs)", "only": "all(k in xs for k in result)"},
     canaries={"one": "all(len(result[x]) == 1 for x in xs) and len(xs) > 0", "empty": "len(result) == 0"},
     gen=lambda rng: {"xs": ints(rng)})

case(C + "has", params={"xs": List(INT), "x": INT}, returns=BOOL, seq_positions=True,
     ensures={"wit": "implies(result, any(xs[i] == x for i in range(len(xs))))", "conv": "implies(any(xs[i] == x for i in range(len(xs))), result)"},
     canaries={"first": "implies(result, xs[0] == x)", "never": "not result"},
     gen=lambda rng: {"xs": ints(rng), "x": rng.randint(-3, 3)})

# ---- {**a, **b} -----------------------------------------------------------------------------------------------------------------
case(C + "merge", params={"a": D, "b": D}, returns=D,
     ensures={"b-wins": "all(k in result and result[k] == b[k] for k in b)", "a-rest": "all(k in result and implies(k not in b, result[k] == a[k]) for k in a)",
              "only": "all(k in a or k in b for k in result)"},
     canaries={"a-wins": "all(result[k] == a[k] for k in a)", "only-b": "all(k in b for k in result)"},
     gen=lambda rng: {"a": sdict(rng), "b": sdict(rng)})
case(C + "merge3", params={"a": D, "b": D, "k": STR, "v": INT}, returns=D,
     ensures={"b-wins": "all(x in result and result[x] == b[x] for x in b)", "k": "k in result and implies(k not in b, result[k] == v)",
              "only": "all(x in a or x in b or x == k for x in result)"},
     canaries={"k-wins": "result[k] == v", "a-wins": "all(result[x] == a[x] for x in a)"},
     gen=lambda rng: {"a": sdict(rng), "b": sdict(rng), "k": rng.choice(["a", "b", "q"]), "v": 7})

# ---- bool operators, any / all on containers ----------------------------------------------------------------------------------------
case(C + "xor", params={"a": BOOL, "b": BOOL}, returns=BOOL, ensures={"x": "result == (a != b)"}, canaries={"or": "result == (a or b)", "t": "result"},
     gen=lambda rng: {"a": rng.random() < 0.5, "b": rng.random() < 0.5})
case(C + "and_or", params={"a": BOOL, "b": BOOL}, returns=BOOL, ensures={"x": "result == (a or b)"}, canaries={"and": "result == (a and b)"},
     gen=lambda rng: {"a": rng.random() < 0.5, "b": rng.random() < 0.5})
case(C + "any_tuple", params={"t": Tuple(BOOL, INT, STR)}, returns=BOOL,
     ensures={"v": "result == (t[0] or t[1] != 0 or len(t[2]) > 0)"}, canaries={"first": "result == t[0]", "t": "result"},
     gen=lambda rng: {"t": [rng.random() < 0.3, rng.choice([0, 0, 2]), rng.choice(["", "", "x"])]}, build=lambda d: {"t": tuple(d["t"])})
case(C + "all_list", params={"xs": List(INT)}, returns=BOOL,
     ensures={"v": "result == all(x != 0 for x in xs)"}, canaries={"t": "result", "f": "not result"},
     gen=lambda rng: {"xs": ints(rng, a=0, b=2)})
TS = Named("TS", base=Set(STR), mark=Set(STR))
case(C + "any_sets", params={"t": TS}, returns=INT,
     ensures={"v": "result == ite(t.base == set() and t.mark == set(), 0, 1)"}, canaries={"one": "result == 1", "base": "result == ite(t.base == set(), 0, 1)"},
     gen=lambda rng: {"base": rng.sample(["a", "b"], rng.randint(0, 2)), "mark": rng.sample(["m"], rng.randint(0, 1))},
     build=lambda d: {"t": __import__("collections").namedtuple("TS", "base mark")(set(d["base"]), set(d["mark"]))})

# ---- conditional expression over functions ----------------------------------------------------------------------------------------------
case(C + "rnd_up", params={"x": INT}, returns=INT, ensures={"v": "result == x + 1"}, canaries={"id": "result == x"}, gen=lambda rng: {"x": rng.randint(0, 3)})
case(C + "rnd_id", params={"x": INT}, returns=INT, ensures={"v": "result == x"}, canaries={"up": "result == x + 1"}, gen=lambda rng: {"x": rng.randint(0, 3)})
case(C + "choose", params={"flag": BOOL, "x": INT}, returns=INT,
     ensures={"v": "result == ite(flag, x + 1, x)"}, canaries={"up": "result == x + 1", "id": "result == x"},
     gen=lambda rng: {"flag": rng.random() < 0.5, "x": rng.randint(0, 3)})
case(C + "choose_same", params={"flag": BOOL, "x": INT}, returns=INT,
     ensures={"v": "result == x + 1"}, canaries={"id": "result == x"},
     gen=lambda rng: {"flag": rng.random() < 0.5, "x": rng.randint(0, 3)})

# ---- list deletion / insertion / stepped range ------------------------------------------------------------------------------------------
case(C + "del_at", params={"xs": List(INT), "i": INT}, returns=List(INT), modifies=["xs"], requires=["0 <= i and i < len(xs)"],
     ensures={"len": "len(result) == len(old(xs)) - 1", "pre": "all(result[k] == old(xs)[k] for k in range(i))",
              "post": "all(result[k] == old(xs)[k + 1] for k in range(i, len(result)))"},
     canaries={"same": "result == old(xs)", "shift": "all(result[k] == old(xs)[k] for k in range(len(result)))"},
     gen=lambda rng: (lambda xs: {"xs": xs, "i": rng.randint(0, len(xs) - 1)})([rng.randint(0, 9) for _ in range(rng.randint(1, 4))]))
case(C + "del_at", name="neg", params={"xs": List(INT), "i": INT}, returns=List(INT), modifies=["xs"], requires=["-len(xs) <= i and i < 0"],
     ensures={"len": "len(result) == len(old(xs)) - 1", "pre": "all(result[k] == old(xs)[k] for k in range(len(old(xs)) + i))"},
     canaries={"same": "result == old(xs)"},
     gen=lambda rng: (lambda xs: {"xs": xs, "i": -rng.randint(1, len(xs))})([rng.randint(0, 9) for _ in range(rng.randint(1, 4))]))
case(C + "del_at", name="unguarded", params={"xs": List(INT), "i": INT}, returns=List(INT), modifies=["xs"], must_fail=["safe.IndexError"],
     gen=lambda rng: {"xs": [1, 2], "i": 0}, n=2)
case(C + "insert_at", params={"xs": List(INT), "i": INT, "x": INT}, returns=List(INT), modifies=["xs"],
     ensures={"len": "len(result) == len(old(xs)) + 1",
              "mid": "implies(0 <= i and i <= len(old(xs)), result[i] == x and result[:i] == old(xs)[:i] and result[i + 1:] == old(xs)[i:])",
              "big": "implies(i > len(old(xs)), result == old(xs) + [x])",
              "neg": "implies(i < -len(old(xs)), result == [x] + old(xs))"},
     canaries={"append": "result == old(xs) + [x]", "front": "result == [x] + old(xs)"},
     gen=lambda rng: {"xs": ints(rng), "i": rng.randint(-6, 6), "x": 42})
case(C + "count_down", params={"n": INT}, returns=List(INT), requires=["n >= 0"],
     ensures={"len": "len(result) == n", "vals": "all(result[k] == n - 1 - k for k in range(n))"},
     canaries={"up": "all(result[k] == k for k in range(n))", "short": "len(result) == n - 1"},
     loops={"for i in range(n - 1, -1, -1)": Loop(index="j", invariants={"len": "len(out) == j", "vals": "all(out[k] == n - 1 - k for k in range(j))"})},
     locals={"out": List(INT)},
     gen=lambda rng: {"n": rng.randint(0, 5)})

# ---- sorting axioms (opt-in: sorted_axioms=True) -------------------------------------------------------------------------------------------
case(C + "sort_list", params={"xs": List(INT)}, returns=List(INT), sorted_axioms=True,
     ensures={"len": "len(result) == len(xs)", "ordered": "all(result[k] <= result[k + 1] for k in range(len(result) - 1))",
              "same": "all(x in result for x in xs) and all(x in xs for x in result)"},
     canaries={"strict": "all(result[k] < result[k + 1] for k in range(len(result) - 1))", "identity": "result == xs", "desc": "all(result[k] >= result[k + 1] for k in range(len(result) - 1))"},
     gen=lambda rng: {"xs": ints(rng)})
case(C + "sort_list", name="opaque", params={"xs": List(INT)}, returns=List(INT),
     # without the option sorting stays opaque: nothing about the result is provable (and nothing false either)
     ensures={}, canaries={"len": "len(result) == len(xs)", "identity": "result == xs"}, canary_native=False,
     gen=lambda rng: {"xs": ints(rng)})
case(C + "sort_set", params={"s": Set(INT)}, returns=List(INT), sorted_axioms=True,
     ensures={"strict": "all(result[k] < result[k + 1] for k in range(len(result) - 1))", "same": "all(x in s for x in result) and all(x in result for x in s)"},
     canaries={"nonempty": "len(result) > 0", "has0": "0 in result"},
     gen=lambda rng: {"s": rng.sample(range(6), rng.randint(0, 4))}, build=lambda d: {"s": set(d["s"])})
case(C + "sort_desc", params={"xs": List(INT)}, returns=List(INT), sorted_axioms=True,
     ensures={"len": "len(result) == len(xs)", "desc": "all(result[k] >= result[k + 1] for k in range(len(result) - 1))"},
     canaries={"asc": "all(result[k] <= result[k + 1] for k in range(len(result) - 1))"},
     gen=lambda rng: {"xs": ints(rng)})
case(C + "sort_by_key", params={"ps": List(Tuple(STR, INT))}, returns=List(Tuple(STR, INT)), sorted_axioms=True,
     ensures={"len": "len(result) == len(ps)", "bykey": "all(result[k][1] <= result[k + 1][1] for k in range(len(result) - 1))", "same": "all(p in ps for p in result)"},
     canaries={"byname": "all(result[k][0] <= result[k + 1][0] for k in range(len(result) - 1))", "identity": "result == ps"},
     gen=lambda rng: {"ps": [[rng.choice("abc"), rng.randint(0, 3)] for _ in range(rng.randint(0, 3))]}, build=lambda d: {"ps": [tuple(p) for p in d["ps"]]})
case(C + "sort_inplace", params={"xs": List(INT)}, returns=List(INT), modifies=["xs"], sorted_axioms=True,
     ensures={"len": "len(xs) == len(old(xs))", "ordered": "all(xs[k] <= xs[k + 1] for k in range(len(xs) - 1))", "ret": "result == xs"},
     canaries={"identity": "xs == old(xs)"},
     gen=lambda rng: {"xs": ints(rng)})
case(C + "smallest", params={"xs": List(INT)}, returns=INT, requires=["len(xs) > 0"], sorted_axioms=True, seq_positions=True,
     ensures={"min": "all(result <= x for x in xs)", "member": "result in xs"},
     canaries={"max": "all(result >= x for x in xs)", "first": "result == xs[0]"},
     gen=lambda rng: {"xs": [rng.randint(-3, 3)] + ints(rng)})
case(C + "sort_dict", params={"d": D}, returns=List(STR), sorted_axioms=True,
     ensures={"len": "len(result) == len(d)", "keys": "all(k in d for k in result) and all(k in result for k in d)", "strict": "all(result[k] < result[k + 1] for k in range(len(result) - 1))"},
     canaries={"nonempty": "len(result) > 0", "has-a": "'a' in result"},
     gen=lambda rng: {"d": sdict(rng)})

# ---- generator functions: contract = the list of yielded values ----------------------------------------------------------------------------
_GE = {"even": "all(e % 2 == 0 and e in xs for e in result)", "len": "len(result) <= len(xs)"}
case(C + "gen_evens", params={"xs": List(INT)}, returns=List(INT), requires=["all(x >= 0 for x in xs)"],
     ensures=_GE, canaries={"all": "len(result) == len(xs)", "none": "len(result) == 0"},
     loops={"for x in xs": Loop(index="i", invariants={"even": "all(e % 2 == 0 and e in xs for e in __yield__)", "len": "len(__yield__) <= i"})},
     gen=lambda rng: {"xs": ints(rng, a=0, b=5)})
case(C + "gen_pairs", params={"a": INT, "b": List(INT)}, returns=List(INT),
     ensures={"v": "result == [a] + b + [a + 1]"}, canaries={"short": "result == [a] + b"},
     gen=lambda rng: {"a": rng.randint(0, 3), "b": ints(rng)})
case(C + "use_gen", params={"xs": List(INT)}, returns=INT, requires=["all(x >= 0 for x in xs)"],
     ensures={"bound": "0 <= result and result <= len(xs)"}, canaries={"all": "result == len(xs)", "zero": "result == 0"},
     loops={"for e in gen_evens(xs)": Loop(index="i", invariants={"n": "n == i"})}, locals={"n": INT},
     gen=lambda rng: {"xs": ints(rng, a=0, b=5)})
case(C + "gen_to_set", params={"xs": List(INT)}, returns=Set(INT), requires=["all(x >= 0 for x in xs)"],
     ensures={"odd": "all(y % 2 == 1 for y in result)"}, canaries={"empty": "result == set()", "even": "all(y % 2 == 0 for y in result)"},
     gen=lambda rng: {"xs": ints(rng, a=0, b=5)})
case(C + "gen_to_list", params={"xs": List(INT)}, returns=List(INT), requires=["all(x >= 0 for x in xs)"],
     ensures=_GE, canaries={"all": "len(result) == len(xs)"},
     gen=lambda rng: {"xs": ints(rng, a=0, b=5)})

# Python evaluates the generator lazily (it sees what this very extend() has appended): not the comprehension semantics -> refused
case(C + "extend_lazy_other", params={"xs": List(INT), "src": List(INT)}, returns=List(INT), modifies=["xs"], expect="unsupported", msg="lazily")
# .. except the de-duplicating form `xs.extend(g for g in src if g not in xs)`, whose real (fold) semantics is encoded (round 4)
case(C + "extend_lazy", params={"xs": List(INT), "src": List(INT)}, returns=List(INT), modifies=["xs"], portfolio=["cvc5"],
     ensures={"same": "result == xs", "prefix": "xs[:len(old(xs))] == old(xs)", "covers": "all(g in xs for g in src)",
              "new-distinct": "all(all(xs[j] != xs[k] for k in range(j + 1, len(xs))) for j in range(len(old(xs)), len(xs)))"},
     canaries={"eager": "len(xs) == len(old(xs)) + len([g for g in src if g not in old(xs)])", "unchanged": "xs == old(xs)"},
     gen=lambda rng: {"xs": ints(rng, a=0, b=3), "src": ints(rng, hi=5, a=0, b=4)})

case(C + "or_empty", params={"langs": List(STR)}, returns=INT,
     ensures={"n": "result == ite(len(langs) == 0, 1, len(langs))"}, canaries={"len": "result == len(langs)"},
     loops={"for l in langs or ('dflt',)": Loop(index="i", invariants={"n": "n == i"})}, locals={"n": INT},
     gen=lambda rng: {"langs": rng.sample(["a", "b"], rng.randint(0, 2))})

# ten unrolled iterations with two `continue`s each: the paths of an iteration are joined (3**10 paths otherwise)
case(C + "unroll_many", params={"d": D}, returns=INT,
     ensures={"bound": "0 <= result and result <= 10", "a": "implies(all(k not in d for k in ['b', 'c', 'd', 'e', 'f', 'g', 'h', 'i', 'j']), result == ite('a' in d and d['a'] != 0, 1, 0))"},
     canaries={"zero": "result == 0", "ten": "result == 10"},
     gen=lambda rng: {"d": {k: rng.randint(0, 1) for k in rng.sample("abcdefghijk", rng.randint(0, 5))}})

# re-binding hint "name := expr": the equality is proved, then the local is re-bound to the closed form
case(C + "remove_then_len", params={"xs": List(INT), "x": INT}, returns=INT, modifies=["xs"], requires=["len(xs) > 0 and xs[0] == x"],
     hints={"xs.remove(x)": ["xs := old(xs)[1:]"]},
     ensures={"n": "result == len(old(xs)) - 1", "rest": "xs == old(xs)[1:]"}, canaries={"same": "xs == old(xs)"},
     gen=lambda rng: (lambda xs: {"xs": xs, "x": xs[0]})([rng.randint(0, 3)] + ints(rng)))
case(C + "remove_then_len", name="wrong-hint", params={"xs": List(INT), "x": INT}, returns=INT, modifies=["xs"], requires=["len(xs) > 0 and x in xs"],
     hints={"xs.remove(x)": ["xs := old(xs)[1:]"]}, must_fail=["assert.hint"],
     gen=lambda rng: {"xs": [1, 2], "x": 1}, n=2)

# the filter of a comprehension guards the safety obligations of its element expression (KeyError of d[k] under `if k in d`)
case(C + "filtered_lookup", params={"ds": List(D), "k": STR}, returns=List(INT),
     ensures={"len": "len(result) <= len(ds)"}, canaries={"all": "len(result) == len(ds)"},
     gen=lambda rng: {"ds": [sdict(rng) for _ in range(rng.randint(0, 3))], "k": rng.choice(["a", "b"])})

# a call by contract inside a quantifier / comprehension: the result is a function of the bound variable
case(C + "is_big", params={"x": INT}, returns=BOOL, ensures={"v": "result == (x > 10)"}, canaries={"t": "result"}, gen=lambda rng: {"x": rng.randint(5, 15)})
case(C + "any_big", params={"xs": List(INT)}, returns=BOOL,
     ensures={"v": "result == any(x > 10 for x in xs)"}, canaries={"t": "result", "f": "not result"},
     gen=lambda rng: {"xs": ints(rng, a=5, b=15)})
case(C + "bigs", params={"xs": List(INT)}, returns=List(INT),
     ensures={"big": "all(y > 10 for y in result)", "len": "len(result) <= len(xs)"}, canaries={"all": "len(result) == len(xs)", "small": "all(y <= 10 for y in result) and len(result) > 0"},
     gen=lambda rng: {"xs": ints(rng, a=5, b=15)})

# a generator consumed as a set: the image set, no intermediate list
case(C + "names_update", params={"seen": Set(INT), "xs": List(INT)}, returns=Set(INT), modifies=["seen"],
     ensures={"old": "all(y in result for y in old(seen))", "new": "all(implies(x > 0, x + 1 in result) for x in xs)",
              "only": "all(y in old(seen) or (y - 1 in xs and y - 1 > 0) for y in result)"},
     canaries={"all": "all(x + 1 in result for x in xs)", "same": "result == old(seen)"},
     gen=lambda rng: {"seen": rng.sample(range(5), rng.randint(0, 2)), "xs": ints(rng)}, build=lambda d: {"seen": set(d["seen"]), "xs": d["xs"]})

case(C + "replace_all", params={"xs": List(INT), "ys": List(INT)}, returns=INT, modifies=["xs"],
     ensures={"eq": "xs == ys", "n": "result == len(ys)"}, canaries={"same": "xs == old(xs)"},
     gen=lambda rng: {"xs": ints(rng), "ys": [7] + ints(rng)})

# filtered list comprehension with order-preserving position functions (comp_positions=True)
case(C + "keep_pos", params={"xs": List(INT)}, returns=List(INT), comp_positions=True,
     ensures={"pos": "all(y > 0 for y in result)", "first": "implies(len(xs) > 0 and xs[0] > 0, len(result) > 0 and result[0] == xs[0])",
              "order": "implies(len(xs) == 2 and xs[0] > 0 and xs[1] > 0, result == xs)"},
     canaries={"all": "len(result) == len(xs)", "rev": "implies(len(xs) == 2 and xs[0] > 0 and xs[1] > 0 and xs[0] != xs[1], result == [xs[1], xs[0]])"},
     gen=lambda rng: {"xs": rng.choice([[1, 2], [2, 1], [3, -1], []]) if rng.random() < 0.5 else ints(rng)})

# zero-padded integer formats are uninterpreted (deterministic) functions of the argument
case(C + "version_string", params={"major": INT, "minor": INT}, returns=STR,
     ensures={"prefix": "result.startswith('%d.' % major)", "fn": "result == '%d.%03d' % (major, minor)"},
     canaries={"plain": "result == '%d.%d' % (major, minor)", "len5": "len(result) == 5"},
     gen=lambda rng: {"major": rng.randint(0, 12), "minor": rng.choice([0, 5, 42, 123, 1000])})

case(C + "head2", params={"t": Tuple(INT, INT, INT)}, returns=INT, ensures={"v": "result == t[0] + t[1]"}, canaries={"w": "result == t[0] + t[2]"},
     gen=lambda rng: {"t": [rng.randint(0, 5) for _ in range(3)]}, build=lambda d: {"t": tuple(d["t"])})

case(C + "max_or_zero", params={"xs": List(INT)}, returns=INT,
     ensures={"empty": "implies(len(xs) == 0, result == 0)", "ub": "all(result >= x + 1 for x in xs)", "wit": "implies(len(xs) > 0, any(result == x + 1 for x in xs))"},
     canaries={"zero": "result == 0", "plain": "implies(len(xs) > 0, any(result == x for x in xs))"},
     gen=lambda rng: {"xs": ints(rng)})

case(C + "full_name", params={"a": STR, "b": INT}, returns=STR,
     ensures={"v": "result == a + '-' + str(b)", "pre": "result.startswith(a)"}, canaries={"space": "result == a + ' ' + str(b)"},
     gen=lambda rng: {"a": rng.choice(["x", "yy", ""]), "b": rng.randint(0, 30)})
case(C + "padded", params={"n": INT}, returns=STR, requires=["n >= 0"],
     # zfill is an uninterpreted function of the receiver: only functionality is known
     ensures={"fn": "result == str(n).zfill(3)"}, canaries={"plain": "result == str(n)", "len3": "len(result) == 3"},
     gen=lambda rng: {"n": rng.choice([0, 7, 42, 123, 4567])})

case(C + "add3", params={"a": INT, "b": INT, "c": INT}, returns=INT, ensures={"v": "result == a + b + c"}, canaries={"w": "result == a"},
     gen=lambda rng: {"a": rng.randint(0, 3), "b": rng.randint(1, 3), "c": rng.randint(0, 3)})
case(C + "star_tuple", params={"t": Tuple(INT, INT)}, returns=INT, ensures={"v": "result == 1 + t[0] + t[1]"}, canaries={"w": "result == t[0] + t[1]"},
     gen=lambda rng: {"t": [rng.randint(0, 3), rng.randint(0, 3)]}, build=lambda d: {"t": tuple(d["t"])})

# the filter of a SET comprehension guards the element expression too (KeyError of colors[n] under `if n in colors`)
case(C + "neighbour_colors", params={"adj": Set(STR), "colors": D}, returns=Set(INT),
     ensures={"img": "all(implies(n in colors, colors[n] in result) for n in adj)"}, canaries={"empty": "result == set()"},
     gen=lambda rng: {"adj": rng.sample(["a", "b", "z"], rng.randint(0, 3)), "colors": sdict(rng)}, build=lambda d: {"adj": set(d["adj"]), "colors": d["colors"]})

case(C + "starts_alpha", params={"key": STR}, returns=INT, requires=["len(key) > 0"],
     ensures={"fn": "result == ite(key[0].isalpha(), 1, 0)"}, canaries={"one": "result == 1", "zero": "result == 0"},
     gen=lambda rng: {"key": rng.choice(["a1", "1a", "_x", "Zz"])})

# `a and b` as a VALUE with operands of unrelated types (a str or a bool): a Union value
case(C + "ignorable", params={"key": STR}, returns=INT,
     ensures={"empty": "implies(key == '', result == 0)", "fn": "implies(key != '', result == ite(key[0].isalpha(), 0, 1))"},
     canaries={"one": "result == 1", "zero": "result == 0"},
     gen=lambda rng: {"key": rng.choice(["", "a1", "1a", "_x"])})

# ---- comprehensions with two `for` clauses ---------------------------------------------------------------------------------------------------
case(C + "busy_names", params={"glyph_sets": List(D)}, returns=Set(STR),
     ensures={"sound": "all(any(y in gs and gs[y] > 0 for gs in glyph_sets) for y in result)",
              "complete": "all(all(implies(gs[n] > 0, n in result) for n in gs) for gs in glyph_sets)"},
     canaries={"all-keys": "all(all(n in result for n in gs) for gs in glyph_sets)", "empty": "result == set()"},
     gen=lambda rng: {"glyph_sets": [sdict(rng) for _ in range(rng.randint(0, 3))]})
case(C + "pairs_flat", params={"rows": List(INT)}, returns=List(INT),
     ensures={"len": "len(result) == 2 * len(rows)", "first": "all(result[i] == rows[i] + 1 for i in range(len(rows)))"},
     canaries={"once": "len(result) == len(rows)"},
     gen=lambda rng: {"rows": ints(rng)})
case(C + "cross", params={"xs": Set(INT), "ys": List(INT)}, returns=Set(INT),
     ensures={"sound": "all(any(any(z == x + y and y != x for y in ys) for x in xs) for z in result)",
              "complete": "all(all(implies(y != x, x + y in result) for y in ys) for x in xs)"},
     canaries={"diag": "all(all(x + y in result for y in ys) for x in xs)", "empty": "result == set()"},
     gen=lambda rng: {"xs": rng.sample(range(4), rng.randint(0, 3)), "ys": ints(rng, a=0, b=3)}, build=lambda d: {"xs": set(d["xs"]), "ys": d["ys"]})

# ---- dict views are set-like: <=, ==, &, - -----------------------------------------------------------------------------------------------------
case(C + "sub_location", params={"loc": D, "dflt": D}, returns=BOOL,
     ensures={"v": "result == all(k in dflt and dflt[k] == loc[k] for k in loc)"}, canaries={"keys-only": "result == all(k in dflt for k in loc)", "t": "result"},
     gen=lambda rng: {"loc": sdict(rng), "dflt": sdict(rng)})
case(C + "extra_keys", params={"d": D, "s": Set(STR)}, returns=Set(STR),
     ensures={"v": "all(iff(k in result, k in d and k not in s) for k in set(d) | s)"}, canaries={"all": "result == set(d)", "empty": "result == set()"},
     gen=lambda rng: {"d": sdict(rng), "s": rng.sample(["a", "z"], rng.randint(0, 2))}, build=lambda d: {"d": d["d"], "s": set(d["s"])})
case(C + "common_keys", params={"a": D, "b": D}, returns=Set(STR),
     ensures={"v": "all(iff(k in result, k in a and k in b) for k in set(a) | set(b))"}, canaries={"a": "result == set(a)", "empty": "result == set()"},
     gen=lambda rng: {"a": sdict(rng), "b": sdict(rng)})
case(C + "same_keys", params={"a": D, "b": D}, returns=BOOL,
     ensures={"v": "result == (all(k in b for k in a) and all(k in a for k in b))"}, canaries={"t": "result", "f": "not result"},
     gen=lambda rng: {"a": sdict(rng, keys=("a", "b")), "b": sdict(rng, keys=("a", "b"))})

# ---- f(*xs): big union over a list of sets; a symbolic list whose length the path condition fixes ----------------------------------------------
case(C + "all_names", params={"glyph_sets": List(D)}, returns=Set(STR), raises={"TypeError": "len(glyph_sets) == 0"},
     ensures={"sound": "all(any(n in gs for gs in glyph_sets) for n in result)", "complete": "all(all(n in result for n in gs) for gs in glyph_sets)"},
     canaries={"first-only": "all(n in glyph_sets[0] for n in result)", "empty": "result == set()"},
     gen=lambda rng: {"glyph_sets": [sdict(rng) for _ in range(rng.randint(0, 3))]})
case(C + "star_known", params={"xs": List(INT)}, returns=INT, requires=["len(xs) == 3"],
     ensures={"v": "result == xs[0] + xs[1] + xs[2]"}, canaries={"two": "result == xs[0] + xs[1]"},
     gen=lambda rng: {"xs": [rng.randint(0, 3) for _ in range(3)]})
case(C + "star_known", name="unknown-length", params={"xs": List(INT)}, returns=INT, expect="unsupported", msg="symbolic length")

# ---- positional bridge facts (seq_bridge=True): position-wise invariants over append / + ------------------------------------------------------
case(C + "build_trace", params={"xs": List(INT)}, returns=List(INT), seq_bridge=True,
     ensures={"len": "len(result) == len(xs) + 1", "head": "result[0] == 0", "pos": "all(result[k + 1] == xs[k] + 1 for k in range(len(xs)))"},
     canaries={"shift": "all(result[k] == xs[k] + 1 for k in range(len(xs)))", "short": "len(result) == len(xs)"},
     loops={"for x in xs": Loop(index="i", invariants={"len": "len(out) == i", "pos": "all(out[k] == xs[k] + 1 for k in range(i))"})},
     locals={"out": List(INT)},
     gen=lambda rng: {"xs": ints(rng)})

# ---- TupleOf(T), isinstance(x, tuple), lexicographic order, order on Union values ---------------------------------------------------------------
from pyvc.api import TupleOf, Union  # noqa: E402

SIDE = Union(STR, TupleOf(STR))
case(C + "side_key", params={"is_class": BOOL, "side": SIDE}, returns=INT,
     ensures={"str": "implies(isinstance(side, str), result == 0)", "tup": "implies(isinstance(side, tuple), result >= 0)"},
     canaries={"zero": "result == 0"},
     gen=lambda rng: {"is_class": rng.random() < 0.5, "side": rng.choice(["a", ["x", "y"], []])},
     build=lambda d: {"is_class": d["is_class"], "side": tuple(d["side"]) if isinstance(d["side"], list) else d["side"]})
case(C + "pair_lt", params={"a_cls": BOOL, "a_side": SIDE, "b_cls": BOOL, "b_side": SIDE}, returns=BOOL,
     # the sides are compared only when the flags are equal; then they must be of the same kind (str / tuple)
     requires=["implies(a_cls == b_cls, isinstance(a_side, str) == isinstance(b_side, str))"],
     ensures={"flag": "implies(not a_cls and b_cls, result)", "flag2": "implies(a_cls and not b_cls, not result)",
              "strs": "implies(a_cls == b_cls and isinstance(a_side, str) and isinstance(b_side, str), result == (a_side < b_side))"},
     canaries={"t": "result", "f": "not result"},
     gen=lambda rng: (lambda k: {"a_cls": rng.random() < 0.5, "b_cls": rng.random() < 0.5, "a": rng.choice(k), "b": rng.choice(k)})(rng.choice([["a", "b", "c"], [["x"], ["x", "y"], []]])),
     build=lambda d: {"a_cls": d["a_cls"], "b_cls": d["b_cls"] if True else 0, "a_side": tuple(d["a"]) if isinstance(d["a"], list) else d["a"], "b_side": tuple(d["b"]) if isinstance(d["b"], list) else d["b"]})
case(C + "pair_lt", name="unguarded", params={"a_cls": BOOL, "a_side": SIDE, "b_cls": BOOL, "b_side": SIDE}, returns=BOOL,
     must_fail=["safe.TypeError"], gen=lambda rng: {"a": "a"}, build=lambda d: {"a_cls": True, "a_side": "a", "b_cls": True, "b_side": "b"}, n=2)
case(C + "lex_lt", params={"a": TupleOf(INT), "b": TupleOf(INT)}, returns=BOOL,
     ensures={"empty": "implies(len(a) == 0, result == (len(b) > 0))", "first": "implies(len(a) > 0 and len(b) > 0 and a[0] != b[0], result == (a[0] < b[0]))",
              "irrefl": "implies(a == b, not result)"},
     canaries={"by-len": "result == (len(a) < len(b))", "t": "result"},
     gen=lambda rng: {"a": ints(rng, a=0, b=2), "b": ints(rng, a=0, b=2)}, build=lambda d: {"a": tuple(d["a"]), "b": tuple(d["b"])})
case(C + "as_tuple", params={"xs": List(INT)}, returns=TupleOf(INT), locals={"t": TupleOf(INT)},
     ensures={"same": "len(result) == len(xs) and all(result[i] == xs[i] for i in range(len(xs)))", "kind": "isinstance(result, tuple)"},
     canaries={"list": "isinstance(result, list)", "eq-list": "result == xs"},
     gen=lambda rng: {"xs": ints(rng)})

# ---- len() of a set: uninterpreted cardinality with sound partial facts --------------------------------------------------------------------------
case(C + "count_distinct", params={"xs": List(INT)}, returns=INT,
     ensures={"ub": "0 <= result and result <= len(xs)", "distinct": "implies(distinct(xs), result == len(xs))", "zero": "iff(result == 0, len(xs) == 0)"},
     canaries={"len": "result == len(xs)", "one": "implies(len(xs) > 0, result == 1)"},
     gen=lambda rng: {"xs": ints(rng, a=0, b=2)})
case(C + "is_single", params={"s": Set(INT)}, returns=BOOL,
     ensures={"v": "result == (s == set())"}, canaries={"t": "result", "f": "not result"},
     gen=lambda rng: {"s": rng.sample(range(3), rng.randint(0, 2))}, build=lambda d: {"s": set(d["s"])})

# a computed key that is an ite (`m.get(k, k)`): cannot be a trigger itself
case(C + "rename_keys", params={"d": D, "m": Dict(STR, STR)}, returns=D,
     ensures={"only": "all(any(ite(k in m, m[k], k) == r for k in d) for r in result)"},
     canaries={"same-keys": "all(k in result for k in d)", "empty": "len(result) == 0"},
     gen=lambda rng: {"d": sdict(rng), "m": {k: rng.choice(["x", "y"]) for k in rng.sample(["a", "b"], rng.randint(0, 2))}})

case(C + "strip_num", params={"name": STR, "number": STR}, returns=STR,
     ensures={"fn": "result == name.rstrip(number)"}, canaries={"id": "result == name"},
     gen=lambda rng: {"name": rng.choice(["top_1", "top12", "a"]), "number": rng.choice(["1", "12", "2"])})
case(C + "store_none", params={"d": Dict(STR, Opt(INT)), "k": STR, "x": Opt(INT)}, returns=INT, modifies=["d"],
     ensures={"none": "implies(x is None, d[k] is None)", "some": "implies(x is not None, d[k] == x + 1)"},
     canaries={"same": "d[k] == x"},
     gen=lambda rng: {"d": {}, "k": "a", "x": rng.choice([None, 1, 2])})

# floor division / modulo by NEGATIVE constants (Python rounds toward minus infinity; the remainder has the sign of the divisor)
case(C + "neg_div", params={"x": INT}, returns=Tuple(INT, INT, INT, INT),
     ensures={"recon": "x == -3 * result[0] + result[1] and -3 < result[1] and result[1] <= 0", "pos": "x == 4 * result[2] + result[3] and 0 <= result[3] and result[3] < 4",
              "inst": "implies(x == 7, result == (-3, -2, 1, 3)) and implies(x == -7, result == (2, -1, -2, 1))"},
     canaries={"trunc": "implies(x == 7, result[0] == -2)", "posrem": "result[1] >= 0"},
     gen=lambda rng: {"x": rng.randint(-9, 9)})

# ---- (*a, x, *b) with symbolic sequences; next(iter(c)) ---------------------------------------------------------------------------------------------
case(C + "glue", params={"a": TupleOf(INT), "b": TupleOf(INT), "x": INT}, returns=TupleOf(INT),
     ensures={"len": "len(result) == len(a) + len(b) + 1", "mid": "result[len(a)] == x", "pre": "all(result[i] == a[i] for i in range(len(a)))"},
     canaries={"last": "result[len(result) - 1] == x", "short": "len(result) == len(a) + len(b)"},
     gen=lambda rng: {"a": ints(rng), "b": [7] + ints(rng), "x": 99}, build=lambda d: {"a": tuple(d["a"]), "b": tuple(d["b"]), "x": d["x"]})
case(C + "first_of", params={"t": TupleOf(STR)}, returns=STR, raises={"StopIteration": "len(t) == 0"},
     ensures={"v": "result == t[0]"}, canaries={"last": "result == t[len(t) - 1]"},
     gen=lambda rng: {"t": rng.choice([[], ["a"], ["a", "b"]])}, build=lambda d: {"t": tuple(d["t"])})

# ---- xs.extend(g for g in src if g not in xs): the lazy-generator semantics, folded (round 4) --------------------------------
case(
    C + "extend_dedupe", params={"xs": List(INT), "src": List(INT)}, returns=List(INT),
    ensures={"prefix": "result[:len(xs)] == xs", "bound": "len(xs) <= len(result) and len(result) <= len(xs) + len(src)",
             "covers": "all(g in result for g in src)",
             "new-from-src": "all(result[j] in src and result[j] not in xs for j in range(len(xs), len(result)))",
             "no-dup-new": "all(all(result[j] != result[k] for k in range(j + 1, len(result))) for j in range(len(xs), len(result)))"},
    # the eager (wrong) reading `xs + [g for g in src if g not in xs]` would satisfy 'len-eager'
    canaries={"len-eager": "len(result) == len(xs) + len([g for g in src if g not in xs])", "all-added": "len(result) == len(xs) + len(src)", "nothing-added": "result == xs"},
    portfolio=["cvc5"],  # (z3 needs more than the first 3 s round for the quantified facts; cvc5 is instant)
    gen=lambda rng: {"xs": [rng.randint(0, 3) for _ in range(rng.randint(0, 3))], "src": [rng.randint(0, 5) for _ in range(rng.randint(0, 5))]},
)
case(
    C + "extend_dedupe_small", params={"a": INT, "b": INT}, returns=List(INT), locals={"out": List(INT)},
    ensures={"distinct": "implies(a != b, result == [a, b])", "same": "implies(a == b, result == [a])"},
    canaries={"eager": "result == [a, b, a]", "always-two": "len(result) == 2"},
    gen=lambda rng: {"a": rng.randint(0, 2), "b": rng.randint(0, 2)},
)

# ---- `(x,) = S` for a set of exactly one element (round 4) --------------------------------------------------------------------
case(C + "only_member", params={"groups": Dict(STR, Set(STR)), "k": STR}, returns=STR,
     requires=["k in groups", "any(groups[k] == {e} for e in groups[k])"],
     ensures={"member": "result in groups[k]", "all": "groups[k] == {result}"},
     canaries={"const": "result == 'a'"},
     gen=lambda rng: {"groups": {"x": [rng.choice(["a", "b"])], "y": ["c"]}, "k": rng.choice(["x", "y"])},
     build=lambda d: {"groups": {k: set(v) for k, v in d["groups"].items()}, "k": d["k"]})
case(C + "only_member", name="unguarded", params={"groups": Dict(STR, Set(STR)), "k": STR}, returns=STR,
     requires=["k in groups"], must_fail=["safe.ValueError"],
     gen=lambda rng: {"groups": {"x": ["a"]}, "k": "x"}, build=lambda d: {"groups": {k: set(v) for k, v in d["groups"].items()}, "k": d["k"]}, n=3)
case(C + "only_member", name="len-one", params={"groups": Dict(STR, Set(STR)), "k": STR}, returns=STR,
     requires=["k in groups", "len(groups[k]) == 1"],
     ensures={"member": "result in groups[k]", "all": "groups[k] == {result}"},
     canaries={"const": "result == 'a'"},
     gen=lambda rng: {"groups": {"x": [rng.choice(["a", "b"])], "y": ["c"]}, "k": rng.choice(["x", "y"])},
     build=lambda d: {"groups": {k: set(v) for k, v in d["groups"].items()}, "k": d["k"]})

# ---- itertools.product(a, b) (round 4) -------------------------------------------------------------------------------------------
case(C + "product_count", params={"xs": List(INT), "ys": List(INT)}, returns=INT, locals={"n": INT},
     ensures={"bound": "0 <= result and result <= len(xs) * len(ys)", "none": "implies(all(x < 0 for x in xs), result == 0)"},
     canaries={"all": "result == len(xs) * len(ys)", "zero": "result == 0"},
     loops={"for (a, b) in itertools.product(xs, ys)": Loop(index="i", invariants={"b": "0 <= n and n <= i", "z": "implies(all(x < 0 for x in xs), n == 0)"})},
     gen=lambda rng: {"xs": ints(rng, hi=3), "ys": ints(rng, hi=3)})
case(C + "product_all", params={"xs": List(INT), "ys": List(INT)}, returns=BOOL,
     ensures={"nonneg": "implies(all(x >= 0 for x in xs) and all(y >= 0 for y in ys), result)",
              "witness": "implies(len(xs) > 0 and len(ys) > 0 and xs[0] + ys[0] < 0, not result)"},
     canaries={"always": "result", "never": "not result"},
     gen=lambda rng: {"xs": ints(rng, hi=3), "ys": ints(rng, hi=3)})
case(C + "product_small", params={"x": INT, "y": INT}, returns=List(INT),
     ensures={"exact": "result == [x * 10 + y, x * 10 + 4, 20 + y, 24]"},
     canaries={"inner-first": "result == [x * 10 + y, 20 + y, x * 10 + 4, 24]", "short": "len(result) == 2"},
     gen=lambda rng: {"x": rng.randint(0, 9), "y": rng.randint(0, 9)})

# ---- sorted(d.items()) with tuple keys (round 4) ------------------------------------------------------------------------------------
case(C + "sorted_items_tuple_keys", params={"d": Dict(TupleOf(STR), INT)}, returns=List(TupleOf(STR)), locals={"out": List(TupleOf(STR))}, sorted_axioms=True, portfolio=["cvc5"],
     ensures={"len": "len(result) == len(d)", "keys": "all(k in d for k in result)", "by-key": "all(result[j] == sorted(d)[j] for j in range(len(result)))",
              "stable-term": "all(sorted(d.items())[j][1] == d[sorted(d)[j]] for j in range(len(d)))"},
     canaries={"empty": "len(result) == 0", "by-value": "all(d[result[j]] <= d[result[j + 1]] for j in range(len(result) - 1))"},
     loops={"for (k, v) in sorted(d.items())": Loop(index="i", invariants={"n": "len(out) == i", "in": "all(k in d for k in out)",
                                                                             "eq": "all(out[j] == sorted(d)[j] for j in range(i))"})},
     gen=lambda rng: {"d": [[list(rng.sample(["a", "b", "c"], rng.randint(0, 2))), rng.randint(0, 3)] for _ in range(rng.randint(0, 3))]},
     build=lambda dd: {"d": {tuple(k): v for k, v in dd["d"]}})

# ---- list.extend(<dict view>), `for` over a generator expression, de-duplicating extend from a view (round 4) -------------------
case(C + "extend_views", params={"d": Dict(STR, INT), "xs": List(INT)}, returns=Tuple(List(INT), INT, List(INT)), locals={"n": INT, "seen": List(INT)},
     requires=["all(x >= 0 for x in xs)"],
     ensures={"len": "len(result[0]) == len(xs) + len(d)", "vals": "all(d[k] in result[0] for k in d)", "n": "result[1] >= len(xs)",
              "seen": "all(d[k] in result[2] for k in d)", "seen-bound": "len(result[2]) <= len(d)"},
     canaries={"no-growth": "len(result[0]) == len(xs)", "n-zero": "result[1] == 0", "seen-all": "len(result[2]) == len(d)"},
     loops={"for v in (x + 1 for x in xs)": Loop(index="i", invariants={"n": "n >= i"})},
     portfolio=["cvc5"],
     gen=lambda rng: {"d": sdict(rng), "xs": ints(rng, a=0, b=3)})

# ---- dict comprehension with two `for` clauses over a symbolic dict: under-specified result (round 4) ---------------------------
case(C + "invert_classes", params={"classes": Dict(STR, TupleOf(STR))}, returns=Dict(STR, STR),
     ensures={"dom": "all(all(classes[n][j] in result for j in range(len(classes[n]))) for n in classes)",
              "sound": "all(result[g] in classes and g in classes[result[g]] for g in result)",
              "only": "all(any(g in classes[n] for n in classes) for g in result)"},
     canaries={"empty": "len(result) == 0", "every-class-wins": "all(all(result[classes[n][j]] == n for j in range(len(classes[n]))) for n in classes)"},
     gen=lambda rng: {"classes": {k: list(rng.sample(["a", "b", "c"], rng.randint(0, 2))) for k in rng.sample(["x", "y", "z"], rng.randint(0, 3))}},
     build=lambda d: {"classes": {k: tuple(v) for k, v in d["classes"].items()}})

# ---- len(S) == 1 from "x in S and everything in S is x" (choice-function fact of only(S); round 4) ---------------------------------
case(C + "all_same_len", params={"s": Set(STR), "x": STR}, returns=INT, requires=["x in s", "all(g == x for g in s)"],
     ensures={"one": "result == 1"}, canaries={"two": "result == 2"},
     gen=lambda rng: {"x": rng.choice(["a", "b"])}, build=lambda d: {"s": {d["x"]}, "x": d["x"]})
case(C + "all_same_len", name="maybe-empty", params={"s": Set(STR), "x": STR}, returns=INT, requires=["all(g == x for g in s)"],
     ensures={"at-most-one": "result <= 1"}, canaries={"one": "result == 1"},
     gen=lambda rng: {"x": "a", "e": rng.random() < 0.5}, build=lambda d: {"s": set() if d["e"] else {d["x"]}, "x": d["x"]})
case(C + "singleton_len", params={"x": STR}, returns=INT, ensures={"one": "result == 1"}, canaries={"zero": "result == 0"},
     gen=lambda rng: {"x": rng.choice(["a", "b"])})

# ---- `[c] * n` with a symbolic count: fresh list of that length, every element c (round 4) ----------------------------------------
case(C + "repeat_none", params={"xs": List(INT)}, returns=Tuple(List(Opt(INT)), List(INT)), locals={"out": List(Opt(INT))},
     ensures={"len": "len(result[0]) == len(xs) and len(result[1]) == len(xs)", "none": "all(result[0][i] is None for i in range(len(xs)))",
              "zero": "all(z == 0 for z in result[1])"},
     canaries={"some": "len(xs) > 0 and result[0][0] is not None", "one": "len(result[1]) == 1", "ones": "all(z == 1 for z in result[1])"},
     gen=lambda rng: {"xs": ints(rng)})
