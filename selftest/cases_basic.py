"""Regression cases for features the engine had before the self-tests existed."""


class STCounter:
    def __init__(self, count=0, label=""):
        self.count = count
        self.label = label


class STNode:
    def __init__(self, value=0):
        self.value = value
        self.tag = ""


def sum_to(xs):
    total = 0
    for x in xs:
        total = total + x
    return total


def count_pos(xs):
    n = 0
    for x in xs:
        if x > 0:
            n += 1
    return n


def dict_total(d):
    t = 0
    for k, v in d.items():
        t += v
    return t


def dict_keys_copy(d):
    out = []
    for k in d:
        out.append(k)
    return out


def opt_default(x, dflt):
    if x is None:
        return dflt
    return x + 1


def opt_deref(x):
    return x + 1


def bump(c, by):
    c.count = c.count + by
    return c.count


def bump_two(a, b):
    a.count = a.count + 1
    b.count = b.count + 1
    return a.count


def make_node(v):
    n = STNode(v)
    return n


def make_two(v):
    a = STNode(v)
    b = STNode(v + 1)
    a.tag = "a"
    return [a, b]


def push(xs, x):
    xs.append(x)


def push_twice(xs, x):
    push(xs, x)
    push(xs, x + 1)
    return len(xs)


def lookup(d, k):
    return d[k]


def lookup_safe(d, k):
    if k in d:
        return d[k]
    return -1


def first(xs):
    return xs[0]


def while_down(n):
    k = n
    steps = 0
    while k > 0:
        k -= 1
        steps += 1
    return steps


def loop_field(c, xs):
    for x in xs:
        c.count = c.count + 1
    return c.count


def loop_untouched_field(c, xs):
    # `count` is not mentioned before the loop anywhere in the contract: the loop's write must still be seen
    for x in xs:
        c.count = c.count + 1


def set_ops(a, b):
    return (a | b) - (a & b)


def str_ops(s, t):
    if s.startswith("x"):
        return s + t
    return t + s


def branchy(x, y):
    if x > y:
        m = x
    else:
        m = y
    return m


def try_lookup(d, k):
    try:
        v = d[k]
    except KeyError:
        v = 0
    return v


def raise_if_neg(x):
    if x < 0:
        raise ValueError("negative")
    return x


def sneaky_field(c):
    c.count = c.count + 1
    return 0


def sneaky_param(xs):
    xs.append(1)
    return 0


def sneaky_loop(xs, ys):
    for y in ys:
        xs.append(y)
    return 0


def rebind_param(xs):
    xs = xs + [1]
    xs.append(2)
    return len(xs)


def own_object_store(v):
    n = STNode(v)
    n.tag = "mine"
    return n.value


def guarded_push(xs, flag):
    flag and push(xs, 1)
    return len(xs)


def guarded_bump(c, flag):
    r = bump(c, 1) if flag else 0
    return r


def visit(name, visited=None):
    if visited is None:
        visited = set()
    visited.add(name)
    return len([name])


def needs_existing(n):
    return n.value


def make_and_use(v):
    n = STNode(v)
    return needs_existing(n)


def pair_of(a, b):
    return (a, b)


def use_pair(a, v):
    p = pair_of(a, None)
    n = STNode(v)
    n.tag = "new"
    return p[0].tag


def opt_or_default(x):
    # round 4: `a or b` with a: Optional[str], b: str is a str
    y = x or ""
    return y + "!"


def opt_or_len(x, d):
    return len(x or d)


def pylist_concat(a, b, zs):
    # round 4: python-level list displays with symbolic elements, concatenated with each other and with a symbolic list
    head = [a] + [b, a]
    out = head + zs
    out2 = zs + [b]
    return out, out2, (a,) + (b,)


def opt_param_narrow(d, key):
    # round 4 (C03 #5): an Optional PARAMETER is narrowed by `if key is not None:`
    if key is not None:
        return d[key]
    return 0


def opt_param_narrow_early(d, key):
    if key is None:
        return 0
    return d[key]


def any_const_guard(c, xs, include=lambda g: True):
    # round 4 (C13 #11): `any(<constant True> ...)` is "xs is not empty" (no quantifier); a guard implied by the path
    # condition does not make the effects of the guarded call conditional
    r = 0
    if any(include(g) for g in xs) and bump(c, 1) > 0:
        r = 1
    return r


def witness_transfer(xs, ys):
    # round 4 (C03 #6): carrier of a `same-witnesses:` hint
    z = 0
    return z


def two_types(xs):
    # round 4: one local name, two types; the second assignment is declared as "r@L<line>"
    r = []
    for x in xs:
        r.append(x)
    n = len(r)
    r = {k: [] for k in xs}
    return n + len(r)
