#!/bin/sh
# offline: overlay venv (python 3.12) with the solver/tooling wheels, sharing /venv's site-packages
set -e
cd "$(dirname "$0")"
rm -rf .venv
/venv/bin/python -m venv .venv
.venv/bin/pip install -q --no-index --find-links /opt/veriftools/wheels z3-solver cvc5 crosshair-tool deal icontract hypothesis jsonschema
echo "import site; site.addsitedir('/venv/lib/python3.12/site-packages')" > .venv/lib/python3.12/site-packages/_repo_overlay.pth
.venv/bin/python -W ignore -c "import z3, ufo2ft; print('setup ok', z3.get_version_string())"
