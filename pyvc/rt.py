"""Run-time interpreter of contract clauses (CPython side of the two-interpreter design).

Used for (a) the cross-check: every clause must hold on the real function for an enumerated
small scope on the unchanged tree; (b) refutation/replay: when an obligation is not
discharged, a real failing input is searched here and written to a replay file.
"""
from __future__ import annotations

import ast
import copy
import importlib
import json
import traceback

from . import api
from . import ty as T


# id(snapshot copy made for old(...)) -> the original object: object IDENTITY survives old() (the logic compares
# references; natively old() has to deep-copy because the real objects are mutated in place)
_ORIG: dict = {}


def unwrap(x):
    return object.__getattribute__(x, "_obj") if isinstance(x, Proxy) else x


def canon(x):
    x = unwrap(x)
    return _ORIG.get(id(x), x)


def same(a, b):
    """`a is b` of the clause language: identity of the underlying objects (through proxies and old()-snapshots)."""
    return canon(a) is canon(b)


class Proxy:
    """Abstract view of a real object through a ClassSpec (`views`: field -> callable)."""

    def __init__(self, obj, cs):
        object.__setattr__(self, "_obj", obj)
        object.__setattr__(self, "_cs", cs)

    def __getattr__(self, name):
        cs = object.__getattribute__(self, "_cs")
        obj = object.__getattribute__(self, "_obj")
        if name in cs.views:
            return cs.views[name](obj)
        if name.startswith("__") and name.endswith("__"):
            raise AttributeError(name)  # copy/pickle protocol probes must not reach the wrapped object
        v = getattr(obj, name)
        ft = cs.fields.get(name)
        if ft is not None:
            return wrap(v, ft)  # nested objects (also inside lists / dicts / tuples) are seen through their own class vocabulary
        return v

    def __deepcopy__(self, memo):
        return Proxy(copy.deepcopy(object.__getattribute__(self, "_obj"), memo), object.__getattribute__(self, "_cs"))

    def __eq__(self, o):
        return canon(self) is canon(o)

    def __ne__(self, o):
        return canon(self) is not canon(o)

    def __hash__(self):
        return id(canon(self))

    @property
    def __class__(self):  # isinstance(proxy, RealClass) holds (type(proxy) is still Proxy)
        return type(object.__getattribute__(self, "_obj"))

    def __bool__(self):
        return bool(object.__getattribute__(self, "_obj"))

    def __getitem__(self, k):
        return object.__getattribute__(self, "_obj")[k]

    def __contains__(self, k):
        return k in object.__getattribute__(self, "_obj")

    def __iter__(self):
        return iter(object.__getattribute__(self, "_obj"))

    def __len__(self):
        return len(object.__getattribute__(self, "_obj"))


def implies(a, b):
    return (not a) or bool(b)


def iff(a, b):
    return bool(a) == bool(b)


def ite(c, a, b):
    return a if c else b


def elems(xs):
    return set(xs)


def distinct(xs):
    xs = list(xs)
    return len(set(map(repr, xs))) == len(xs) if any(isinstance(x, (list, dict, set)) for x in xs) else len(set(xs)) == len(xs)


class _Lazy(ast.NodeTransformer):
    """implies(a, b) / ite(c, a, b) must not evaluate the guarded operand eagerly at run time."""

    def visit_Call(self, node):
        self.generic_visit(node)
        if isinstance(node.func, ast.Name) and node.func.id == "implies" and len(node.args) == 2:
            return ast.copy_location(ast.BoolOp(op=ast.Or(), values=[ast.UnaryOp(op=ast.Not(), operand=node.args[0]), node.args[1]]), node)
        if isinstance(node.func, ast.Name) and node.func.id == "ite" and len(node.args) == 3:
            return ast.copy_location(ast.IfExp(test=node.args[0], body=node.args[1], orelse=node.args[2]), node)
        return node


def parse_clause(src):
    tree = _Lazy().visit(ast.parse(src.strip(), mode="eval"))
    ast.fix_missing_locations(tree)
    return tree


def _target_names(t):
    return {n.id for n in ast.walk(t) if isinstance(n, ast.Name)}


class _OldRewriter(ast.NodeTransformer):
    """old(e) -> __oldK (a value computed in the pre-state).  When `e` mentions variables bound by an enclosing
    comprehension / quantifier of the clause, old(e) becomes the call __oldK(v1, ..) of a pre-state FUNCTION of
    those variables (evaluated against a snapshot of the arguments taken before the call).
    `a is b` / `a is not b` between non-constants become identity of the underlying objects (rt.same)."""

    def __init__(self):
        self.olds = []  # (expression, [bound variable names])
        self.scopes = []

    def _comp(self, node):
        names = set()
        for g in node.generators:
            names |= _target_names(g.target)
        # the first iterable is evaluated in the enclosing scope
        node.generators[0].iter = self.visit(node.generators[0].iter)
        self.scopes.append(names)
        try:
            for i, g in enumerate(node.generators):
                if i:
                    g.iter = self.visit(g.iter)
                g.ifs = [self.visit(c) for c in g.ifs]
            if isinstance(node, ast.DictComp):
                node.key = self.visit(node.key)
                node.value = self.visit(node.value)
            else:
                node.elt = self.visit(node.elt)
        finally:
            self.scopes.pop()
        return node

    visit_GeneratorExp = visit_ListComp = visit_SetComp = visit_DictComp = _comp

    def visit_Lambda(self, node):
        self.scopes.append({a.arg for a in node.args.args})
        try:
            node.body = self.visit(node.body)
        finally:
            self.scopes.pop()
        return node

    def visit_Compare(self, node):
        self.generic_visit(node)
        if len(node.ops) == 1 and isinstance(node.ops[0], (ast.Is, ast.IsNot)):
            r = node.comparators[0]
            if not (isinstance(r, ast.Constant) or isinstance(node.left, ast.Constant)):
                call = ast.Call(func=ast.Name(id="__same", ctx=ast.Load()), args=[node.left, r], keywords=[])
                if isinstance(node.ops[0], ast.IsNot):
                    call = ast.UnaryOp(op=ast.Not(), operand=call)
                return ast.copy_location(call, node)
        return node

    def visit_Call(self, node):
        if isinstance(node.func, ast.Name) and node.func.id == "old" and len(node.args) == 1:
            k = len(self.olds)
            e = node.args[0]
            bound = set().union(*self.scopes) if self.scopes else set()
            used = sorted({n.id for n in ast.walk(e) if isinstance(n, ast.Name)} & bound)
            self.olds.append((e, used))
            if used:
                call = ast.Call(func=ast.Name(id=f"__old{k}", ctx=ast.Load()), args=[ast.Name(id=u, ctx=ast.Load()) for u in used], keywords=[])
                return ast.copy_location(call, node)
            return ast.copy_location(ast.Name(id=f"__old{k}", ctx=ast.Load()), node)
        return self.generic_visit(node)


class _OldFn:
    """old(e) with bound variables: e evaluated in a pre-state snapshot, with the bound variables supplied later
    (objects among them are translated to their snapshot copies, so that their PRE-state fields are read)."""

    def __init__(self, expr, names, snap_env, memo):
        self.code = compile(ast.fix_missing_locations(ast.Expression(expr)), "<old>", "eval")
        self.names = names
        self.env = snap_env
        self.memo = memo

    def __call__(self, *args):
        e = dict(self.env)
        for n, a in zip(self.names, args):
            raw = unwrap(a)
            cp = self.memo.get(id(raw))
            if cp is not None:
                a = Proxy(cp, object.__getattribute__(a, "_cs")) if isinstance(a, Proxy) else cp
            e[n] = a
        return eval(self.code, e)


def _native_fresh(pre_ids):
    def fresh(x):
        """fresh(x): the object did not exist (was not reachable from the arguments) before the call"""
        x = canon(x)
        if x is None or isinstance(x, (int, float, str, bytes, bool, type)):
            return False  # not objects in the sense of the allocation model (None is never fresh)
        return id(x) not in pre_ids

    return fresh


def _reachable_ids(roots, limit=200000):
    """ids of the objects reachable from the arguments (attributes, container elements) + the objects themselves
    (kept alive by the caller for the duration of the case, so ids are not reused)."""
    seen = {}
    stack = [unwrap(r) for r in roots]
    while stack and len(seen) < limit:
        o = stack.pop()
        if id(o) in seen or isinstance(o, (int, float, str, bytes, bool, type(None), type)):
            continue
        seen[id(o)] = o
        try:
            if isinstance(o, dict):
                stack.extend(o.keys())
                stack.extend(o.values())
            elif isinstance(o, (list, tuple, set, frozenset)):
                stack.extend(o)
            else:
                d = getattr(o, "__dict__", None)
                if isinstance(d, dict):
                    stack.extend(d.values())
                for sl in getattr(type(o), "__slots__", ()) or ():
                    if isinstance(sl, str) and hasattr(o, sl):
                        stack.append(getattr(o, sl))
        except Exception:  # noqa
            continue
    return seen


def _has_ref(t):
    if isinstance(t, T.Ref):
        return t.cls in api.CLASSES
    if isinstance(t, (T.Opt,)):
        return _has_ref(t.inner)
    if isinstance(t, (T.List, T.Set)):
        return _has_ref(t.elem)
    if isinstance(t, (T.Dict, T.Map)):
        return _has_ref(t.v) or _has_ref(t.k)
    if isinstance(t, T.Tuple):
        return any(_has_ref(i) for i in t.items)
    return False


def wrap(v, t):
    """The real value `v` seen at declared type `t`: objects of declared classes become proxies, also below
    the top level (elements of lists / tuples / sets, values of dicts, Optional)."""
    if v is None or isinstance(v, Proxy):
        return v
    if isinstance(t, T.Ref):
        return Proxy(v, api.CLASSES[t.cls]) if t.cls in api.CLASSES else v
    if isinstance(t, T.Opt):
        return wrap(v, t.inner)
    if not _has_ref(t):
        return v
    try:
        if isinstance(t, T.List) and isinstance(v, (list, tuple)):
            return type(v)(wrap(x, t.elem) for x in v) if type(v) in (list, tuple) else [wrap(x, t.elem) for x in v]
        if isinstance(t, T.Set) and isinstance(v, (set, frozenset)):
            return {wrap(x, t.elem) for x in v}
        if isinstance(t, (T.Dict, T.Map)) and isinstance(v, dict):
            return {wrap(k, t.k): wrap(x, t.v) for k, x in v.items()}
        if isinstance(t, T.Tuple) and isinstance(v, tuple) and len(v) == len(t.items) and type(v) is tuple:
            return tuple(wrap(x, it) for x, it in zip(v, t.items))
    except Exception:  # noqa  -- an exotic container: leave it as it is
        return v
    return v


def base_env(c: api.FnContract):
    env = {"implies": implies, "iff": iff, "ite": ite, "elems": elems, "distinct": distinct}
    for n, sf in api.SPECFNS.items():
        env[n] = sf.fn
    from .core import Val

    for n, g in c.globals.items():
        if isinstance(g, Val) and not callable(g):
            # a symbolic-side binding (trusted model / typed symbol): it means nothing natively.  Constants are
            # unwrapped; anything else is left out, so that a re-bound builtin (`len`, `any`, ..) is the real one.
            from .ops import _has_val

            if g.is_py and isinstance(g.py, (int, float, str, bool, type(None), tuple, list, dict, set, frozenset)) and not _has_val(g.py):
                env[n] = g.py
            continue
        env[n] = g
    env.setdefault("allocated", lambda x: True)
    env["__same"] = same
    # module globals of the verified function (enum classes, constants): the symbolic side resolves free names of a clause
    # there as well; lowest priority
    try:
        mod = importlib.import_module(c.target.split("#")[0].split(":")[0])
        for n, g in vars(mod).items():
            if not n.startswith("__"):
                env.setdefault(n, g)
    except Exception:  # noqa
        pass
    return env


class ClauseFailure(Exception):
    pass


def resolve(target: str):
    modname, qual = target.split("#")[0].split(":")
    o = importlib.import_module(modname)
    owner = None
    for p in qual.split("."):
        owner = o
        o = getattr(o, p) if not isinstance(o, dict) else o[p]
    return o, owner


def run_case(c: api.FnContract, args: dict, call=None):
    """Execute the real function on `args`; evaluate requires / ensures / raises.

    Returns dict(status=ok|skip|fail, clause=..., detail=...)."""
    fn, owner = resolve(c.target)
    env0 = base_env(c)
    pre_args = {}
    for n, v in args.items():
        t = c.params.get(n)
        pre_args[n] = wrap(v, t) if t is not None and not isinstance(t, api.Const) else v
    for n, t in c.params.items():
        if isinstance(t, api.Const) and n not in args:
            args[n] = t.value
            pre_args[n] = t.value
    _ORIG.clear()
    pre_objs = _reachable_ids(list(args.values()))
    env0.setdefault("fresh", _native_fresh(set(pre_objs)))
    env = dict(env0)
    env.update(pre_args)

    def _prep(src, what):
        rw = _OldRewriter()
        tree = rw.visit(parse_clause(src))
        ast.fix_missing_locations(tree)
        return rw, compile(tree, what, "eval")

    for r in c.requires:
        try:
            if not eval(_prep(r, "<requires>")[1], env):
                return {"status": "skip"}
        except Exception as e:  # noqa
            return {"status": "skip", "detail": f"requires raised {e!r}"}
    # pre-evaluate old(...) sub-expressions and raises-conditions in the pre-state
    compiled = {}
    memo = {}  # one memo for every snapshot of this case: shared sub-objects stay shared, identities can be mapped back
    snap_env = None
    for nm, e in list(c.ensures.items()) + [("bounded:" + k, v) for k, v in c.bounded_ensures.items()]:
        rw, code = _prep(e, "<ensures>")
        vals = {}
        for k, (on, used) in enumerate(rw.olds):
            try:
                if used:
                    if snap_env is None:
                        snap_env = dict(env0)
                        snap_env.update({n: copy.deepcopy(v, memo) for n, v in pre_args.items()})
                    vals[f"__old{k}"] = _OldFn(on, used, snap_env, memo)
                else:
                    vals[f"__old{k}"] = copy.deepcopy(eval(compile(ast.fix_missing_locations(ast.Expression(on)), "<old>", "eval"), env), memo)
            except Exception as ex:  # noqa
                vals[f"__old{k}"] = ex
        compiled[nm] = (code, vals)
    originals = {id(o): o for o in memo.get(id(memo), [])}
    for oid, cp in list(memo.items()):
        if oid in originals and cp is not originals[oid]:
            _ORIG[id(cp)] = originals[oid]
    raise_conds = {}
    for exc, cnd in c.raises.items():
        try:
            rw_, code_ = _prep(cnd, "<raises>")
            # a raises condition is a PRE-state formula: old(e) inside it is e (evaluated right here, before the call)
            olds_ = {}
            for k, (on, used) in enumerate(rw_.olds):
                olds_[f"__old{k}"] = _OldFn(on, used, dict(env), {}) if used else eval(compile(ast.fix_missing_locations(ast.Expression(on)), "<old>", "eval"), env)
            raise_conds[exc] = bool(eval(code_, {**env, **olds_}) if olds_ else eval(code_, env))
        except Exception as ex:  # noqa
            raise_conds[exc] = ex
    # call
    try:
        if call is not None:
            result = call(fn, args)
        else:
            result = fn(**args)
        import inspect as _inspect

        if _inspect.isgenerator(result):
            result = list(result)  # a generator function's contract speaks about the list of yielded values
        raised = None
    except Exception as ex:  # noqa
        raised = ex
        result = None
    if raised is not None:
        nm = type(raised).__name__
        names = {k.__name__ for k in type(raised).__mro__}
        hit = [e for e in c.raises if e in names]
        if not hit:
            return {"status": "fail", "clause": f"raises.unexpected-{nm}", "detail": "".join(traceback.format_exception_only(type(raised), raised)).strip()}
        if raise_conds[hit[0]] is not True:
            return {"status": "fail", "clause": f"raises.{hit[0]}", "detail": f"raised although condition is {raise_conds[hit[0]]!r}: {c.raises[hit[0]]}"}
        return {"status": "ok", "raised": nm}
    for exc, v in raise_conds.items():
        if v is True:
            return {"status": "fail", "clause": f"raises.no-{exc}", "detail": f"returned normally although: {c.raises[exc]}"}
    env = dict(env0)
    env.update(pre_args)
    env["result"] = wrap(result, c.returns) if c.returns is not None else result
    for nm, (code, vals) in compiled.items():
        e2 = dict(env)
        e2.update(vals)
        try:
            ok = eval(code, e2)
        except Exception as ex:  # noqa
            return {"status": "fail", "clause": f"post.{nm}", "detail": f"clause raised {ex!r}"}
        if not ok:
            return {"status": "fail", "clause": f"post.{nm}", "detail": f"false: {c.ensures.get(nm) or c.bounded_ensures.get(nm[8:])}", "result": repr(result)[:500]}
    return {"status": "ok"}
