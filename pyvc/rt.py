"""Run-time interpreter of contract clauses (CPython side of the two-interpreter design).

Used for (a) the cross-check: every clause must hold on the real function for an enumerated
small scope on the unchanged tree; (b) refutation/replay: when an obligation is not
discharged, a real failing input is searched here and written to a replay file.
"""
from __future__ import annotations

import ast
import copy
import importlib
import json
import traceback

from . import api
from . import ty as T


class Proxy:
    """Abstract view of a real object through a ClassSpec (`views`: field -> callable)."""

    def __init__(self, obj, cs):
        object.__setattr__(self, "_obj", obj)
        object.__setattr__(self, "_cs", cs)

    def __getattr__(self, name):
        cs = object.__getattribute__(self, "_cs")
        obj = object.__getattribute__(self, "_obj")
        if name in cs.views:
            return cs.views[name](obj)
        v = getattr(obj, name)
        ft = cs.fields.get(name)
        if isinstance(ft, T.Opt):
            ft = ft.inner
        if isinstance(ft, T.Ref) and ft.cls in api.CLASSES and v is not None and not isinstance(v, Proxy):
            return Proxy(v, api.CLASSES[ft.cls])  # nested objects are seen through their own class vocabulary
        return v

    def __eq__(self, o):
        a = object.__getattribute__(self, "_obj")
        b = object.__getattribute__(o, "_obj") if isinstance(o, Proxy) else o
        return a is b

    def __hash__(self):
        return id(object.__getattribute__(self, "_obj"))

    def __getitem__(self, k):
        return object.__getattribute__(self, "_obj")[k]

    def __contains__(self, k):
        return k in object.__getattribute__(self, "_obj")

    def __iter__(self):
        return iter(object.__getattribute__(self, "_obj"))

    def __len__(self):
        return len(object.__getattribute__(self, "_obj"))


def implies(a, b):
    return (not a) or bool(b)


def iff(a, b):
    return bool(a) == bool(b)


def ite(c, a, b):
    return a if c else b


def elems(xs):
    return set(xs)


def distinct(xs):
    xs = list(xs)
    return len(set(map(repr, xs))) == len(xs) if any(isinstance(x, (list, dict, set)) for x in xs) else len(set(xs)) == len(xs)


class _Lazy(ast.NodeTransformer):
    """implies(a, b) / ite(c, a, b) must not evaluate the guarded operand eagerly at run time."""

    def visit_Call(self, node):
        self.generic_visit(node)
        if isinstance(node.func, ast.Name) and node.func.id == "implies" and len(node.args) == 2:
            return ast.copy_location(ast.BoolOp(op=ast.Or(), values=[ast.UnaryOp(op=ast.Not(), operand=node.args[0]), node.args[1]]), node)
        if isinstance(node.func, ast.Name) and node.func.id == "ite" and len(node.args) == 3:
            return ast.copy_location(ast.IfExp(test=node.args[0], body=node.args[1], orelse=node.args[2]), node)
        return node


def parse_clause(src):
    tree = _Lazy().visit(ast.parse(src.strip(), mode="eval"))
    ast.fix_missing_locations(tree)
    return tree


class _OldRewriter(ast.NodeTransformer):
    def __init__(self):
        self.olds = []

    def visit_Call(self, node):
        if isinstance(node.func, ast.Name) and node.func.id == "old" and len(node.args) == 1:
            k = len(self.olds)
            self.olds.append(node.args[0])
            return ast.copy_location(ast.Name(id=f"__old{k}", ctx=ast.Load()), node)
        return self.generic_visit(node)


def wrap(v, t):
    if isinstance(t, T.Ref) and t.cls in api.CLASSES and not isinstance(v, Proxy):
        return Proxy(v, api.CLASSES[t.cls])
    if isinstance(t, T.Opt) and v is not None:
        return wrap(v, t.inner)
    return v


def base_env(c: api.FnContract):
    env = {"implies": implies, "iff": iff, "ite": ite, "elems": elems, "distinct": distinct}
    for n, sf in api.SPECFNS.items():
        env[n] = sf.fn
    for n, g in c.globals.items():
        env[n] = g
    return env


class ClauseFailure(Exception):
    pass


def resolve(target: str):
    modname, qual = target.split("#")[0].split(":")
    o = importlib.import_module(modname)
    owner = None
    for p in qual.split("."):
        owner = o
        o = getattr(o, p) if not isinstance(o, dict) else o[p]
    return o, owner


def run_case(c: api.FnContract, args: dict, call=None):
    """Execute the real function on `args`; evaluate requires / ensures / raises.

    Returns dict(status=ok|skip|fail, clause=..., detail=...)."""
    fn, owner = resolve(c.target)
    env0 = base_env(c)
    pre_args = {}
    for n, v in args.items():
        t = c.params.get(n)
        pre_args[n] = wrap(v, t) if t is not None and not isinstance(t, api.Const) else v
    for n, t in c.params.items():
        if isinstance(t, api.Const) and n not in args:
            args[n] = t.value
            pre_args[n] = t.value
    env = dict(env0)
    env.update(pre_args)
    for r in c.requires:
        try:
            if not eval(compile(parse_clause(r), "<requires>", "eval"), env):
                return {"status": "skip"}
        except Exception as e:  # noqa
            return {"status": "skip", "detail": f"requires raised {e!r}"}
    # pre-evaluate old(...) sub-expressions and raises-conditions in the pre-state
    compiled = {}
    oldvals = {}
    for nm, e in list(c.ensures.items()) + [("bounded:" + k, v) for k, v in c.bounded_ensures.items()]:
        rw = _OldRewriter()
        tree = rw.visit(parse_clause(e))
        ast.fix_missing_locations(tree)
        vals = {}
        for k, on in enumerate(rw.olds):
            try:
                vals[f"__old{k}"] = copy.deepcopy(eval(compile(ast.Expression(on), "<old>", "eval"), env))
            except Exception as ex:  # noqa
                vals[f"__old{k}"] = ex
        compiled[nm] = (compile(tree, "<ensures>", "eval"), vals)
    raise_conds = {}
    for exc, cnd in c.raises.items():
        try:
            raise_conds[exc] = bool(eval(compile(parse_clause(cnd), "<raises>", "eval"), env))
        except Exception as ex:  # noqa
            raise_conds[exc] = ex
    # call
    try:
        if call is not None:
            result = call(fn, args)
        else:
            result = fn(**args)
        raised = None
    except Exception as ex:  # noqa
        raised = ex
        result = None
    if raised is not None:
        nm = type(raised).__name__
        names = {k.__name__ for k in type(raised).__mro__}
        hit = [e for e in c.raises if e in names]
        if not hit:
            return {"status": "fail", "clause": f"raises.unexpected-{nm}", "detail": "".join(traceback.format_exception_only(type(raised), raised)).strip()}
        if raise_conds[hit[0]] is not True:
            return {"status": "fail", "clause": f"raises.{hit[0]}", "detail": f"raised although condition is {raise_conds[hit[0]]!r}: {c.raises[hit[0]]}"}
        return {"status": "ok", "raised": nm}
    for exc, v in raise_conds.items():
        if v is True:
            return {"status": "fail", "clause": f"raises.no-{exc}", "detail": f"returned normally although: {c.raises[exc]}"}
    env = dict(env0)
    env.update(pre_args)
    env["result"] = wrap(result, c.returns) if c.returns is not None else result
    for nm, (code, vals) in compiled.items():
        e2 = dict(env)
        e2.update(vals)
        try:
            ok = eval(code, e2)
        except Exception as ex:  # noqa
            return {"status": "fail", "clause": f"post.{nm}", "detail": f"clause raised {ex!r}"}
        if not ok:
            return {"status": "fail", "clause": f"post.{nm}", "detail": f"false: {c.ensures.get(nm) or c.bounded_ensures.get(nm[8:])}", "result": repr(result)[:500]}
    return {"status": "ok"}
