"""Statements, loops (cut by contract invariants), iteration, comprehensions."""
from __future__ import annotations

import ast

import z3

from . import api, ops
from . import ty as T
from .core import PYOBJ, ContractMisfit, Outcome, PyMerge, SplitGuard, State, Unsupported, Val, coerce, fresh, fresh_name, join_types, lift, seq_nth
from .exprs import BoundMethod, Closure, bool_val, z_and, z_implies, z_not, z_or
from .ops import is_const, z3bool


def _load(t):
    import copy

    t2 = copy.deepcopy(t)
    for n in ast.walk(t2):
        if hasattr(n, "ctx"):
            n.ctx = ast.Load()
    return t2


import re as _re

_SAMEWIT = _re.compile(r"^\s*same-witnesses\s*:\s*(.+)$", _re.S)


def same_witnesses(g, text=""):
    """The tactic behind the hint form `same-witnesses: implies(A, B)`.

    A and B are walked in parallel through `and` / `or` / `exists` (positions where an existential occurs positively).
    Where both have an existential block with the same variable sorts, both blocks are replaced by the SAME fresh
    constants: in A this is Skolemisation (A => exists cs. A'), in B it is instantiation (B' => B).  The result
    A' => B' -- its fresh constants are free, i.e. universally quantified in the obligation -- therefore implies A => B,
    and no solver has to guess the witnesses.  Where the shapes differ the sub-formulas are left untouched (the
    obligation is then just as hard as before, never unsound)."""
    if not (z3.is_app(g) and g.decl().kind() == z3.Z3_OP_IMPLIES and g.num_args() == 2):
        raise ContractMisfit(f"hint '{text[:80]}': `same-witnesses:` needs a clause of the form implies(A, B)")
    hits = [0]

    def pair(a, b):
        if z3.is_quantifier(a) and z3.is_quantifier(b) and a.is_exists() and b.is_exists() and a.num_vars() == b.num_vars() \
                and all(a.var_sort(k) == b.var_sort(k) for k in range(a.num_vars())):
            cs = [z3.Const(fresh_name("wit_" + a.var_name(k).split("!")[0]), a.var_sort(k)) for k in range(a.num_vars())]
            hits[0] += 1
            return pair(z3.substitute_vars(a.body(), *reversed(cs)), z3.substitute_vars(b.body(), *reversed(cs)))
        if z3.is_app(a) and z3.is_app(b) and a.decl().kind() == b.decl().kind() and a.decl().kind() in (z3.Z3_OP_AND, z3.Z3_OP_OR) and a.num_args() == b.num_args():
            ps = [pair(x, y) for x, y in zip(a.children(), b.children())]
            mk = z3.And if a.decl().kind() == z3.Z3_OP_AND else z3.Or
            return mk(*[p[0] for p in ps]), mk(*[p[1] for p in ps])
        return a, b

    a2, b2 = pair(g.arg(0), g.arg(1))
    if not hits[0]:
        raise ContractMisfit(f"hint '{text[:80]}': `same-witnesses:` found no pair of existentials at matching positions of A and B")
    return z3.Implies(a2, b2)


_REBIND = _re.compile(r"^\s*([A-Za-z_][\w.]*)\s*:=\s*(.+)$", _re.S)


def _store(t):
    import copy

    t2 = copy.deepcopy(t)
    t2.ctx = ast.Store()
    return t2


_split_counter = [0]


def split_statement(node, top):
    """`if a and b: X else: Y`, `a and f(x)`, `r = a or f(x)`, `r = f(x) if c else y`, `return ..`: the same statement with the
    first guard as an explicit `if` (the rest of the expression is split again when it is executed)."""
    import copy

    def with_value(val):
        n2 = copy.copy(node)
        n2.value = val
        return n2

    def rest_of(bop):
        return bop.values[1] if len(bop.values) == 2 else ast.copy_location(ast.BoolOp(op=bop.op, values=bop.values[1:]), bop)

    if isinstance(top, ast.IfExp):
        if isinstance(node, ast.If):
            new = ast.If(test=top.test, body=[ast.copy_location(ast.If(test=top.body, body=node.body, orelse=node.orelse), node)],
                         orelse=[ast.copy_location(ast.If(test=top.orelse, body=node.body, orelse=node.orelse), node)])
        else:
            new = ast.If(test=top.test, body=[with_value(top.body)], orelse=[with_value(top.orelse)])
        return [ast.fix_missing_locations(ast.copy_location(new, node))]
    is_and = isinstance(top.op, ast.And)
    a, rest = top.values[0], rest_of(top)
    if isinstance(node, ast.If):
        inner = ast.copy_location(ast.If(test=rest, body=node.body, orelse=node.orelse), node)
        skip = node.orelse or [ast.copy_location(ast.Pass(), node)]
        new = ast.If(test=a, body=[inner], orelse=skip) if is_and else ast.If(test=a, body=node.body, orelse=[inner])
        return [ast.fix_missing_locations(ast.copy_location(new, node))]
    # value statements: the first operand is evaluated ONCE, into a temporary
    _split_counter[0] += 1
    tmp = f"_split_tmp{_split_counter[0]}"
    bind = ast.copy_location(ast.Assign(targets=[ast.Name(id=tmp, ctx=ast.Store())], value=a), node)
    tload = ast.copy_location(ast.Name(id=tmp, ctx=ast.Load()), node)
    if is_and:
        new = ast.If(test=tload, body=[with_value(rest)], orelse=[with_value(tload)])
    else:
        new = ast.If(test=tload, body=[with_value(tload)], orelse=[with_value(rest)])
    out = [bind, ast.copy_location(new, node)]
    for n in out:
        ast.fix_missing_locations(n)
    return out


def _safe_eq(x, y):
    try:
        return bool(x == y)
    except Exception:
        return False


def _names_of(target):
    return {n.id for n in ast.walk(target) if isinstance(n, ast.Name)}


def header_text(node):
    if isinstance(node, ast.For):
        return f"for {ast.unparse(node.target)} in {ast.unparse(node.iter)}"
    return f"while {ast.unparse(node.test)}"


class IterInfo:
    def __init__(self, kind, n=None, item=None, set_term=None, elem=None, items=None, facts=None, seqval=None):
        self.kind = kind  # concrete | indexed | set
        self.n = n
        self.item = item
        self.set_term = set_term
        self.elem = elem
        self.items = items
        self.facts = facts or (lambda i: [])
        self.seqval = seqval


def assigned_names(stmts):
    """Names (re)bound or mutated in place, and heap fields stored, by a statement list."""
    names, fields, calls = set(), set(), []

    class V(ast.NodeVisitor):
        def visit_Name(self, n):
            if isinstance(n.ctx, (ast.Store, ast.Del)):
                names.add(n.id)

        def visit_Attribute(self, n):
            if isinstance(n.ctx, (ast.Store, ast.Del)):
                fields.add(n.attr)
            self.generic_visit(n)

        def visit_Subscript(self, n):
            if isinstance(n.ctx, (ast.Store, ast.Del)):
                root = n.value
                while isinstance(root, (ast.Subscript,)):
                    root = root.value
                if isinstance(root, ast.Name):
                    names.add(root.id)
                elif isinstance(root, ast.Attribute):
                    fields.add(root.attr)
            self.generic_visit(n)

        def visit_AugAssign(self, n):
            t = n.target
            if isinstance(t, ast.Name):
                names.add(t.id)
            self.generic_visit(n)

        def visit_Call(self, n):
            f = n.func
            if isinstance(f, ast.Attribute):
                from .symex import MUTATORS

                if f.attr in MUTATORS:
                    root = f.value
                    while isinstance(root, ast.Subscript):
                        root = root.value
                    if isinstance(root, ast.Name):
                        names.add(root.id)
                    elif isinstance(root, ast.Attribute):
                        fields.add(root.attr)
            if isinstance(f, ast.Name) and f.id == "setattr":
                if len(n.args) >= 2 and isinstance(n.args[1], ast.Constant):
                    fields.add(n.args[1].value)
                else:
                    fields.add("*")
            calls.append(n)
            self.generic_visit(n)

        def visit_FunctionDef(self, n):
            names.add(n.name)

        def visit_Yield(self, n):
            names.add("__yield__")  # the hidden list of yielded values
            self.generic_visit(n)

        visit_YieldFrom = visit_Yield

        def visit_Lambda(self, n):
            pass

        def visit_ListComp(self, n):
            for g in n.generators:
                self.visit(g.iter)
            # comprehension targets are scoped

        visit_SetComp = visit_DictComp = visit_GeneratorExp = visit_ListComp

    v = V()
    for s in stmts:
        v.visit(s)
    return names, fields, calls


def rebound_names(stmts):
    """Names that a statement list (re)binds — as opposed to names whose value is only mutated in place
    (`x[k] = v`, `x.append(..)`), which `assigned_names` reports as well."""
    out = set()

    class V(ast.NodeVisitor):
        def visit_Name(self, n):
            if isinstance(n.ctx, (ast.Store, ast.Del)):
                out.add(n.id)

        def visit_FunctionDef(self, n):
            out.add(n.name)

        def visit_Lambda(self, n):
            pass

        def visit_ListComp(self, n):
            for g in n.generators:
                self.visit(g.iter)

        visit_SetComp = visit_DictComp = visit_GeneratorExp = visit_ListComp

    v = V()
    for s_ in stmts:
        v.visit(s_)
    return out


class StmtMixin:
    # ---- iteration protocol ---------------------------------------------------------------------------
    def need_positions(self, info, st):
        """the consumer is going to use the POSITIONS of a dict's key sequence (iteration order, indices, length of the view):
        only then are the well-formedness facts that tie the key list to the domain assumed (they are quantified facts over a
        sequence - of strings, typically - which is where z3 has answered `unsat` wrongly; consumers that only need the DOMAIN,
        like all(.. for k in d) or {k: v for k, v in d.items()}, do without them)"""
        nw = getattr(info, "need_wf", None)
        if nw is not None:
            from . import models

            models.dict_wf(st, nw[0], nw[1], self)
        return info

    def iter_info(self, v: Val, st, node, positions=True) -> IterInfo:
        from . import models

        v = self.deopt(v, st, node)
        if v.is_py and isinstance(v.py, tuple) and len(v.py) == 3 and v.py[0] == "genexp":
            # `for x in (f(y) for y in ys):` -- the generator is consumed whole, in order: the list comprehension
            return self.iter_info(models.materialize(self, v), st, node, positions)
        if v.is_py and isinstance(v.py, tuple) and len(v.py) == 3 and v.py[0] == "iterinfo":
            return self.need_positions(v.py[1], st) if positions else v.py[1]
        if v.is_py and isinstance(v.py, (list, tuple, range, set, frozenset, dict, str)):
            if isinstance(v.py, (set, frozenset)):
                try:
                    seq = sorted(v.py)
                except TypeError:
                    seq = list(v.py)
                # a concrete set constant: order is arbitrary in Python; only reachable for
                # module-level constants, where every order is explored symbolically if len > 1
                if len(seq) > 1 and not getattr(self, "_unroll_sets", False):
                    return IterInfo("set", set_term=lift(v), elem=v.ty.elem)
                items = seq
            elif isinstance(v.py, dict):
                items = list(v.py.keys())
            else:
                items = list(v.py)
            return IterInfo("concrete", items=[x if isinstance(x, Val) else Val.const(x) for x in items])
        t = v.ty
        if isinstance(t, T.List):
            s = lift(v)
            return IterInfo("indexed", n=z3.Length(s), item=lambda i: Val(t.elem, seq_nth(s, i)), seqval=v)
        if t == T.STR:
            s = lift(v)
            return IterInfo("indexed", n=z3.Length(s), item=lambda i: Val(T.STR, z3.SubString(s, i, 1)), seqval=v)
        if isinstance(t, T.Set):
            return IterInfo("set", set_term=lift(v), elem=t.elem)
        if isinstance(t, T.Tuple):
            # a (named) tuple value: fixed length, components by accessor
            sv = t.sort()
            return IterInfo("concrete", items=[Val(it, sv.accessor(0, k)(lift(v))) for k, it in enumerate(t.items)])
        if isinstance(t, T.Dict):
            d = t.sort()
            ks = d.keys(lift(v))
            dom = d.dom(lift(v))
            info = IterInfo(
                "indexed", n=z3.Length(ks), item=lambda i: Val(t.k, ks[i]),
                facts=lambda i: [z3.Select(dom, ks[i])], seqval=Val(T.List(t.k), ks),
            )
            info.dict_items = (t, lift(v), "keys")
            info.need_wf = (t, lift(v))
            return self.need_positions(info, st) if positions else info
        if isinstance(t, T.Ref):
            cs = self.class_of(t)
            if cs.iter is None:
                raise Unsupported(f"iteration over {t}", node)
            return cs.iter(self, st, v, node)
        raise Unsupported(f"iteration over {t}", node)

    def bind_target(self, target, v: Val, st, node):
        if isinstance(target, ast.Name):
            st.env[target.id] = v
            return
        if isinstance(target, (ast.Tuple, ast.List)):
            parts = self.unpack(v, len(target.elts), st, node)
            for tnode, pv in zip(target.elts, parts):
                self.bind_target(tnode, pv, st, node)
            return
        self.assign_target(target, v, st, node)

    def unpack(self, v: Val, n, st, node):
        v = self.deopt(v, st, node)  # unpacking None is a TypeError
        if v.is_py and isinstance(v.py, (tuple, list)):
            if len(v.py) != n:
                raise Unsupported("unpack arity", node)
            return [x if isinstance(x, Val) else Val.const(x) for x in v.py]
        if isinstance(v.ty, T.Tuple):
            if len(v.ty.items) != n:
                raise Unsupported("unpack arity", node)
            s = v.ty.sort()
            return [Val(it, s.accessor(0, i)(lift(v))) for i, it in enumerate(v.ty.items)]
        if isinstance(v.ty, T.List):
            s = lift(v)
            self.safety(st, z3.Length(s) == n, "ValueError", node)
            return [Val(v.ty.elem, s[i]) for i in range(n)]
        if isinstance(v.ty, T.Set) and n == 1 and not v.is_py and not self.qstack:
            # `(x,) = S` for a set: ValueError unless S has exactly one element; x is that element
            S = lift(v)
            es = v.ty.elem.sort()
            e = z3.Const(fresh_name("only"), es)
            self.safety(st, z3.Exists([e], S == z3.SetAdd(z3.EmptySet(es), e)), "ValueError", node)
            x = fresh(v.ty.elem, "only")
            st.assume(S == z3.SetAdd(z3.EmptySet(es), x))
            xv = Val(v.ty.elem, x)
            if isinstance(v.ty.elem, (T.Ref, T.Opt, T.Tuple)):
                self.assume_allocated(st, xv)
            return [xv]
        raise Unsupported(f"unpacking {v.ty}", node)

    # ---- quantified generator forms --------------------------------------------------------------------------
    def quantified(self, which, gen, st):
        """all(...)/any(...) over a generator expression."""
        if len(gen.generators) != 1:
            raise Unsupported("nested generators in all/any", gen)
        g = gen.generators[0]
        src = self.eval(g.iter, st)
        info = self.iter_info(src, st, gen, positions=False)
        if getattr(info, "dict_items", None) is None:
            self.need_positions(info, st)
        sub = st.copy()
        if info.kind == "concrete":
            rs = []
            self.qnames.append(_names_of(g.target))
            try:
                for it in info.items:
                    s2 = st.copy()
                    s2.pc = st.pc
                    self.bind_target(g.target, it, s2, gen)
                    conds = [self.cond(c, s2) for c in g.ifs]
                    body = self.cond(gen.elt, s2)
                    rs.append(z_implies(z_and(*conds), body) if which == "all" else z_and(*conds, body))
            finally:
                self.qnames.pop()
            return bool_val(z_and(*rs) if which == "all" else z_or(*rs))
        dmeta = getattr(info, "dict_items", None)
        if dmeta is None and isinstance(src.ty, T.Dict) and not src.is_py:
            dmeta = (src.ty, lift(src), "keys")
        if dmeta is not None:
            # quantify over the domain, not over key positions
            dt, dterm, mode = dmeta
            x = fresh(dt.k, "qk")
            d = dt.sort()
            guard = z3.Select(d.dom(dterm), x)
            kv = Val(dt.k, x)
            vv = Val(dt.v, z3.Select(d.map(dterm), x))
            item = {"items": Val(PYOBJ, None, (kv, vv), True), "keys": kv, "values": vv}[mode]
            vars_ = [x]
        elif info.kind == "indexed" and getattr(info, "range", None) is not None:
            lo, hi = info.range
            i = z3.Int(fresh_name("qk"))
            guard = z3.And(i >= lo, i < hi)
            item = Val(T.INT, i)
            vars_ = [i]
        elif info.kind == "indexed":
            i = z3.Int(fresh_name("qi"))
            guard = z3.And(i >= 0, i < info.n)
            item = info.item(i)
            vars_ = [i]
        else:
            x = fresh(info.elem, "qx")
            guard = z3.Select(info.set_term, x)
            item = Val(info.elem, x)
            vars_ = [x]
        self.bind_target(g.target, item, sub, gen)
        mark = len(sub.pc)
        self.qstack.append((vars_, guard))
        self.qouter.append(st)
        self.qnames.append(_names_of(g.target))
        try:
            sub.pc.append(guard)
            conds = []
            for c in g.ifs:
                cv = self.cond(c, sub)
                conds.append(cv)
                if not isinstance(cv, bool):
                    sub.pc.append(cv)
            body = self.cond(gen.elt, sub)
        finally:
            self.qstack.pop()
            self.qouter.pop()
            self.qnames.pop()
        if isinstance(body, bool) and all(c is True for c in conds) and dmeta is None and info.kind == "indexed":
            # a constant body (`any(include(g) for g in glyphs)` with include = lambda g: True): no quantifier, just
            # "the iterable is (not) empty" -- such a formula is often the GUARD of conditional effects of a later call
            rng_ = getattr(info, "range", None)
            nonempty = (rng_[0] < rng_[1]) if rng_ is not None else (info.n > 0)
            if which == "all":
                return bool_val(True if body else z3.Not(nonempty))
            return bool_val(nonempty if body else False)
        if which == "all":
            return bool_val(z3.ForAll(vars_, z3bool(z_implies(z_and(guard, *conds), body))))
        return bool_val(z3.Exists(vars_, z3bool(z_and(guard, *conds, body))))

    def multi_comprehension(self, node, st, kind):
        """A comprehension with several `for` clauses.
        * the FIRST iterable has a concrete length: unrolled - one inner comprehension per item, joined in order
          (list: concatenation, set: union, dict: successive update);
        * otherwise, set comprehensions only: y in result <=> exists <all bound variables>. <all guards and filters> and y == elt."""
        import copy

        from . import models

        g0 = node.generators[0]
        src0 = self.eval(g0.iter, st)
        info0 = self.iter_info(src0, st, node, positions=False)
        if info0.kind == "concrete" and kind in ("list", "set", "dict"):
            inner = copy.copy(node)
            inner.generators = node.generators[1:]
            acc = None
            for it in info0.items:
                s2 = st.copy()
                s2.pc = st.pc
                self.bind_target(g0.target, it, s2, node)
                conds = [self.cond(c, s2) for c in g0.ifs]
                c = z_and(*conds)
                if c is False:
                    continue
                if c is not True:
                    raise Unsupported("symbolic filter on the concrete outer clause of a nested comprehension", node)
                self.qnames.append(_names_of(g0.target))
                try:
                    part = self.comprehension(inner, s2, kind)
                finally:
                    self.qnames.pop()
                if acc is None:
                    acc = part
                elif kind == "list":
                    acc = models.list_extend(self, acc, part, node)
                elif kind == "set":
                    acc = ops.binop(ast.BitOr(), acc, part, node) if not (is_const(acc) and is_const(part)) else Val.const(acc.py | part.py)
                else:
                    acc, _ = models.mutate(self, st, acc, "update", [part], {}, node)
            if acc is None:
                acc = {"list": Val(PYOBJ, None, [], True), "set": Val(PYOBJ, None, set(), True), "dict": Val(PYOBJ, None, {}, True)}[kind]
            return acc
        if kind not in ("set", "dict"):
            raise Unsupported(f"{kind} comprehension with several `for` clauses over a symbolic outer iterable", node)
        sub = st.copy()
        qvars, guards, pushed = [], [], 0
        try:
            for k, g in enumerate(node.generators):
                src = src0 if k == 0 else self.eval(g.iter, sub)
                info = info0 if k == 0 else self.iter_info(src, sub, node, positions=False)
                meta = getattr(info, "dict_items", None)
                if meta is None and isinstance(src.ty, T.Dict) and not src.is_py:
                    meta = (src.ty, lift(src), "keys")
                if info.kind == "concrete":
                    raise Unsupported("concrete inner iterable in a symbolic nested comprehension", node)
                if meta is not None:
                    dt, dterm, mode = meta
                    x = fresh(dt.k, "mk")
                    d = dt.sort()
                    guard = z3.Select(d.dom(dterm), x)
                    kv, vv = Val(dt.k, x), Val(dt.v, z3.Select(d.map(dterm), x))
                    item = {"items": Val(PYOBJ, None, (kv, vv), True), "keys": kv, "values": vv}[mode]
                    facts = []
                elif info.kind == "set":
                    x = fresh(info.elem, "mx")
                    guard = z3.Select(info.set_term, x)
                    item, facts = Val(info.elem, x), []
                else:
                    self.need_positions(info, st)
                    x = z3.Int(fresh_name("mi"))
                    guard = z3.And(x >= 0, x < info.n)
                    item, facts = info.item(x), info.facts(x)
                self.bind_target(g.target, item, sub, node)
                self.qstack.append(([x], guard))
                self.qouter.append(st)
                self.qnames.append(_names_of(g.target))
                pushed += 1
                qvars.append(x)
                sub.pc.append(guard)
                guards.append(guard)
                for f in facts:
                    sub.pc.append(f)
                for c in g.ifs:
                    cv = self.cond(c, sub)
                    if cv is True:
                        continue
                    cv = z3bool(cv)
                    sub.pc.append(cv)
                    guards.append(cv)
            if kind == "dict":
                elt = models._item_val(self.eval(node.key, sub))
                val = models._item_val(self.eval(node.value, sub))
            else:
                elt = models._item_val(self.eval(node.elt, sub))
        finally:
            for _ in range(pushed):
                self.qstack.pop()
                self.qouter.pop()
                self.qnames.pop()
        y = fresh(elt.ty, "img")
        passing = z3.And(*guards)
        if kind == "dict":
            # {k: v for a in A for b in B(a)} over symbolic iterables: an UNDER-specification that holds of the real result --
            # the domain is exactly the set of produced keys; the value stored under a key is the value of SOME binding that
            # produces this key (Python keeps the LAST one in iteration order; which one is left open)
            want = getattr(self, "_assign_want", None)
            vt = want.v if isinstance(want, T.Dict) else val.ty
            kt = want.k if isinstance(want, T.Dict) else elt.ty
            if vt is PYOBJ or kt is PYOBJ:
                raise Unsupported("dict comprehension with several `for` clauses: key / value of unknown type (declare the local's type)", node)
            dt = T.Dict(kt, vt)
            r = fresh(dt, "mdict")
            ds = dt.sort()
            kk, vv = lift(elt, kt), lift(val, vt)
            st.assume(z3.ForAll([y], z3.Select(ds.dom(r), y) == z3.Exists(qvars, z3.And(passing, kk == y))))
            st.assume(z3.ForAll([y], z3.Implies(z3.Select(ds.dom(r), y), z3.Exists(qvars, z3.And(passing, kk == y, vv == z3.Select(ds.map(r), y)))),
                                patterns=[z3.Select(ds.map(r), y)]))
            models.dict_wf(st, dt, r, self)
            self.assumptions_used.add("python-container-semantics")
            return Val(dt, r)
        dom = z3.Lambda([y], z3.Exists(qvars, z3.And(passing, lift(elt) == y)))
        st.assume((dom == z3.K(elt.ty.sort(), z3.BoolVal(False))) == z3.Not(z3.Exists(qvars, passing)))
        return Val(T.Set(elt.ty), dom)

    def comprehension(self, node, st, kind):
        if len(node.generators) != 1:
            if kind == "gen":
                return Val.obj(("genexp", node, st))
            return self.multi_comprehension(node, st, kind)
        g = node.generators[0]
        src = self.eval(g.iter, st)
        info = self.iter_info(src, st, node, positions=False)
        if info.kind == "concrete":
            out = []
            for it in info.items:
                s2 = st.copy()
                s2.pc = st.pc
                self.bind_target(g.target, it, s2, node)
                self.qnames.append(_names_of(g.target))
                try:
                    conds = [self.cond(c, s2) for c in g.ifs]
                    c = z_and(*conds)
                    if c is False:
                        continue
                    if c is not True:
                        raise Unsupported("symbolic filter over a concrete-length comprehension", node)
                    if kind == "dict":
                        out.append((self.eval(node.key, s2), self.eval(node.value, s2)))
                    else:
                        out.append(self.eval(node.elt, s2))
                finally:
                    self.qnames.pop()
            if kind == "dict":
                if not all(is_const(k) for k, _ in out):
                    raise Unsupported("dict comprehension with symbolic keys over concrete source", node)
                d = {k.py: (v.py if is_const(v) else v) for k, v in out}
                return Val.const(d) if not ops._has_val(d) else Val(PYOBJ, None, d, True)
            if kind == "set":
                if all(is_const(x) for x in out):
                    return Val.const({x.py for x in out})
                raise Unsupported("set comprehension with symbolic elements over concrete source", node)
            if all(is_const(x) for x in out):
                return Val.const([x.py for x in out])
            return Val(PYOBJ, None, out, True)
        if kind == "gen":
            return Val.obj(("genexp", node, st))
        if isinstance(node, ast.GeneratorExp) and kind == "list":
            pass
        # symbolic sources --------------------------------------------------------------
        if kind in ("set", "dict") or info.kind == "set":
            return self.array_comprehension(node, g, info, src, st, kind)
        self.need_positions(info, st)
        return self.seq_comprehension(node, g, info, st)

    def array_comprehension(self, node, g, info, src, st, kind):
        """{f(x) for x in S if c(x)} / {k: v for k, v in D.items() if c} via lambda arrays."""
        # only identity element/key expressions keep this quantifier-free
        sub = st.copy()
        if info.kind == "set":
            x = fresh(info.elem, "cx")
            guard = z3.Select(info.set_term, x)
            item = Val(info.elem, x)
            kelem = info.elem
        else:
            # indexed source: element at a symbolic position; need the key itself as bound var
            meta = getattr(info, "dict_items", None)
            if meta is None and isinstance(src.ty, T.Dict) and not src.is_py:
                meta = (src.ty, lift(src), "keys")
            if meta is None:
                probe = z3.Int(fresh_name("probe"))
                if info.seqval is not None and isinstance(info.seqval.ty, T.List) and not info.facts(probe) and kind in ("set", "dict"):
                    # a list source: the bound variable ranges over the ELEMENTS of the list
                    from .core import seq_contains_elem

                    from . import models

                    et = info.seqval.ty.elem
                    x = fresh(et, "cx")
                    guard = seq_contains_elem(lift(info.seqval), x)
                    if getattr(self.c, "comp_member_facts", True):
                        models.seq_member_facts(st, lift(info.seqval))  # so that xs[i] is known to be one of the elements
                        models.seq_position_witness(st, lift(info.seqval), et.sort())  # .. and every element sits at a position
                    item = Val(et, x)
                    kelem = et
                else:
                    return self.indexed_array_comprehension(node, g, info, st, kind)
            else:
                dt, dterm, mode = meta
                x = fresh(dt.k, "ck")
                d = dt.sort()
                guard = z3.Select(d.dom(dterm), x)
                kelem = dt.k
                kv = Val(dt.k, x)
                vv = Val(dt.v, z3.Select(d.map(dterm), x))
                item = {"items": Val(PYOBJ, None, (kv, vv), True), "keys": kv, "values": vv}[mode]
        self.bind_target(g.target, item, sub, node)
        self.qstack.append(([x], guard))
        self.qouter.append(st)
        self.qnames.append(_names_of(g.target))
        try:
            sub.pc.append(guard)
            conds = []
            for c in g.ifs:
                cv = z3bool(self.cond(c, sub))
                conds.append(cv)
                sub.pc.append(cv)  # the filter guards what follows (later filters, the element / key / value expression)
            if kind == "dict":
                ke = self.eval(node.key, sub)
                ve = self.eval(node.value, sub)
            else:
                ke = self.eval(node.elt, sub)
                ve = None
        finally:
            self.qstack.pop()
            self.qouter.pop()
            self.qnames.pop()
        if not (not ke.is_py and z3.eq(lift(ke), x)):
            if kind == "set" and ke.ty is not PYOBJ:
                # {f(x) for x in S if c}: the image  λy. ∃x. x∈S ∧ c ∧ y == f(x)
                y = fresh(ke.ty, "img")
                img = z3.Lambda([y], z3.Exists([x], z3.And(guard, *conds, y == lift(ke))))
                return Val(T.Set(ke.ty), img)
            if kind == "dict" and info.kind != "set":
                # a computed key: later entries overwrite earlier ones, so positions matter
                return self.indexed_array_comprehension(node, g, info, st, kind)
            raise Unsupported("comprehension key/element must be the iteration variable itself", node)
        dom = z3.Lambda([x], z3.And(guard, *conds))
        # emptiness of the comprehension, stated explicitly (saves the solver an extensionality argument)
        st.assume((dom == z3.K(kelem.sort(), z3.BoolVal(False))) == z3.Not(z3.Exists([x], z3.And(guard, *conds))))
        if kind in ("set", "list", "gen"):
            if kind != "set":
                raise Unsupported("list comprehension over a set", node)
            return Val(T.Set(kelem), dom)
        ve = self.comp_value(ve, node)
        vt = ve.ty
        rt = T.Dict(kelem, vt)
        mp = z3.Lambda([x], lift(ve))
        ks = fresh(T.List(kelem), "keys")
        y = fresh(kelem, "y")
        st.assume(z3.ForAll([y], z3.Contains(ks, z3.Unit(y)) == z3.Select(dom, y)))
        return Val(rt, rt.sort().mk(dom, mp, ks))

    def comp_value(self, ve, node):
        """value expression of a dict comprehension as a data value (`[]` / `{}` typed by the declared type of
        the local that receives the comprehension)."""
        if ve.ty is not PYOBJ:
            return ve
        want = getattr(self, "_assign_want", None)
        if isinstance(want, T.Dict):
            return coerce(ve, want.v)
        from . import models

        try:
            return models._item_val(ve)
        except Unsupported:
            raise Unsupported("dict comprehension value of unknown type (declare the receiving local in `locals=`)", node)

    def indexed_array_comprehension(self, node, g, info, st, kind):
        """Set / dict comprehension over a SEQUENCE of positions (a list, `d.items()`, zip, ..) with an arbitrary
        element / key expression.  Set: the image of the passing positions.  Dict: domain = image of the key
        expression; Python lets LATER entries overwrite earlier ones, so the value of key y is the value expression
        at the LAST passing position whose key is y (a Skolem function `last`, defined by an assumed axiom that is
        satisfiable for every finite sequence)."""
        if info.kind != "indexed":
            raise Unsupported("set/dict comprehension over this iterable", node)
        self.need_positions(info, st)
        sub = st.copy()
        i = z3.Int(fresh_name("ci"))
        guard = z3.And(i >= 0, i < info.n)
        self.bind_target(g.target, info.item(i), sub, node)
        self.qstack.append(([i], guard))
        self.qouter.append(st)
        self.qnames.append(_names_of(g.target))
        try:
            sub.pc.append(guard)
            for f in info.facts(i):
                sub.pc.append(f)
            conds = [z3bool(self.cond(c, sub)) for c in g.ifs]
            for c in conds:
                sub.pc.append(c)
            if kind == "dict":
                ke = self.eval(node.key, sub)
                ve = self.comp_value(self.eval(node.value, sub), node)
            else:
                ke = self.eval(node.elt, sub)
                ve = None
        finally:
            self.qstack.pop()
            self.qouter.pop()
            self.qnames.pop()
        from . import models

        ke = models._item_val(ke)
        kt = ke.ty
        y = fresh(kt, "img")
        passing = z3.And(guard, *conds)
        kterm = lift(ke)

        def at(term, idx):
            return z3.substitute(term, (i, idx))

        def in_dom(yy):
            return z3.Exists([i], z3.And(passing, kterm == yy))

        if kind == "set":
            dom = z3.Lambda([y], in_dom(y))
            st.assume((dom == z3.K(kt.sort(), z3.BoolVal(False))) == z3.Not(z3.Exists([i], passing)))
            return Val(T.Set(kt), dom)
        # dict with a computed key.  Everything is pattern-driven and existential-free (a lambda over an exists for the domain
        # made every later obligation of the function time out):
        #   keyat(i)  names the key expression at position i;
        #   dom       is an UNINTERPRETED set, characterised in both directions through the Skolem function lastpos:
        #               passing(i) => dom[keyat(i)]                                  {keyat(i)}
        #               dom[y]     => passing(lastpos(y)) and keyat(lastpos(y)) == y {dom[y]} {lastpos(y)}
        #   lastpos(y) is the LAST passing position with key y (Python lets later entries overwrite earlier ones):
        #               passing(i) => i <= lastpos(keyat(i))                          {lastpos(keyat(i))}
        last = z3.Function(fresh_name("lastpos"), kt.sort(), z3.IntSort())
        keyf = z3.Function(fresh_name("keyat"), z3.IntSort(), kt.sort())
        dom = z3.Const(fresh_name("compdom"), z3.ArraySort(kt.sort(), z3.BoolSort()))
        i0 = z3.Int(fresh_name("cp"))
        # keyat(i) terms are created for every source element term (seq.nth of the iterated sequence), so that facts about
        # source positions reach the result; the key term itself is tried as a trigger too (not possible for an ite)
        kdef = keyf(i0) == at(kterm, i0)
        pats = [keyf(i0)]
        cands = [at(kterm, i0)]
        if info.seqval is not None and not info.seqval.is_py:
            cands.append(lift(info.seqval)[i0])
        def has_ite(t_):
            todo, seen_ = [t_], set()
            while todo:
                u = todo.pop()
                if u.get_id() in seen_:
                    continue
                seen_.add(u.get_id())
                if z3.is_app(u):
                    if u.decl().kind() == z3.Z3_OP_ITE:
                        return True
                    todo.extend(u.children())
            return False

        for cand in cands:
            if has_ite(cand):
                continue  # an ite cannot occur in a trigger (z3 prints a warning and rejects it)
            try:
                z3.ForAll([i0], kdef, patterns=[cand])  # z3 rejects terms that cannot be triggers (ite, pure arithmetic, ..)
                pats.append(cand)
            except z3.Z3Exception:
                pass
        st.assume(z3.ForAll([i0], kdef, patterns=pats))
        st.assume(z3.ForAll([i0], z3.Implies(at(passing, i0), z3.Select(dom, keyf(i0))), patterns=[keyf(i0)]))
        # the same over the raw key term with the solver's own triggers: an instance only creates the atom dom[key(i)] (no
        # new position terms, hence no matching loop) and lets goals that start from a SOURCE element reach the domain
        st.assume(z3.ForAll([i0], z3.Implies(at(passing, i0), z3.Select(dom, at(kterm, i0)))))
        ly = last(y)
        st.assume(z3.ForAll([y], z3.Implies(z3.Select(dom, y), z3.And(at(passing, ly), keyf(ly) == y)), patterns=[z3.Select(dom, y), ly]))
        li = last(keyf(i0))
        st.assume(z3.ForAll([i0], z3.Implies(at(passing, i0), i0 <= li), patterns=[li]))
        if getattr(self.c, "comp_lastpos_free", False):
            # the same over the raw key term, with the solver's own triggers (goals that start from a source position; can loop)
            lr = last(at(kterm, i0))
            st.assume(z3.ForAll([i0], z3.Implies(at(passing, i0), z3.And(z3.Select(dom, at(kterm, i0)), at(passing, lr), at(kterm, lr) == at(kterm, i0), i0 <= lr))))
        mp = z3.Lambda([y], at(lift(ve), last(y)))
        rt = T.Dict(kt, ve.ty)
        ks = fresh(T.List(kt), "keys")
        y2 = fresh(kt, "y")
        st.assume(z3.ForAll([y2], z3.Contains(ks, z3.Unit(y2)) == z3.Select(dom, y2), patterns=[z3.Contains(ks, z3.Unit(y2)), z3.Select(dom, y2)]))
        return Val(rt, rt.sort().mk(dom, mp, ks))

    def seq_comprehension(self, node, g, info, st):
        sub = st.copy()
        i = z3.Int(fresh_name("ci"))
        guard = z3.And(i >= 0, i < info.n)
        self.bind_target(g.target, info.item(i), sub, node)
        self.qstack.append(([i], guard))
        self.qouter.append(st)
        self.qnames.append(_names_of(g.target))
        try:
            sub.pc.append(guard)
            for f in info.facts(i):
                sub.pc.append(f)
            conds = [self.cond(c, sub) for c in g.ifs]
            conds = [z3bool(c) for c in conds if c is not True]  # a filter that is the constant True is no filter
            for c in conds:
                sub.pc.append(c)
            body = self.eval(node.elt, sub)
        finally:
            self.qstack.pop()
            self.qouter.pop()
            self.qnames.pop()
        et = body.ty
        if et is PYOBJ and body.is_py and isinstance(body.py, tuple) and body.py:
            parts = [x if isinstance(x, Val) else Val.const(x) for x in body.py]
            if all(p.ty is not PYOBJ for p in parts):
                et = T.Tuple(*[p.ty for p in parts])
                body = coerce(body, et)
        if et is PYOBJ:
            raise Unsupported("list comprehension element type", node)
        if not conds and info.seqval is not None and not body.is_py and info.seqval.ty == T.List(et):
            try:
                if z3.eq(z3.simplify(lift(body)), z3.simplify(lift(info.item(i)))):
                    return info.seqval  # [f(x) for x in xs] with f the identity on values: the same sequence
            except Exception:
                pass
        r = fresh(T.List(et), "comp")
        ym = fresh(et, "cm")
        # membership characterisation: y in r  <=>  y == body(i) for some (passing) source position i
        if getattr(self.c, "comp_membership", False):
            st.assume(z3.ForAll([ym], z3.Implies(z3.Contains(r, z3.Unit(ym)), z3.Exists([i], z3.And(guard, *conds, ym == lift(body))))))
        if not conds:
            st.assume(z3.Length(r) == info.n)
            st.assume(z3.ForAll([i], z3.Implies(guard, r[i] == lift(body))))
        else:
            j = z3.Int(fresh_name("cj"))
            c = z3.And(*conds)
            st.assume(z3.Length(r) <= info.n)
            # every element of the result comes from a source position passing the filter
            st.assume(z3.ForAll([j], z3.Implies(z3.And(j >= 0, j < z3.Length(r)), z3.Exists([i], z3.And(guard, c, r[j] == lift(body))))))
            # every passing source position is represented
            st.assume(z3.ForAll([i], z3.Implies(z3.And(guard, c), z3.Contains(r, z3.Unit(lift(body))))))
            if getattr(self.c, "comp_positions", False):
                # order-preserving characterisation with Skolem functions: src(j) = the source position of result position j
                # (strictly increasing), at(i) = the result position of the passing source position i
                srcp = z3.Function(fresh_name("srcpos"), z3.IntSort(), z3.IntSort())
                resp = z3.Function(fresh_name("respos"), z3.IntSort(), z3.IntSort())
                k = z3.Int(fresh_name("ck"))
                inr = lambda v_: z3.And(v_ >= 0, v_ < z3.Length(r))  # noqa: E731
                sub_ = lambda term, v_: z3.substitute(term, (i, v_))  # noqa: E731
                st.assume(z3.ForAll([j], z3.Implies(inr(j), z3.And(sub_(z3.And(guard, c), srcp(j)), r[j] == sub_(lift(body), srcp(j))))))
                st.assume(z3.ForAll([j, k], z3.Implies(z3.And(inr(j), inr(k), j < k), srcp(j) < srcp(k))))
                st.assume(z3.ForAll([i], z3.Implies(z3.And(guard, c), z3.And(inr(resp(i)), srcp(resp(i)) == i))))
        return Val(T.List(et), r)

    # ---- statement execution ---------------------------------------------------------------------------------
    def exec_block(self, stmts, st) -> list:
        """-> list of (State, Outcome)."""
        live = [st]
        done = []
        for s in stmts:
            nxt = []
            for cur in live:
                for s2, o in self.exec_stmt(s, cur):
                    if o.kind == "normal":
                        nxt.append(s2)
                    else:
                        done.append((s2, o))
            live = nxt
            if not live:
                break
            if len(live) > 64:
                raise Unsupported("path explosion (more than 64 live paths)", s)
        return done + [(s, Outcome("normal")) for s in live]

    def exec_stmt(self, node, st):
        m = getattr(self, "s_" + type(node).__name__, None)
        if m is None:
            raise Unsupported(f"statement {type(node).__name__}", node)
        hint = self.c.hints.get(ast.unparse(node).split("\n")[0]) if self.c else None
        if hint:
            self._hints_seen.add(ast.unparse(node).split("\n")[0])
        top = node.test if isinstance(node, ast.If) else getattr(node, "value", None) if isinstance(node, (ast.Expr, ast.Assign, ast.AnnAssign, ast.Return)) else None
        if isinstance(top, (ast.BoolOp, ast.IfExp)) and not self.spec_mode and not self.qstack:
            # a contracted call WITH EFFECTS under the short-circuit guard at the top of this statement's expression
            # splits the path: the statement is re-executed with the guard as an explicit `if`
            n_ob, names0, st0 = len(self.obligations), dict(self._names), st.copy()
            save_ok = getattr(self, "_split_ok", False)
            self._split_ok = True
            try:
                if isinstance(node, ast.If):
                    outs = m(node, st)
                else:
                    outs = self.simple(m, node, st)
            except (SplitGuard, PyMerge) as e:
                if isinstance(e, PyMerge) and not (isinstance(top, ast.IfExp) and not isinstance(node, (ast.If, ast.Expr))):
                    raise
                del self.obligations[n_ob:]
                self._names = names0
                self._split_ok = save_ok
                outs = self.exec_block(split_statement(node, top), st0)
            finally:
                self._split_ok = save_ok
        elif isinstance(node, (ast.If, ast.For, ast.While, ast.Try, ast.With, ast.FunctionDef)):
            save_ok = getattr(self, "_split_ok", False)
            self._split_ok = False
            try:
                outs = m(node, st)
            finally:
                self._split_ok = save_ok
        elif False and isinstance(node, (ast.Assign, ast.AnnAssign, ast.Return)) and isinstance(node.value, ast.IfExp):
            # `x = f if c else g` over python-level values cannot be an SMT ite: fall back to the `if` statement
            n_ob, names0, st0 = len(self.obligations), dict(self._names), st.copy()
            try:
                outs = self.simple(m, node, st)
            except PyMerge:
                del self.obligations[n_ob:]
                self._names = names0
                import copy as _copy

                arms = []
                for val in (node.value.body, node.value.orelse):
                    arm = _copy.copy(node)
                    arm.value = val
                    arms.append(arm)
                ifn = ast.copy_location(ast.If(test=node.value.test, body=[arms[0]], orelse=[arms[1]]), node)
                outs = self.s_If(ifn, st0)
        else:
            save_ok = getattr(self, "_split_ok", False)
            self._split_ok = False
            try:
                outs = self.simple(m, node, st)
            finally:
                self._split_ok = save_ok
        gh = self.c.ghost.get(ast.unparse(node).split("\n")[0]) if self.c and self.c.ghost else None
        if gh:
            self._ghost_seen.add(ast.unparse(node).split("\n")[0])
            for s2, o in outs:
                if o.kind == "normal":
                    self.run_ghost(gh, s2)
        if hint:
            for s2, o in outs:
                if o.kind == "normal":
                    for h in hint:
                        rb = _REBIND.match(h)
                        if rb:
                            # "target := expr": prove target == expr, then RE-BIND the target to the (smaller) term of expr
                            tnode = ast.parse(rb.group(1).strip(), mode="eval").body
                            save = self.spec_mode
                            self.spec_mode = True
                            try:
                                nv = self.eval(ast.parse(rb.group(2).strip(), mode="eval").body, s2)
                                cur = self.eval(tnode, s2)
                            finally:
                                self.spec_mode = save
                            g = ops.equal(cur, nv)
                            self.oblige(s2, g, "assert", f"hint@L{node.lineno}", node, info={"clause": h})
                            s2.assume(z3bool(g))
                            if not isinstance(tnode, (ast.Name, ast.Attribute)):
                                raise ContractMisfit(f"re-binding hint '{h}': the target must be a local or an attribute")
                            if cur.ty is not PYOBJ:
                                nv = coerce(nv, cur.ty)
                            keep = set(s2.mutated), set(s2.rebound)
                            self.assign_target(_store(tnode), nv, s2, node, mutate=True)
                            s2.mutated, s2.rebound = keep  # a proved equality changes nothing for the caller
                            continue
                        sw = _SAMEWIT.match(h)
                        if sw:
                            # "same-witnesses: implies(A, B)": prove the STRONGER formula in which the existentials of B are
                            # instantiated with the witnesses of the existentials of A at the same positions, assume implies(A, B)
                            g = z3bool(self.clause(sw.group(1), s2))
                            self.oblige(s2, same_witnesses(g, h), "assert", f"hint@L{node.lineno}", node, info={"clause": h})
                            s2.assume(g)
                            continue
                        g = self.clause(h, s2)
                        self.oblige(s2, g, "assert", f"hint@L{node.lineno}", node, info={"clause": h})
                        s2.assume(z3bool(g))
        return outs

    def run_ghost(self, stmts, st):
        """Ghost updates: may only assign declared ghost variables (checked), never program state."""
        save = self.spec_mode
        self.spec_mode = True
        try:
            for src in stmts:
                for gn in ast.parse(src).body:
                    names, fields, _ = assigned_names([gn])
                    if fields or not names <= set(self.c.ghost_vars):
                        raise ContractMisfit(f"ghost statement '{src}' assigns non-ghost state")
                    outs = self.exec_stmt(gn, st)
                    if len(outs) != 1 or outs[0][1].kind != "normal":
                        raise ContractMisfit(f"ghost statement '{src}' branches")
        finally:
            self.spec_mode = save

    def simple(self, m, node, st):
        """Run a simple statement, turning pending exceptional exits into raise outcomes."""
        pre = st.copy()
        save = self.pending
        self.pending = []
        try:
            outs = m(node, st)
            pend = self.pending
        finally:
            self.pending = save
        res = []
        for cond, exc, n, snap in pend:
            s2 = snap  # the state in which the exception is raised (facts and effects up to that point)
            s2.assume(cond)
            res.append((s2, Outcome("raise", exc=exc, line=getattr(n, "lineno", None))))
            for s3, _ in outs:
                s3.assume(z3.Not(cond))
        return res + outs

    def s_Expr(self, node, st):
        v = node.value
        if isinstance(v, ast.Constant):
            return [(st, Outcome("normal"))]
        if isinstance(v, ast.Call) and isinstance(v.func, ast.Attribute) and self.is_logger(v.func.value):
            self.dropped.append(f"L{node.lineno}: {ast.unparse(v)[:60]}")
            return [(st, Outcome("normal"))]
        self.eval(v, st)
        return [(st, Outcome("normal"))]

    def s_Pass(self, node, st):
        return [(st, Outcome("normal"))]

    def s_Import(self, node, st):
        import importlib

        for a in node.names:
            st.env[(a.asname or a.name).split(".")[0]] = Val.obj(importlib.import_module(a.name.split(".")[0] if not a.asname else a.name))
        return [(st, Outcome("normal"))]

    def s_ImportFrom(self, node, st):
        import importlib

        mod = importlib.import_module(node.module)
        for a in node.names:
            st.env[a.asname or a.name] = self.wrap_py(getattr(mod, a.name), a.name)
        return [(st, Outcome("normal"))]

    def s_Assert(self, node, st):
        c = self.cond(node.test, st)
        if c is True:
            return [(st, Outcome("normal"))]
        self.safety(st, c, "AssertionError", node)
        return [(st, Outcome("normal"))]

    def s_Return(self, node, st):
        v = self.eval(node.value, st) if node.value is not None else Val.const(None)
        return [(st, Outcome("return", v, line=node.lineno))]

    def s_Raise(self, node, st):
        if node.exc is None:
            cur = getattr(self, "_current_exc", None)
            if cur is None:
                raise Unsupported("bare raise outside handler", node)
            return [(st, Outcome("raise", exc=cur, line=node.lineno))]
        from .symex import ExcVal, FuncRef

        if isinstance(node.exc, ast.Call):
            fv = self.eval(node.exc.func, st)
            if fv.is_py and isinstance(fv.py, FuncRef) and isinstance(fv.py.obj, type) and issubclass(fv.py.obj, BaseException):
                try:
                    for a in node.exc.args:
                        self.eval(a, st.copy())
                except Unsupported:
                    self.dropped.append(f"L{node.lineno}: exception message of {fv.py.obj.__name__} not evaluated")
                return [(st, Outcome("raise", exc=fv.py.obj.__name__, line=node.lineno))]
        v = self.eval(node.exc, st)

        if v.is_py and isinstance(v.py, ExcVal):
            return [(st, Outcome("raise", exc=v.py.name, line=node.lineno))]
        if v.is_py and isinstance(v.py, FuncRef):
            return [(st, Outcome("raise", exc=v.py.obj.__name__, line=node.lineno))]
        raise Unsupported("raise of a non-exception value", node)

    def s_Break(self, node, st):
        return [(st, Outcome("break"))]

    def s_Continue(self, node, st):
        return [(st, Outcome("continue"))]

    def s_Global(self, node, st):
        raise Unsupported("global statement", node)

    def s_Delete(self, node, st):
        for t in node.targets:
            if isinstance(t, ast.Subscript):
                recv = self.eval(t.value, st)
                if isinstance(t.slice, ast.Slice):
                    raise Unsupported("del of a slice", node)
                idx = self.eval(t.slice, st)
                from . import models

                r0 = self.deopt(recv, st, node) if isinstance(recv.ty, T.Opt) else recv
                if isinstance(r0.ty, T.Ref) and not r0.is_py:
                    cs = self.class_of(r0.ty)
                    hook = getattr(cs, "delitem", None)
                    if hook is None:
                        raise Unsupported(f"del item on {r0.ty} (the class has no delitem= hook)", node)
                    hook(self, st, r0, idx, node)
                    continue
                if isinstance(t.value, ast.Name):
                    self.check_alias(t.value.id, st, node)
                nv = models.del_item(self, st, recv, idx, node)
                self.assign_target(t.value, nv, st, node, mutate=True)
            elif isinstance(t, ast.Name):
                st.env.pop(t.id, None)
            elif isinstance(t, ast.Attribute):
                # `del self.context`: the field becomes unreadable; modelled as havoc
                recv = self.eval(t.value, st)
                cs = self.class_of(recv.ty)
                if t.attr in cs.fields:
                    ft = cs.fields[t.attr]
                    self.write_field(st, recv, t.attr, Val(ft, fresh(ft, "deleted")), node)
            else:
                raise Unsupported("del target", node)
        return [(st, Outcome("normal"))]

    def s_Assign(self, node, st):
        want = None
        if len(node.targets) == 1 and isinstance(node.targets[0], ast.Name) and self.c:
            want = self.local_type(node.targets[0].id, node)
        save = getattr(self, "_assign_want", None)
        self._assign_want = want
        try:
            v = self.eval(node.value, st)
        finally:
            self._assign_want = save
        for t in node.targets:
            self.assign_target(t, v, st, node)
        if not self.note_store_alias(node, v, st):
            self.note_alias(node.value, node.targets, st)
        self.note_heap_alias(node, v, st)
        return [(st, Outcome("normal"))]

    def local_type(self, name, node=None):
        """declared type of a local: `locals={"x": T}`; a name that holds values of two types in one function is declared per
        assignment statement as `"x@L<line>": T2` (the line of the assignment in the source file), which wins at that statement"""
        if not self.c:
            return None
        ln = getattr(node, "lineno", None)
        if ln is not None:
            t = self.c.locals.get(f"{name}@L{ln}")
            if t is not None:
                return t
        return self.c.locals.get(name)

    def note_store_alias(self, node, v, st) -> bool:
        """`obj.field = x` where x is a local / parameter holding a MUTABLE container: Python stores the same object, so whatever
        later mutates `obj.field` in place (a method model, a callee with `modifies=["C.field"]`) mutates x too, and vice versa.
        x becomes a LINK to the field (the mirror image of `x = obj.field`): it is read and mutated through the field from here
        on.  For a parameter this makes the mutation visible to the caller: the parameter counts as mutated (frame obligation
        unless it is listed in `modifies`) and its final value is the field's.  -> True when the link was made."""
        if (len(node.targets) != 1 or not isinstance(node.targets[0], ast.Attribute) or not isinstance(node.value, ast.Name) or self.spec_mode
                or not self.is_mutable_container(v)):
            return False
        name = node.value.id
        if name not in st.env or ("link", name) in st.ghost or name in st.escaped or name in getattr(self.c, "alias_ok", ()):
            return False
        t = node.targets[0]
        recv = self.eval(t.value, st)
        if recv.is_py or not isinstance(recv.ty, T.Ref):
            return False
        cs = self.class_of(recv.ty)
        ft = cs.fields.get(t.attr)
        if not isinstance(ft, (T.List, T.Set, T.Dict)) or (not v.is_py and ft != v.ty):
            return False  # (a coerced / dynamic store: no common term to share; the value-semantics guard applies)
        if v.is_py:
            st.env[name] = coerce(v, ft)  # `s = set(); obj.field = s`: from here on s is the field's (typed) container
        st.ghost[("link", name)] = (recv, cs.name, t.attr)
        if name in getattr(self, "_params", ()) and name not in st.rebound:
            st.mutated.add(name)
            st.ghost[("store_link", name)] = True
        return True

    def note_heap_alias(self, node, v, st):
        """`x = obj.field` / `x = d[k]` where the value is a MUTABLE container: Python binds x to the same object.
        * a container read from a heap field: x becomes a LINK to that field (read and mutated through it);
        * a container taken out of another container: no write-through model - x is marked, mutating it is refused."""
        if len(node.targets) != 1 or not isinstance(node.targets[0], ast.Name) or not self.is_mutable_container(v) or self.spec_mode:
            return
        name = node.targets[0].id
        if name in getattr(self.c, "alias_ok", ()):
            return
        if isinstance(node.value, ast.Attribute) and not v.is_py:
            la = getattr(self, "_last_attr", None)
            if la is not None and la[0] is node.value:
                recv, cname, fname = la[1]
                if not recv.is_py:
                    st.ghost[("link", name)] = (recv, cname, fname)
                    return
            st.escaped.add(name)  # a container-valued attribute that is not a plain heap field (derived view ..)
        elif isinstance(node.value, ast.Attribute) and v.is_py:
            st.escaped.add(name)
        elif isinstance(node.value, ast.Subscript) and not isinstance(node.value.slice, ast.Slice):
            st.escaped.add(name)

    def s_AnnAssign(self, node, st):
        if node.value is None:
            return [(st, Outcome("normal"))]
        v = self.eval(node.value, st)
        self.assign_target(node.target, v, st, node)
        return [(st, Outcome("normal"))]

    def note_alias(self, valnode, targets, st):
        """value-semantics guard: a mutable container bound to a second holder."""
        if isinstance(valnode, ast.Name) and valnode.id in st.env:
            v = st.env[valnode.id]
            if self.is_mutable_container(v):
                st.escaped.add(valnode.id)
                for t in targets:
                    if isinstance(t, ast.Name):
                        st.escaped.add(t.id)

    def is_mutable_container(self, v: Val):
        if v.is_py:
            return isinstance(v.py, (list, dict, set))
        return isinstance(v.ty, (T.List, T.Set, T.Dict))

    def check_alias(self, name, st, node):
        if name in st.escaped and name not in getattr(self.c, "alias_ok", ()):
            raise Unsupported(f"in-place mutation of '{name}' after it was aliased (value semantics not justified; `alias_ok=` overrides)", node)

    def s_AugAssign(self, node, st):
        cur = self.eval(ast.copy_location(_load(node.target), node), st)
        rhs = self.eval(node.value, st)
        if self.is_mutable_container(cur) and isinstance(node.target, ast.Name):
            self.check_alias(node.target.id, st, node)
        if isinstance(cur.ty, T.Set) and isinstance(node.op, (ast.BitOr, ast.Sub, ast.BitAnd)):
            nv = ops.binop(node.op, cur, rhs, node)
        elif (isinstance(cur.ty, T.List) or (cur.is_py and isinstance(cur.py, list))) and isinstance(node.op, ast.Add):
            from . import models

            nv = models.list_extend(self, cur, rhs, node)
            if not nv.is_py and isinstance(nv.ty, T.List):
                models.bridge_concat(self, st, nv.term, [lift(cur, nv.ty), lift(rhs, nv.ty)])
        else:
            nv = ops.binop(node.op, cur, rhs, node)
        self.assign_target(node.target, nv, st, node, mutate=True)
        return [(st, Outcome("normal"))]

    def assign_target(self, t, v: Val, st, node, mutate=False):
        if isinstance(t, ast.Name):
            want = self.local_type(t.id, node)
            if want is not None and not (v.ty is PYOBJ and v.is_py and not isinstance(v.py, ops._CT)):
                try:
                    v = coerce(v, want)
                except AttributeError as e:  # (a python-level value of another shape: `result = []` for a local declared Dict)
                    raise ContractMisfit(f"local '{t.id}' is declared {want} but assigned {type(v.py).__name__ if v.is_py else v.ty} at line {getattr(node, 'lineno', '?')} "
                                         f"(one name, two types: declare the second as \"{t.id}@L<line of the assignment>\"): {e}")
            lk = st.ghost.get(("link", t.id))
            if lk is not None:
                if mutate:
                    self.write_field(st, lk[0], lk[2], v, node, mutate=True)  # write through to the aliased field
                    return
                if st.ghost.get(("store_link", t.id)):
                    raise Unsupported(f"parameter '{t.id}' is re-bound after it was stored into a field (the caller's object stays aliased by the field)", node)
                del st.ghost[("link", t.id)]  # re-bound: no longer an alias
            if not mutate and t.id in getattr(self, "_params", ()) and t.id not in st.rebound and ("param_final", t.id) not in st.ghost:
                st.ghost[("param_final", t.id)] = st.env.get(t.id)  # the caller-visible final value of a re-bound parameter
            st.env[t.id] = v
            if not mutate:
                st.escaped.discard(t.id)
                st.rebound.add(t.id)
            elif t.id not in st.rebound and self.is_mutable_container(v):
                st.mutated.add(t.id)  # in-place mutation of the object the name was bound to at entry (a parameter: caller-visible)
            return
        if isinstance(t, (ast.Tuple, ast.List)):
            parts = self.unpack(v, len(t.elts), st, node)
            for tn, pv in zip(t.elts, parts):
                self.assign_target(tn, pv, st, node)
            return
        if isinstance(t, ast.Attribute):
            recv = self.eval(t.value, st)
            if not isinstance(recv.ty, T.Ref):
                raise Unsupported(f"attribute store on {recv.ty}", node)
            self.write_field(st, recv, t.attr, v, node, mutate=mutate)
            return
        if isinstance(t, ast.Subscript):
            from . import models

            recv = self.eval(t.value, st)
            if isinstance(t.slice, ast.Slice):
                sl = t.slice
                if sl.lower is None and sl.upper is None and sl.step is None and (isinstance(recv.ty, T.List) or (recv.is_py and isinstance(recv.py, list))):
                    # xs[:] = ys: the list object keeps its identity, its content becomes list(ys)
                    nv = models._list(self, st, [v], {}, node)
                    if isinstance(recv.ty, T.List):
                        nv = coerce(nv, recv.ty)
                    if isinstance(t.value, ast.Name):
                        self.check_alias(t.value.id, st, node)
                    self.assign_target(t.value, nv, st, node, mutate=True)
                    return
                raise Unsupported("slice assignment", node)
            idx = self.eval(t.slice, st)
            if isinstance(recv.ty, T.Ref):
                cs = self.class_of(recv.ty)
                if cs.setitem is None:
                    raise Unsupported(f"item store on {recv.ty}", node)
                cs.setitem(self, st, recv, idx, v, node)
                return
            if isinstance(t.value, ast.Name):
                self.check_alias(t.value.id, st, node)
            nv = models.set_item(self, st, recv, idx, v, node)
            self.assign_target(t.value, nv, st, node, mutate=True)
            return
        raise Unsupported("assignment target", node)

    def s_FunctionDef(self, node, st):
        st.env[node.name] = Val.obj(Closure(node, st.env, node.name))
        return [(st, Outcome("normal"))]

    # ---- if / merge ------------------------------------------------------------------------------------------------
    def s_If(self, node, st):
        pre = st.copy()
        save = self.pending
        self.pending = []
        try:
            c = self.cond(node.test, st)
            pend = self.pending
        finally:
            self.pending = save
        res = []
        for cond, exc, n, snap in pend:
            s2 = snap  # the state in which the exception is raised (facts and effects up to that point)
            s2.assume(cond)
            res.append((s2, Outcome("raise", exc=exc, line=getattr(n, "lineno", None))))
            st.assume(z3.Not(cond))
        if isinstance(c, bool):
            return res + self.exec_block(node.body if c else node.orelse, st)
        base = len(st.pc)
        s_then = st.copy()
        s_then.assume(c)
        s_else = st.copy()
        s_else.assume(z3.Not(c))
        self.narrow_opt(node.test, s_then, s_else)
        o1 = self.exec_block(node.body, s_then) if self.feasible(s_then, base) else []
        if not self.feasible(s_else, base):
            o2 = []
        else:
            o2 = self.exec_block(node.orelse, s_else) if node.orelse else [(s_else, Outcome("normal"))]
        n1 = [(s, o) for s, o in o1 if o.kind == "normal"]
        n2 = [(s, o) for s, o in o2 if o.kind == "normal"]
        others = [(s, o) for s, o in o1 + o2 if o.kind != "normal"]
        if len(n1) == 1 and len(n2) == 1 and getattr(self.c, "merge_branches", True):
            m = self.merge(n1[0][0], n2[0][0], base)
            if m is not None:
                return res + others + [(m, Outcome("normal"))]
        return res + others + n1 + n2

    def narrow_opt(self, test, s_then, s_else):
        """`if x is not None:` / `if x is None:` / `if x:` on an Optional local: the branch that knows x is
        present sees x as the unwrapped value (flow-sensitive narrowing)."""
        name, present_in_then = None, None
        if isinstance(test, ast.Compare) and len(test.ops) == 1 and isinstance(test.left, ast.Name) and isinstance(test.comparators[0], ast.Constant) and test.comparators[0].value is None:
            if isinstance(test.ops[0], ast.IsNot):
                name, present_in_then = test.left.id, True
            elif isinstance(test.ops[0], ast.Is):
                name, present_in_then = test.left.id, False
        elif isinstance(test, ast.Name):
            name, present_in_then = test.id, True
        elif isinstance(test, ast.UnaryOp) and isinstance(test.op, ast.Not) and isinstance(test.operand, ast.Name):
            name, present_in_then = test.operand.id, False
        neg = False
        t_ = test
        if isinstance(t_, ast.UnaryOp) and isinstance(t_.op, ast.Not):
            neg, t_ = True, t_.operand
        if (name is None and isinstance(t_, ast.Call) and isinstance(t_.func, ast.Name) and t_.func.id == "isinstance" and len(t_.args) == 2
                and isinstance(t_.args[0], ast.Name) and "isinstance" not in s_then.env):
            # `if isinstance(x, C):` on a Union-typed local: the branch sees x at the matching alternative
            from . import models

            nm = t_.args[0].id
            v = s_then.env.get(nm)
            if v is not None and isinstance(v.ty, T.Union) and not v.is_py:
                try:
                    kv = self.eval(t_.args[1], s_then.copy())
                    hits = []
                    for i, alt in enumerate(v.ty.alts):
                        r = models._isinstance(self, s_then, [Val(alt, getattr(v.ty.sort(), f"v{i}")(v.term)), kv], {}, t_)
                        hits.append(r.py if is_const(r) else None)
                except (Unsupported, ContractMisfit):
                    hits = [None]
                if all(h is not None for h in hits):
                    yes = [i for i, h in enumerate(hits) if h]
                    no = [i for i, h in enumerate(hits) if not h]
                    for idxs, state in ((yes, s_else if neg else s_then), (no, s_then if neg else s_else)):
                        if len(idxs) == 1:
                            i = idxs[0]
                            sv = v.ty.sort()
                            state.assume(getattr(sv, f"is_alt{i}")(v.term))
                            state.env[nm] = Val(v.ty.alts[i], getattr(sv, f"v{i}")(v.term))
            return
        if name is None:
            return
        tgt = s_then if present_in_then else s_else
        v = tgt.env.get(name)
        if v is not None and isinstance(v.ty, T.Opt) and not v.is_py:
            s = v.ty.sort()
            tgt.assume(s.is_some(v.term))
            tgt.env[name] = Val(v.ty.inner, s.val(v.term))
            # the ABSENT branch of an explicit `is None` / `is not None` test sees the constant None (so that it can be stored
            # into a container of another Optional type)
            if isinstance(test, ast.Compare) and name not in (getattr(self.c, "locals", {}) or {}) and name not in getattr(self, "_params", ()):
                other = s_else if present_in_then else s_then
                ov = other.env.get(name)
                if ov is v:
                    other.assume(s.is_nil(v.term))
                    other.env[name] = Val.const(None)

    def feasible(self, st, base=None) -> bool:
        """Cheap in-process pruning of contradictory paths (unknown counts as feasible).  `base`: index of the first
        conjunct added since the path was last known feasible (enables the cone-of-influence slice, see quick.py)."""
        from . import quick

        if not st.pc:
            return True
        if not quick.feasible(st.pc, base):
            self.pruned = getattr(self, "pruned", 0) + 1
            return False
        return True

    def merge(self, a: State, b: State, base: int):
        """join two states that share pc[:base]; a.pc[base] is the branch condition."""
        ca = z_and(*a.pc[base:])
        cb = z_and(*b.pc[base:])
        if ca is True or cb is True:
            return None
        la = {k_: v_ for k_, v_ in a.ghost.items() if isinstance(k_, tuple) and k_[0] == "link"}
        lb = {k_: v_ for k_, v_ in b.ghost.items() if isinstance(k_, tuple) and k_[0] == "link"}
        if set(la) != set(lb) or any(la[k_][1:] != lb[k_][1:] or not z3.eq(lift(la[k_][0]), lift(lb[k_][0])) for k_ in la):
            return None  # a local aliases a heap container on one side only
        if self.c and any(n in self.c.modifies for n in (a.rebound ^ b.rebound)):
            return None  # a `modifies` parameter re-bound on one side only: what the caller sees differs per path
        c = a.pc[base]
        m = State()
        m.pc = a.pc[:base]
        m.pc.append(z3.Or(z3bool(ca), z3bool(cb)))
        sel = z3bool(ca)
        for k in set(a.env) | set(b.env):
            va, vb = a.env.get(k), b.env.get(k)
            if va is None or vb is None:
                m.env[k] = None  # possibly unbound
                continue
            if va is vb:
                m.env[k] = va
                continue
            if va.is_py and vb.is_py and va.ty is PYOBJ and vb.ty is PYOBJ:
                try:
                    if va.py == vb.py:
                        m.env[k] = va
                        continue
                except Exception:
                    pass
                # concrete containers of equal length: merge element-wise
                r = self.merge_py(sel, va, vb)
                if r is None:
                    return None
                m.env[k] = r
                continue
            if is_const(va) and is_const(vb) and va.py == vb.py and type(va.py) is type(vb.py):
                m.env[k] = va
                continue
            try:
                want = self.c.locals.get(k) if self.c else None
                if want is not None:
                    va, vb = coerce(va, want), coerce(vb, want)
                m.env[k] = ops.ite(sel, va, vb)
            except (Unsupported, ContractMisfit):
                return None
        for k in set(a.heap) | set(b.heap):
            ha, hb = a.heap.get(k), b.heap.get(k)
            if ha is None or hb is None:
                # field first touched in one branch only: materialise the initial array
                arr0 = z3.Const(f"H0_{k[0]}_{k[1]}", (ha if ha is not None else hb).sort())
                ha = ha if ha is not None else arr0
                hb = hb if hb is not None else arr0
            m.heap[k] = ha if ha is hb or z3.eq(ha, hb) else z3.If(sel, ha, hb)
        if a.alloc is None and b.alloc is None:
            m.alloc = None
        else:
            n0 = z3.Int("now0")
            xa = a.alloc if a.alloc is not None else n0
            xb = b.alloc if b.alloc is not None else n0
            m.alloc = xa if z3.eq(xa, xb) else z3.If(sel, xa, xb)
        for k in set(a.pyheap) | set(b.pyheap):
            va, vb = a.pyheap.get(k), b.pyheap.get(k)
            if va is not None and vb is not None and (va is vb or (va.is_py and vb.is_py and _safe_eq(va.py, vb.py))):
                m.pyheap[k] = va
            else:
                return None  # python-level field differs between the branches: keep the paths apart
        m.escaped = a.escaped | b.escaped
        m.mutated = a.mutated | b.mutated
        m.rebound = a.rebound & b.rebound
        # fact caches (dict well-formedness ..): only what was assumed BEFORE the branch is available unconditionally
        m.ghost = {k: v for k, v in a.ghost.items() if not (isinstance(v, tuple) and len(v) == 2 and isinstance(v[1], int) and v[1] >= base)}
        # keep the branch-local facts as implications
        for extra, cnd in ((a.pc[base + 1:], ca), (b.pc[base + 1:], cb)):
            pass
        return m

    def merge_py(self, sel, va, vb):
        if isinstance(va.py, (list, tuple)) and isinstance(vb.py, (list, tuple)) and len(va.py) == len(vb.py) and type(va.py) is type(vb.py):
            out = []
            for x, y in zip(va.py, vb.py):
                x = x if isinstance(x, Val) else Val.const(x)
                y = y if isinstance(y, Val) else Val.const(y)
                try:
                    out.append(ops.ite(sel, x, y))
                except (Unsupported, ContractMisfit):
                    return None
            return Val(PYOBJ, None, type(va.py)(out), True)
        return None
