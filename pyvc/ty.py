"""Type descriptors of the pyvc encoding and their z3 sorts.

Python is untyped; the sidecar contract declares the abstraction (DESIGN 1.2/1.3).
Every type maps to exactly one z3 sort so values can be nested in containers.
"""
from __future__ import annotations

import z3

_sort_cache: dict = {}

RefSort = z3.DeclareSort("Ref")


class Ty:
    key: tuple = ()

    def __eq__(self, o):
        return isinstance(o, Ty) and self.key == o.key

    def __hash__(self):
        return hash(self.key)

    def __repr__(self):
        return self.name()

    def name(self):
        return str(self.key)

    def sort(self):
        raise NotImplementedError


class _Prim(Ty):
    def __init__(self, nm, mk):
        self.key = (nm,)
        self._nm = nm
        self._mk = mk

    def name(self):
        return self._nm

    def sort(self):
        return self._mk()


INT = _Prim("Int", z3.IntSort)
REAL = _Prim("Real", z3.RealSort)
BOOL = _Prim("Bool", z3.BoolSort)
STR = _Prim("Str", z3.StringSort)


class _NoneTy(Ty):
    key = ("None",)

    def name(self):
        return "None"

    def sort(self):
        if "None" not in _sort_cache:
            d = z3.Datatype("NoneT")
            d.declare("none_v")
            _sort_cache["None"] = d.create()
        return _sort_cache["None"]


NONE = _NoneTy()


def _mangle(t: Ty) -> str:
    s = t.name()
    for a, b in (("[", "_"), ("]", ""), (",", "_"), (" ", ""), ("(", "_"), (")", ""), (".", "_")):
        s = s.replace(a, b)
    return s


class List(Ty):
    def __init__(self, elem: Ty):
        self.elem = elem
        self.key = ("List", elem.key)

    def name(self):
        return f"List[{self.elem.name()}]"

    def sort(self):
        return z3.SeqSort(self.elem.sort())


class TupleOf(List):
    """Variable-length homogeneous tuple `tuple[T, ...]`: a sequence like List(T) (same sort: iteration, len, indexing, slices,
    `in`, `+` work the same) but a DIFFERENT python type: `isinstance(x, tuple)` holds, it is never `==` to a list, and it can be an
    alternative of a Union next to STR (`str | tuple[str, ...]`)."""

    def __init__(self, elem: Ty):
        List.__init__(self, elem)
        self.key = ("TupleOf", elem.key)

    def name(self):
        return f"TupleOf[{self.elem.name()}]"


class Set(Ty):
    def __init__(self, elem: Ty):
        self.elem = elem
        self.key = ("Set", elem.key)

    def name(self):
        return f"Set[{self.elem.name()}]"

    def sort(self):
        return z3.ArraySort(self.elem.sort(), z3.BoolSort())


class Opt(Ty):
    def __init__(self, inner: Ty):
        assert not isinstance(inner, Opt) and inner != NONE
        self.inner = inner
        self.key = ("Opt", inner.key)

    def name(self):
        return f"Opt[{self.inner.name()}]"

    def sort(self):
        k = self.key
        if k not in _sort_cache:
            m = _mangle(self.inner)
            d = z3.Datatype("Opt_" + m)
            d.declare("nil_" + m)
            d.declare("some_" + m, ("val_" + m, self.inner.sort()))
            s = d.create()
            s.nil = s.constructor(0)()
            s.some = s.constructor(1)
            s.val = s.accessor(1, 0)
            s.is_nil = s.recognizer(0)
            s.is_some = s.recognizer(1)
            _sort_cache[k] = s
        return _sort_cache[k]


class Tuple(Ty):
    def __init__(self, *items: Ty):
        self.items = tuple(items)
        self.key = ("Tuple",) + tuple(i.key for i in items)

    def name(self):
        return "Tuple[" + ",".join(i.name() for i in self.items) + "]"

    def sort(self):
        k = self.key
        if k not in _sort_cache:
            m = "_".join(_mangle(i) for i in self.items)
            d = z3.Datatype("Tup_" + m)
            d.declare("tup_" + m, *[(f"f{i}_{m}", t.sort()) for i, t in enumerate(self.items)])
            s = d.create()
            s.mk = s.constructor(0)
            _sort_cache[k] = s
        return _sort_cache[k]


class Named(Tuple):
    """namedtuple: a Tuple whose components can also be read by attribute name."""

    def __init__(self, nm, **fields):
        Tuple.__init__(self, *fields.values())
        self.nm = nm
        self.names = tuple(fields.keys())

    def name(self):
        return self.nm + Tuple.name(self)[5:]


class Dict(Ty):
    """dict as (domain, values, insertion-ordered key list).

    `keys` lists exactly the domain, without duplicates, in insertion order; the engine
    maintains it on every update (append on a new key, unchanged on overwrite)."""

    def __init__(self, k: Ty, v: Ty):
        self.k = k
        self.v = v
        self.key = ("Dict", k.key, v.key)

    def name(self):
        return f"Dict[{self.k.name()},{self.v.name()}]"

    def sort(self):
        kk = self.key
        if kk not in _sort_cache:
            m = _mangle(self.k) + "_" + _mangle(self.v)
            d = z3.Datatype("Dict_" + m)
            d.declare(
                "dict_" + m,
                ("dom_" + m, z3.ArraySort(self.k.sort(), z3.BoolSort())),
                ("map_" + m, z3.ArraySort(self.k.sort(), self.v.sort())),
                ("keys_" + m, z3.SeqSort(self.k.sort())),
            )
            s = d.create()
            s.mk = s.constructor(0)
            s.dom = s.accessor(0, 0)
            s.map = s.accessor(0, 1)
            s.keys = s.accessor(0, 2)
            _sort_cache[kk] = s
        return _sort_cache[kk]


class Map(Ty):
    """Total function K -> V (a view derived from the heap; no domain, no KeyError)."""

    def __init__(self, k: Ty, v: Ty):
        self.k = k
        self.v = v
        self.key = ("Map", k.key, v.key)

    def name(self):
        return f"Map[{self.k.name()},{self.v.name()}]"

    def sort(self):
        return z3.ArraySort(self.k.sort(), self.v.sort())


class Ref(Ty):
    """Reference to a heap object of a declared class (fields live in the heap)."""

    def __init__(self, cls: str):
        self.cls = cls
        self.key = ("Ref", cls)

    def name(self):
        return f"Ref[{self.cls}]"

    def sort(self):
        return RefSort


class Union(Ty):
    """Tagged union of a closed family (e.g. str | tuple for KerningPair sides)."""

    def __init__(self, *alts: Ty):
        self.alts = tuple(alts)
        self.key = ("Union",) + tuple(a.key for a in alts)

    def name(self):
        return "Union[" + ",".join(a.name() for a in self.alts) + "]"

    def sort(self):
        k = self.key
        if k not in _sort_cache:
            m = "_".join(_mangle(a) for a in self.alts)
            d = z3.Datatype("Un_" + m)
            for i, a in enumerate(self.alts):
                d.declare(f"alt{i}_{m}", (f"v{i}_{m}", a.sort()))
            s = d.create()
            for i, a in enumerate(self.alts):
                setattr(s, f"alt{i}", s.constructor(i))
                setattr(s, f"v{i}", s.accessor(i, 0))
                setattr(s, f"is_alt{i}", s.recognizer(i))
            _sort_cache[k] = s
        return _sort_cache[k]


class Opaque(Ty):
    """Uninterpreted sort for values the contract never looks into."""

    def __init__(self, nm: str):
        self.nm = nm
        self.key = ("Opaque", nm)

    def name(self):
        return self.nm

    def sort(self):
        k = self.key
        if k not in _sort_cache:
            _sort_cache[k] = z3.DeclareSort("Opq_" + self.nm)
        return _sort_cache[k]


class Enum(Ty):
    """Member of a python `enum.Enum` class ("module:Qual.Name"): a finite enumeration sort, one constant per member.
    `.value` / `.name` are ite-chains over the members; IntEnum-typed values coerce to INT where a number is needed."""

    def __init__(self, path: str):
        self.path = path
        self.key = ("Enum", path)

    def name(self):
        return "Enum[" + self.path.split(":")[-1] + "]"

    def pycls(self):
        import importlib

        mod, qn = self.path.split(":")
        o = importlib.import_module(mod)
        for part in qn.split("."):
            o = getattr(o, part)
        return o

    def members(self):
        return list(self.pycls())

    def sort(self):
        k = self.key
        if k not in _sort_cache:
            nm = "Enum_" + self.path.replace(":", "_").replace(".", "_")
            srt, consts = z3.EnumSort(nm, [m.name for m in self.members()])
            srt.consts = consts
            _sort_cache[k] = srt
        return _sort_cache[k]

    def const(self, member):
        ms = self.members()
        return self.sort().consts[ms.index(member)]

    def value_type(self):
        vs = {type(m.value) for m in self.members()}
        if vs <= {int, bool}:
            return INT
        if vs == {str}:
            return STR
        return None

    def chain(self, term, f):
        """ite over the members: f(member) -> z3 term"""
        ms = self.members()
        r = f(ms[-1])
        for m in reversed(ms[:-1]):
            r = z3.If(term == self.const(m), f(m), r)
        return r


def enum_type_of(member) -> "Enum":
    c = type(member)
    return Enum(f"{c.__module__}:{c.__qualname__}")


def is_num(t: Ty) -> bool:
    return t == INT or t == REAL
