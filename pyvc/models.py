"""Trusted semantics of Python builtins, container methods and a few library functions.

Everything here is an *assumed contract* (DESIGN 1.6): it is listed in the evidence of
every property that uses it and validated against CPython / the installed libraries by the
bounded conformance suite, never counted as proved.
"""
from __future__ import annotations

import ast
import inspect

import z3

from . import api, ops
from . import ty as T
from .core import PYOBJ, ContractMisfit, Unsupported, Val, coerce, fresh, fresh_name, lift
from .exprs import BoundMethod, Closure, LambdaTag, bool_val, z_and, z_not, z_or
from .ops import is_const, z3bool

BUILTIN_MODELS: dict = {}


class Model:
    def __init__(self, name, model, clause):
        self.name = name
        self.model = model
        self.clause = clause


def builtin(qual, clause):
    def deco(f):
        BUILTIN_MODELS[qual] = Model(qual, f, clause)
        return f

    return deco


def lookup(qual, obj):
    if qual in api.TRUSTED:
        return api.TRUSTED[qual]
    if qual in BUILTIN_MODELS:
        return BUILTIN_MODELS[qual]
    # functions re-exported under another module path
    if obj is not None:
        q2 = f"{getattr(obj, '__module__', '?')}.{getattr(obj, '__qualname__', '?')}"
        if q2 in api.TRUSTED:
            return api.TRUSTED[q2]
        if q2 in BUILTIN_MODELS:
            return BUILTIN_MODELS[q2]
    return None


def _items_of(ex, st, v, node):
    """python list of Vals when the container has concrete length, else None."""
    if v.is_py and isinstance(v.py, (list, tuple, range, set, frozenset)):
        xs = sorted(v.py) if isinstance(v.py, (set, frozenset)) and len(v.py) <= 1 else list(v.py) if not isinstance(v.py, (set, frozenset)) else None
        if xs is None:
            return None
        return [x if isinstance(x, Val) else Val.const(x) for x in xs]
    return None


def materialize(ex, v: Val):
    """A generator expression consumed whole (extend/list/sorted/...) = the list comprehension."""
    if v.is_py and isinstance(v.py, tuple) and len(v.py) == 3 and v.py[0] == "genexp":
        _, gnode, gst = v.py
        return ex.comprehension(gnode, gst, "list")
    return v


def materialize_set(ex, v: Val):
    """A generator expression consumed as a SET (set(..), s.update(..), ..) = the set comprehension: no intermediate
    sequence (and none of its seq.contains axioms) is created."""
    if v.is_py and isinstance(v.py, tuple) and len(v.py) == 3 and v.py[0] == "genexp":
        _, gnode, gst = v.py
        try:
            return ex.comprehension(gnode, gst, "set")
        except Unsupported:
            return ex.comprehension(gnode, gst, "list")
    return v


def sorted_fn(t_in, elem):
    nm = "sorted_" + T._mangle(t_in)
    return z3.Function(nm, t_in.sort(), z3.SeqSort(elem.sort()))


def elems_fn(elem):
    return z3.Function("elems_" + T._mangle(elem), z3.SeqSort(elem.sort()), z3.ArraySort(elem.sort(), z3.BoolSort()))


def _once(st, key, term):
    """fact cache: has this fact already been assumed on this path?  The entry records where in the path condition it
    sits, so that a fact first assumed inside ONE branch of an `if` is assumed again after the merge (there it only
    holds under the branch's disjunct); the term is kept alive so that its id cannot be reused."""
    if key in st.ghost:
        return True
    if any(getattr(f, "_is_guard", False) for f in st.pc):
        return False  # assumed under an expression guard (`a and len(d) ..`): only conditionally available, do not cache
    st.ghost[key] = (term, len(st.pc))
    return False


def extract_free(ex) -> bool:
    """should sub-sequences be encoded WITHOUT seq.extract?  (per contract `extract_free=True/False`, else PYVC_EXTRACT_FREE)"""
    import os

    v = getattr(getattr(ex, "c", None), "extract_free", None)
    if v is None:
        return os.environ.get("PYVC_EXTRACT_FREE", "0") == "1"
    return bool(v)


def sub_seq(ex, st, s, start, length):
    """s[start : start + length] for 0 <= start, 0 <= length, start + length <= len(s) (the caller clamps).
    Default: seq.extract.  Extract-free form (z3 has answered `unsat` wrongly on files that combine seq.extract with
    quantifiers): a FRESH sequence t with the two defining facts len(t) == length and t[i] == s[start + i] — a sound
    weakening (only consequences of the real sub-sequence are asserted).  Under a quantifier the extract term is kept."""
    if not extract_free(ex) or ex.qstack:
        return z3.Extract(s, start, length)
    start, length = z3.simplify(start) if z3.is_expr(start) else z3.IntVal(start), z3.simplify(length) if z3.is_expr(length) else z3.IntVal(length)
    if z3.is_int_value(length) and length.as_long() <= 0:
        return z3.Empty(s.sort())
    t = z3.Const(fresh_name("sub"), s.sort())
    i = z3.Int(fresh_name("bi"))
    st.assume(z3.Length(t) == length)
    st.assume(z3.ForAll([i], z3.Implies(z3.And(i >= 0, i < length), t[i] == s[start + i])))
    return t


def bridge_concat(ex, st, new, parts):
    """contract option seq_bridge=True: `new` is the concatenation of `parts` (sequence terms; a (\"unit\", v) pair for a
    single element).  Assume the positional consequences, with triggers on the NEW sequence (valid theorems of sequences
    that the solvers otherwise have to find by splitting nth(a ++ b, j) themselves)."""
    if not getattr(getattr(ex, "c", None), "seq_bridge", False) or ex.qstack:
        return new
    off = z3.IntVal(0)
    j = z3.Int(fresh_name("bj"))
    for p_ in parts:
        if isinstance(p_, tuple):
            assume_theorem(st, new[z3.simplify(off)] == p_[1])
            off = off + 1
            continue
        ln = z3.Length(p_)
        lo = z3.simplify(off)
        body_ = z3.Implies(z3.And(j >= lo, j < lo + ln), new[j] == p_[z3.simplify(j - lo)])
        try:
            if _contains_ite(new):
                raise z3.Z3Exception("ite in trigger")  # (z3 would print a warning to stderr before rejecting it)
            assume_theorem(st, z3.ForAll([j], body_, patterns=[new[j]]))
        except z3.Z3Exception:  # the new sequence is an ite / cannot be a trigger
            assume_theorem(st, z3.ForAll([j], body_))
        off = off + ln
    assume_theorem(st, z3.Length(new) == z3.simplify(off))
    return new


def _contains_ite(t_):
    todo, seen_ = [t_], set()
    while todo:
        u = todo.pop()
        if u.get_id() in seen_:
            continue
        seen_.add(u.get_id())
        if z3.is_app(u):
            if u.decl().kind() == z3.Z3_OP_ITE:
                return True
            todo.extend(u.children())
    return False


def assume_theorem(st, f):
    """assume a fact that holds of every real value (well-formedness of dicts, theorems of sequences), and remember that
    it is one: when a spec function is unfolded such facts are asserted next to the defining equation instead of
    becoming antecedents of it"""
    st.assume(f)
    st.ghost["__theorems__"] = st.ghost.get("__theorems__", frozenset()) | {f.get_id()}


def seq_member_facts(st, L):
    """every position of the sequence L holds a member of L (a theorem of sequences that the solvers do not find
    by themselves): forall i. 0 <= i < len(L) => contains(L, unit(L[i]))"""
    if _once(st, ("seqmem", L.get_id()), L):
        return
    i = z3.Int(fresh_name("mi"))
    assume_theorem(st, z3.ForAll([i], z3.Implies(z3.And(0 <= i, i < z3.Length(L)), z3.Contains(L, z3.Unit(L[i])))))


def seq_position_witness(st, L, esort):
    """every member of L sits at some position (Skolem function `pos`): contains(L, unit(x)) => L[pos(x)] == x"""
    if _once(st, ("seqpos", L.get_id()), L):
        return
    pos = z3.Function(fresh_name("seqpos"), esort, z3.IntSort())
    x = z3.Const(fresh_name("px"), esort)
    body = z3.Implies(z3.Contains(L, z3.Unit(x)), z3.And(0 <= pos(x), pos(x) < z3.Length(L), L[pos(x)] == x))
    # (explicit patterns on the contains atom were tried: the solvers rewrite that atom and the fact stops firing)
    assume_theorem(st, z3.ForAll([x], body))


def dict_wf(st, t, d, ex=None):
    """Well-formedness of a dict value: `keys` enumerates exactly `dom`, without duplicates.
    (An invariant of every Python dict; the engine's own updates preserve it.)
    Unless the contract says `dict_key_positions=False` also: every key sits at some position of `keys`."""
    if (ex is None or getattr(ex.c, "dict_key_positions", True)) and not _once(st, ("dictkeypos", d.get_id()), d):
        s = t.sort()
        ks, dom = s.keys(d), s.dom(d)
        pos = z3.Function(fresh_name("keypos"), t.k.sort(), z3.IntSort())
        x = fresh(t.k, "wk")
        assume_theorem(st, z3.ForAll([x], z3.Implies(z3.Select(dom, x), z3.And(0 <= pos(x), pos(x) < z3.Length(ks), ks[pos(x)] == x))))
    key = ("dictwf", d.get_id())
    if _once(st, key, d):
        return
    s = t.sort()
    ks, dom = s.keys(d), s.dom(d)
    i, j = z3.Int(fresh_name("wi")), z3.Int(fresh_name("wj"))
    assume_theorem(st, (z3.Length(ks) == 0) == (dom == z3.K(t.k.sort(), z3.BoolVal(False))))
    assume_theorem(st, z3.ForAll([i], z3.Implies(z3.And(0 <= i, i < z3.Length(ks)), z3.Select(dom, ks[i]))))
    assume_theorem(st, z3.ForAll([i, j], z3.Implies(z3.And(0 <= i, i < j, j < z3.Length(ks)), ks[i] != ks[j])))

def set_iteration_order(st, v: Val) -> Val:
    """list(S) / iteration of a set: an ARBITRARY duplicate-free enumeration of S (hash order)."""
    t = v.ty
    r = fresh(T.List(t.elem), "setorder")
    x = fresh(t.elem, "so")
    i, j = z3.Int(fresh_name("oi")), z3.Int(fresh_name("oj"))
    st.assume(z3.ForAll([x], z3.Contains(r, z3.Unit(x)) == z3.Select(lift(v), x)))
    st.assume(z3.ForAll([i, j], z3.Implies(z3.And(0 <= i, i < j, j < z3.Length(r)), r[i] != r[j])))
    return Val(T.List(t.elem), r)


def seq_to_set(v: Val, ex=None, st=None) -> Val:
    """set(list): λx. contains(list, x).  With `seq_positions=True` in the contract also: every position holds a
    member, every member has a position."""
    t = v.ty
    x = fresh(t.elem, "sx")
    from .core import seq_contains_elem

    if ex is not None and st is not None and getattr(ex.c, "seq_positions", False):
        seq_member_facts(st, lift(v))
        seq_position_witness(st, lift(v), t.elem.sort())
    return Val(T.Set(t.elem), z3.Lambda([x], seq_contains_elem(lift(v), x)), meta=("from_seq", lift(v)))


def carrier_info(v: Val):
    """the IterInfo behind an iteration carrier (`d.keys()`, `d.items()`, `range(n)`, `enumerate(..)`, `zip(..)`), else None"""
    if v.is_py and isinstance(v.py, tuple) and len(v.py) == 3 and v.py[0] == "iterinfo":
        return v.py[1]
    return None


def _item_val(item: Val) -> Val:
    """an iteration item as a data value (python-level tuples of values become Tuple values)"""
    if item.ty is PYOBJ and item.is_py and isinstance(item.py, tuple):
        parts = [_item_val(x if isinstance(x, Val) else Val.const(x)) for x in item.py]
        t = T.Tuple(*[p.ty for p in parts])
        return Val(t, t.sort().mk(*[lift(p) for p in parts]))
    if item.ty is PYOBJ:
        raise Unsupported("iteration item is a python-level object")
    return item


def carrier_to_list(ex, st, info, node) -> Val:
    """list(<iterable view>): the items in iteration order."""
    if info.kind == "concrete":
        return Val(PYOBJ, None, list(info.items), True)
    if info.kind == "set":
        raise Unsupported("list() of a set-like view", node)
    ex.need_positions(info, st)
    meta = getattr(info, "dict_items", None)
    if meta is not None and meta[2] == "keys":
        return Val(T.List(meta[0].k), meta[0].sort().keys(meta[1]))
    if info.seqval is not None and meta is None:
        return info.seqval
    i = z3.Int(fresh_name("li"))
    it = _item_val(info.item(i))
    r = fresh(T.List(it.ty), "aslist")
    st.assume(z3.Length(r) == info.n)
    st.assume(z3.ForAll([i], z3.Implies(z3.And(i >= 0, i < info.n), r[i] == lift(it))))
    return Val(T.List(it.ty), r)


def carrier_to_set(ex, st, info, node) -> Val:
    """set(<iterable view>): the set of its items."""
    if info.kind == "concrete":
        return _set(ex, st, [Val(PYOBJ, None, list(info.items), True)], {}, node)
    if info.kind == "set":
        return Val(T.Set(info.elem), info.set_term)
    meta = getattr(info, "dict_items", None)
    if meta is not None:
        dt, d, mode = meta
        s = dt.sort()
        if mode == "keys":
            return Val(T.Set(dt.k), s.dom(d))
        k = fresh(dt.k, "vk")
        if mode == "values":
            y = fresh(dt.v, "vy")
            return Val(T.Set(dt.v), z3.Lambda([y], z3.Exists([k], z3.And(z3.Select(s.dom(d), k), z3.Select(s.map(d), k) == y))))
        pt = T.Tuple(dt.k, dt.v)
        pr = fresh(pt, "vp")
        ps = pt.sort()
        return Val(T.Set(pt), z3.Lambda([pr], z3.And(z3.Select(s.dom(d), ps.accessor(0, 0)(pr)), z3.Select(s.map(d), ps.accessor(0, 0)(pr)) == ps.accessor(0, 1)(pr))))
    if info.seqval is not None:
        return seq_to_set(info.seqval, ex, st)
    i = z3.Int(fresh_name("si"))
    it = _item_val(info.item(i))
    y = fresh(it.ty, "sy")
    return Val(T.Set(it.ty), z3.Lambda([y], z3.Exists([i], z3.And(i >= 0, i < info.n, lift(it) == y))))


# ---- builtins ---------------------------------------------------------------------------------


@builtin("builtins.len", "len(c) is the number of elements")
def _len(ex, st, args, kwargs, node):
    (v,) = args
    info = carrier_info(v)
    if info is not None:
        if info.kind == "concrete":
            return Val.const(len(info.items))
        if info.kind == "indexed":
            ex.need_positions(info, st)
            return Val(T.INT, info.n)
        raise Unsupported("len() of a set-like view", node)
    if isinstance(v.ty, T.Ref):
        cs = ex.class_of(v.ty)
        if cs.length is None:
            raise Unsupported(f"len() of {v.ty}", node)
        return cs.length(ex, st, v)
    if isinstance(v.ty, T.Set) and not v.is_py:
        # cardinality: an uninterpreted function of the set with the facts that hold for EVERY finite set (>= 0, zero iff
        # empty); when the set was built from a sequence (`set(xs)`, `{x for x in xs}`): at most len(xs), and exactly
        # len(xs) when the elements of xs are pairwise distinct.  Nothing else is known (sound, far from complete).
        S = lift(v)
        card = z3.Function("card_" + T._mangle(v.ty.elem), S.sort(), z3.IntSort())
        n = card(S)
        assume_theorem(st, n >= 0)
        assume_theorem(st, (n == 0) == (S == z3.K(v.ty.elem.sort(), z3.BoolVal(False))))
        # exactly one element iff S is the singleton of its (chosen) element -- links `assert len(S) == 1` to `(x,) = S`
        only = z3.Function("only_" + T._mangle(v.ty.elem), S.sort(), v.ty.elem.sort())
        assume_theorem(st, (n == 1) == (S == z3.SetAdd(z3.EmptySet(v.ty.elem.sort()), only(S))))
        # only() is a choice function: it picks a member of every non-empty set (so `S == {x}` gives only(S) == x, hence len(S) == 1)
        assume_theorem(st, z3.Or(S == z3.K(v.ty.elem.sort(), z3.BoolVal(False)), z3.Select(S, only(S))))
        src = v.meta[1] if isinstance(v.meta, tuple) and len(v.meta) == 2 and v.meta[0] == "from_seq" else None
        if src is not None:
            i, j = z3.Int(fresh_name("ci")), z3.Int(fresh_name("cj"))
            assume_theorem(st, n <= z3.Length(src))
            assume_theorem(st, z3.Implies(z3.ForAll([i, j], z3.Implies(z3.And(0 <= i, i < j, j < z3.Length(src)), src[i] != src[j])), n == z3.Length(src)))
        return Val(T.INT, n)
    if isinstance(v.ty, T.Dict) and not v.is_py:
        dict_wf(st, v.ty, lift(v), ex)
    return ops.length(v)


def sort_key_args(ex, kwargs, node):
    """-> (key closure | None, reverse: bool); anything else is outside the subset"""
    key, rev = kwargs.get("key"), kwargs.get("reverse")
    extra = set(kwargs) - {"key", "reverse"}
    if extra:
        raise Unsupported(f"sorted({sorted(extra)[0]}=)", node)
    if rev is not None and not is_const(rev):
        raise Unsupported("sorted(reverse=<symbolic>)", node)
    if key is not None and key.is_py and key.py is None:
        key = None
    if key is not None and not getattr(ex.c, "sorted_axioms", False):
        raise Unsupported("sorted(key=): needs sorted_axioms=True in the contract", node)
    return key, bool(rev.py) if rev is not None else False


def sorted_facts(ex, st, src: Val, r, et, key, reverse, node):
    """Trusted axioms of sorting (contract option sorted_axioms=True), r = the sorted list of `src`:
    same element set, same length (lists) / no duplicates (sets, dict keys), ordered w.r.t. the key."""
    x = fresh(et, "sx")
    i, j = z3.Int(fresh_name("si")), z3.Int(fresh_name("sj"))
    n = z3.Length(r)
    t = src.ty
    if isinstance(t, T.List):
        s = lift(src)
        st.assume(n == z3.Length(s))
        st.assume(z3.ForAll([x], z3.Contains(r, z3.Unit(x)) == z3.Contains(s, z3.Unit(x))))
        seq_member_facts(st, r)
        seq_member_facts(st, s)
        if getattr(ex.c, "seq_positions", False):
            # (together with the member fact this is a matching loop for some goals: only with seq_positions=True)
            seq_position_witness(st, r, et.sort())
        strict = False
    else:
        dom = lift(src) if isinstance(t, T.Set) else t.sort().dom(lift(src))
        st.assume(z3.ForAll([x], z3.Contains(r, z3.Unit(x)) == z3.Select(dom, x)))
        st.assume(z3.ForAll([i], z3.Implies(z3.And(0 <= i, i < n), z3.Select(dom, r[i]))))
        st.assume((n == 0) == (dom == z3.K(et.sort(), z3.BoolVal(False))))
        if isinstance(t, T.Dict):
            dict_wf(st, t, lift(src), ex)
            st.assume(n == z3.Length(t.sort().keys(lift(src))))
        strict = key is None  # distinct elements: strictly increasing (with a key: only distinct)
        if key is not None:
            st.assume(z3.ForAll([i, j], z3.Implies(z3.And(0 <= i, i < j, j < n), r[i] != r[j])))

    def keyof(term):
        v = Val(et, term)
        if key is None:
            return v
        kv = ex.apply(key, [v], {}, st, node)
        return _item_val(kv)

    ex.qstack.append(([i, j], z3.And(0 <= i, i < j, j < n)))
    ex.qouter.append(st)
    try:
        a, b = keyof(r[i]), keyof(r[j])
    finally:
        ex.qstack.pop()
        ex.qouter.pop()
    if a.ty == T.BOOL:
        a, b = coerce(a, T.INT), coerce(b, T.INT)
    if not (T.is_num(a.ty) or a.ty == T.STR or isinstance(a.ty, T.Tuple) or (isinstance(a.ty, T.List) and (T.is_num(a.ty.elem) or a.ty.elem == T.STR))):
        raise Unsupported(f"sorted(): no order on {a.ty}", node)
    op = (ast.Gt() if strict else ast.GtE()) if reverse else (ast.Lt() if strict else ast.LtE())
    st.assume(z3.ForAll([i, j], z3.Implies(z3.And(0 <= i, i < j, j < n), z3bool(ops.compare(op, a, b, node)))))


def _mentions_bound(ex, term) -> bool:
    """does the term mention a variable bound by an enclosing quantified expression?"""
    if not ex.qstack:
        return False
    from .symex import _mentions

    return _mentions(term, {v.get_id() for vs, _ in ex.qstack for v in vs})


@builtin("builtins.sorted", "sorted(c) = the elements of c in increasing order (spec function sorted_T; with sorted_axioms=True: same elements, same length, ordered)")
def _sorted(ex, st, args, kwargs, node):
    args = [materialize(ex, a) for a in args]
    (v,) = args
    key, reverse = sort_key_args(ex, kwargs, node)
    if is_const(v) and key is None:
        return Val.const(sorted(v.py, reverse=reverse))
    info = carrier_info(v)
    if info is not None:
        meta = getattr(info, "dict_items", None)
        if meta is not None and meta[2] == "items" and info.kind != "concrete" and key is None and not reverse and not _mentions_bound(ex, meta[1]):
            # sorted(d.items()): keys are unique, so the pairs are ordered by their keys alone (the values never take part):
            # the pairs (k, d[k]) for k in sorted(d).  A FUNCTION of d (the same term at every evaluation), tied to the
            # term of sorted(d) position by position.
            dt, d, _mode = meta
            sk = _sorted(ex, st, [Val(dt, d)], {}, node)
            SK = lift(sk)
            pt = T.Tuple(dt.k, dt.v)
            R = z3.Function("sorted_items_" + T._mangle(dt), d.sort(), z3.SeqSort(pt.sort()))(d)
            if not _once(st, ("sorted_items", d.get_id()), d):
                i = z3.Int(fresh_name("si"))
                assume_theorem(st, z3.Length(R) == z3.Length(SK))
                assume_theorem(st, z3.ForAll([i], z3.Implies(z3.And(i >= 0, i < z3.Length(R)),
                                                             R[i] == pt.sort().constructor(0)(SK[i], z3.Select(dt.sort().map(d), SK[i]))), patterns=[R[i]]))
            return Val(T.List(pt), R)
        v = carrier_to_set(ex, st, info, node) if (meta is not None and meta[2] == "keys") else carrier_to_list(ex, st, info, node)
    if v.is_py and isinstance(v.py, (list, tuple)) and v.py:
        items = [x if isinstance(x, Val) else Val.const(x) for x in v.py]
        v = Val(T.List(items[0].ty), lift(Val(PYOBJ, None, list(items), True), T.List(items[0].ty)))
    t = v.ty
    if isinstance(t, T.Set):
        src, et, arg = v, t.elem, lift(v)
    elif isinstance(t, T.List):
        src, et, arg = v, t.elem, lift(v)
    elif isinstance(t, T.Dict):
        src, et, arg = v, t.k, t.sort().dom(lift(v))
        t = T.Set(t.k)
    else:
        raise Unsupported(f"sorted() of {t}", node)
    if key is None and not reverse:
        r = sorted_fn(t, et)(arg)
    else:
        # a sort with key= / reverse= is its own function of the input (fresh per call site)
        r = z3.Function(fresh_name("sortedby"), arg.sort(), z3.SeqSort(et.sort()))(arg)
    if getattr(ex.c, "sorted_axioms", False):
        sorted_facts(ex, st, src, r, et, key, reverse, node)
    return Val(T.List(et), r)


@builtin("builtins.set", "set(c) = the set of elements of c")
def _set(ex, st, args, kwargs, node):
    args = [materialize_set(ex, a) for a in args]
    if not args:
        return Val(PYOBJ, None, set(), True)
    (v,) = args
    if is_const(v):
        return Val.const(set(v.py))
    info = carrier_info(v)
    if info is not None:
        return carrier_to_set(ex, st, info, node)
    t = v.ty
    if isinstance(t, T.Set):
        return v
    if isinstance(t, T.List):
        return seq_to_set(v, ex, st)
    if isinstance(t, T.Dict):
        return Val(T.Set(t.k), t.sort().dom(lift(v)))
    if t == T.STR:
        x = fresh(T.STR, "ch")
        return Val(T.Set(T.STR), z3.Lambda([x], z3.And(z3.Length(x) == 1, z3.Contains(lift(v), x))))
    if v.is_py and isinstance(v.py, (list, tuple)):
        items = [x if isinstance(x, Val) else Val.const(x) for x in v.py]
        if not items:
            return Val(PYOBJ, None, set(), True)
        et = items[0].ty
        a = z3.K(et.sort(), z3.BoolVal(False))
        for i in items:
            a = z3.Store(a, lift(i, et), z3.BoolVal(True))
        return Val(T.Set(et), a)
    raise Unsupported(f"set() of {t}", node)


BUILTIN_MODELS["builtins.frozenset"] = Model("builtins.frozenset", _set, "frozenset(c) = set(c)")


@builtin("builtins.list", "list(c) = the elements of c in iteration order")
def _list(ex, st, args, kwargs, node):
    args = [materialize(ex, a) for a in args]
    if not args:
        return Val(PYOBJ, None, [], True)
    (v,) = args
    info = carrier_info(v)
    if info is not None:
        return carrier_to_list(ex, st, info, node)
    if v.is_py and isinstance(v.py, (list, tuple, range)):
        return Val(PYOBJ, None, list(v.py), True) if ops._has_val(v.py) else Val.const(list(v.py))
    t = v.ty
    if isinstance(t, T.TupleOf):
        return Val(T.List(t.elem), v.term)  # list(<tuple>): the same elements as a list
    if isinstance(t, T.List):
        return v
    if isinstance(t, T.Set):
        return set_iteration_order(st, v)
    if isinstance(t, T.Dict):
        dict_wf(st, t, lift(v), ex)
        return Val(T.List(t.k), t.sort().keys(lift(v)))
    if isinstance(t, T.Ref):
        info = ex.iter_info(v, st, node)
        if info.seqval is not None:
            return info.seqval
    raise Unsupported(f"list() of {t}", node)


@builtin("builtins.tuple", "tuple(c) of a concrete-length c")
def _tuple(ex, st, args, kwargs, node):
    args = [materialize(ex, a) for a in args]
    if not args:
        return Val.const(())
    (v,) = args
    info = carrier_info(v)
    if info is not None:
        v = carrier_to_list(ex, st, info, node)
    if v.is_py and isinstance(v.py, (list, tuple)):
        return Val(PYOBJ, None, tuple(v.py), True) if ops._has_val(v.py) else Val.const(tuple(v.py))
    if isinstance(v.ty, T.TupleOf):
        return v
    if isinstance(v.ty, T.List):
        want = getattr(ex, "_assign_want", None)
        if isinstance(want, T.TupleOf) or (isinstance(want, T.Union) and any(isinstance(a, T.TupleOf) for a in want.alts)):
            return Val(T.TupleOf(v.ty.elem), v.term)  # the receiving local is declared as a variable-length tuple
        return v  # immutable view of the same sequence (historical typing: List)
    raise Unsupported(f"tuple() of {v.ty}", node)


@builtin("builtins.dict", "dict(d) = a copy of d; dict() = {}")
def _dict(ex, st, args, kwargs, node):
    if not args and not kwargs:
        return Val(PYOBJ, None, {}, True)
    if kwargs and not args:
        return Val(PYOBJ, None, {k: (v.py if is_const(v) else v) for k, v in kwargs.items()}, True)
    (v,) = args
    if v.is_py and isinstance(v.py, dict):
        return Val(v.ty, None, dict(v.py), True)
    if isinstance(v.ty, T.Dict):
        return v
    raise Unsupported(f"dict() of {v.ty}", node)


@builtin("builtins.range", "range(a,b) = a, a+1, …, b-1")
def _range(ex, st, args, kwargs, node):
    if all(is_const(a) for a in args):
        return Val.const(range(*[a.py for a in args]))
    from .stmts import IterInfo

    if len(args) == 1:
        lo, hi = z3.IntVal(0), lift(args[0], T.INT)
    elif len(args) == 2:
        lo, hi = lift(args[0], T.INT), lift(args[1], T.INT)
    elif len(args) == 3 and is_const(args[2]) and isinstance(args[2].py, int) and args[2].py != 0:
        # constant step c: lo, lo+c, lo+2c, ... while before hi (in the direction of c)
        lo, hi, c = lift(args[0], T.INT), lift(args[1], T.INT), args[2].py
        if c > 0:
            n = z3.If(hi > lo, (hi - lo + (c - 1)) / c, 0)
        else:
            n = z3.If(lo > hi, (lo - hi + (-c - 1)) / (-c), 0)
        if c in (1, -1):
            n = z3.If(hi > lo, hi - lo, 0) if c == 1 else z3.If(lo > hi, lo - hi, 0)
        info = IterInfo("indexed", n=n, item=lambda i: Val(T.INT, lo + c * i))
        if c == 1:
            info.range = (lo, hi)
        return Val(PYOBJ, None, ("iterinfo", info, None), True)
    else:
        raise Unsupported("range with symbolic step", node)

    if len(args) == 1:
        n = z3.If(hi > 0, hi, 0)
        info = IterInfo("indexed", n=n, item=lambda i: Val(T.INT, i))
    else:
        n = z3.If(hi > lo, hi - lo, 0)
        info = IterInfo("indexed", n=n, item=lambda i: Val(T.INT, lo + i))
    info.range = (lo, hi)
    return Val(PYOBJ, None, ("iterinfo", info, None), True)


@builtin("builtins.enumerate", "enumerate(c) = (0,c0), (1,c1), …")
def _enumerate(ex, st, args, kwargs, node):
    v = args[0]
    start = args[1] if len(args) > 1 else kwargs.get("start", Val.const(0))
    from .stmts import IterInfo

    info = ex.iter_info(v, st, node)
    if info.kind == "concrete":
        if not is_const(start):
            raise Unsupported("enumerate symbolic start", node)
        return Val(PYOBJ, None, [Val(PYOBJ, None, (Val.const(i + start.py), x), True) for i, x in enumerate(info.items)], True)
    if info.kind != "indexed":
        raise Unsupported("enumerate over a set", node)
    s0 = lift(start, T.INT)
    new = IterInfo("indexed", n=info.n, item=lambda i: Val(PYOBJ, None, (Val(T.INT, s0 + i), info.item(i)), True), facts=info.facts, seqval=None)
    return Val(PYOBJ, None, ("iterinfo", new, None), True)


@builtin("builtins.zip", "zip(a,b) = (a0,b0), … up to the shorter length")
def _zip(ex, st, args, kwargs, node):
    from .stmts import IterInfo

    infos = [ex.iter_info(a, st, node) for a in args]
    if all(i.kind == "concrete" for i in infos):
        return Val(PYOBJ, None, [Val(PYOBJ, None, tuple(t), True) for t in zip(*[i.items for i in infos])], True)
    if any(i.kind == "set" for i in infos):
        raise Unsupported("zip over a set", node)

    def nof(i):
        return z3.IntVal(len(i.items)) if i.kind == "concrete" else i.n

    def itemof(i, k):
        if i.kind == "concrete":
            raise Unsupported("zip mixing concrete and symbolic lengths", node)
        return i.item(k)

    n = nof(infos[0])
    for i in infos[1:]:
        m = nof(i)
        n = z3.If(n <= m, n, m)
    new = IterInfo(
        "indexed", n=n, item=lambda k: Val(PYOBJ, None, tuple(itemof(i, k) for i in infos), True),
        facts=lambda k: [f for i in infos for f in i.facts(k)],
    )
    return Val(PYOBJ, None, ("iterinfo", new, None), True)


@builtin("itertools.product", "product(a, b) = the pairs (x, y), x from a (outer), y from b (inner), in iteration order")
def _product(ex, st, args, kwargs, node):
    from .stmts import IterInfo

    if len(args) != 2 or kwargs:
        raise Unsupported("itertools.product: exactly two iterables, no repeat=", node)
    ia, ib = [ex.iter_info(a, st, node) for a in args]
    if ia.kind == "concrete" and ib.kind == "concrete":
        return Val(PYOBJ, None, [Val(PYOBJ, None, (x, y), True) for x in ia.items for y in ib.items], True)
    if ia.kind == "set" or ib.kind == "set":
        raise Unsupported("itertools.product over a set (arbitrary order): iterate sorted(..) / a list", node)

    def nof(i):
        return z3.IntVal(len(i.items)) if i.kind == "concrete" else i.n

    def itemof(i, k):
        if i.kind == "concrete":
            raise Unsupported("itertools.product mixing concrete and symbolic lengths", node)
        return i.item(k)

    na, nb = nof(ia), nof(ib)
    # position k of the product is (a[k div nb], b[k mod nb]); the range facts of the quotient / remainder are stated
    # explicitly (they hold for 0 <= k < na * nb and are non-linear consequences the solvers rarely find)
    def facts(k):
        q, r = k / nb, k % nb
        return [q >= 0, q < na, r >= 0, r < nb, k == q * nb + r] + list(ia.facts(q)) + list(ib.facts(r))

    new = IterInfo("indexed", n=na * nb, item=lambda k: Val(PYOBJ, None, (itemof(ia, k / nb), itemof(ib, k % nb)), True), facts=facts)
    return Val(PYOBJ, None, ("iterinfo", new, None), True)


@builtin("builtins.reversed", "reversed(c) of a concrete-length c")
def _reversed(ex, st, args, kwargs, node):
    (v,) = args
    if v.is_py and isinstance(v.py, (list, tuple, range)):
        r = list(reversed(v.py))
        return Val(PYOBJ, None, r, True) if ops._has_val(r) else Val.const(r)
    raise Unsupported("reversed() of a symbolic sequence", node)


def _minmax(which):
    def f(ex, st, args, kwargs, node):
        dflt = kwargs.get("default")
        if set(kwargs) - {"default"}:
            raise Unsupported(f"{which}(key=)", node)
        args = [materialize(ex, a) for a in args]
        if dflt is not None:
            # max(c, default=d): d when c is empty (no ValueError), else the extremum
            if len(args) != 1:
                raise Unsupported(f"{which}(a, b, default=)", node)
            info = ex.iter_info(args[0], st, node)
            if info.kind == "concrete":
                return dflt if not info.items else f(ex, st, args, {}, node)
            empty = (info.n == 0) if info.kind == "indexed" else (info.set_term == z3.K(info.elem.sort(), z3.BoolVal(False)))
            from .exprs import pop_guards, push_guard

            mark = len(st.pc)
            push_guard(st, z3.Not(empty))
            try:
                m = f(ex, st, args, {}, node)
            finally:
                pop_guards(st, mark)
            return ops.ite(empty, dflt, m)
        if len(args) >= 2:
            if all(is_const(a) for a in args):
                return Val.const((min if which == "min" else max)(*[a.py for a in args]))
            r = args[0]
            for a in args[1:]:
                x, y, t = ops.num_join(r, a)
                c = (x <= y) if which == "min" else (x >= y)
                r = Val(t, z3.If(c, x, y))
            return r
        (v,) = args
        if is_const(v):
            return Val.const((min if which == "min" else max)(v.py))
        info = ex.iter_info(v, st, node)
        if info.kind == "concrete":
            if not info.items:
                ex.safety(st, z3.BoolVal(False), "ValueError", node)
            return f(ex, st, info.items, {}, node) if len(info.items) > 1 else info.items[0]
        if info.kind == "indexed":
            ex.safety(st, info.n > 0, "ValueError", node)
            i = z3.Int(fresh_name("mi"))
            et = info.item(i).ty
            if not T.is_num(et):
                raise Unsupported(f"{which}() over {et}", node)
            m = fresh(et, which)
            w = z3.Int(fresh_name("mw"))
            st.assume(z3.And(w >= 0, w < info.n, lift(info.item(w)) == m))
            st.assume(z3.ForAll([i], z3.Implies(z3.And(i >= 0, i < info.n), (m <= lift(info.item(i))) if which == "min" else (m >= lift(info.item(i))))))
            return Val(et, m)
        if info.kind == "set":
            if not T.is_num(info.elem):
                raise Unsupported(f"{which}() over a set of {info.elem}", node)
            ex.safety(st, info.set_term != z3.K(info.elem.sort(), z3.BoolVal(False)), "ValueError", node)
            m = fresh(info.elem, which)
            x = fresh(info.elem, "mx")
            st.assume(z3.Select(info.set_term, m))
            st.assume(z3.ForAll([x], z3.Implies(z3.Select(info.set_term, x), (m <= x) if which == "min" else (m >= x))))
            return Val(info.elem, m)
        raise Unsupported(f"{which}() of {v.ty}", node)

    return f


BUILTIN_MODELS["builtins.min"] = Model("builtins.min", _minmax("min"), "min(c) is an element of c not greater than any other")
BUILTIN_MODELS["builtins.max"] = Model("builtins.max", _minmax("max"), "max(c) is an element of c not smaller than any other")


@builtin("builtins.iter", "iter(c): a fresh iterator over c (only as the argument of next(..) or of a consumer of iterables)")
def _iter(ex, st, args, kwargs, node):
    (v,) = args
    info = ex.iter_info(v, st, node)
    return Val(PYOBJ, None, ("iterinfo", info, "iterator"), True)


@builtin("builtins.next", "next(iter(c)[, default]): the first element of c (StopIteration when c is empty and no default is given)")
def _next(ex, st, args, kwargs, node):
    if not (isinstance(node, ast.Call) and node.args and isinstance(node.args[0], ast.Call) and isinstance(node.args[0].func, ast.Name) and node.args[0].func.id == "iter"):
        raise Unsupported("next() of an iterator that is not created on the spot (`next(iter(c))`): iterator state is not modelled", node)
    info = carrier_info(args[0])
    if info is None:
        raise Unsupported("next() of this value", node)
    if info.kind == "concrete":
        if info.items:
            return info.items[0]
        if len(args) > 1:
            return args[1]
        ex.safety(st, z3.BoolVal(False), "StopIteration", node)
        raise Unsupported("next() of an empty constant iterable", node)
    if info.kind == "set":
        # an ARBITRARY element of the set
        x = fresh(info.elem, "anyelem")
        nonempty = info.set_term != z3.K(info.elem.sort(), z3.BoolVal(False))
        if len(args) > 1:
            st.assume(z3.Implies(nonempty, z3.Select(info.set_term, x)))
            return ops.ite(nonempty, Val(info.elem, x), args[1])
        ex.safety(st, nonempty, "StopIteration", node)
        st.assume(z3.Select(info.set_term, x))
        return Val(info.elem, x)
    first = info.item(z3.IntVal(0))
    if len(args) > 1:
        return ops.ite(info.n > 0, first, args[1])
    ex.safety(st, info.n > 0, "StopIteration", node)
    for f in info.facts(z3.IntVal(0)):
        st.assume(f)
    return first


def _anyall(which):
    def f(ex, st, args, kwargs, node):
        if len(args) != 1 or kwargs:
            raise Unsupported(f"{which}(): arity", node)
        (v,) = args
        if v.is_py and isinstance(v.py, tuple) and len(v.py) == 3 and v.py[0] == "genexp":
            return ex.quantified(which, v.py[1], v.py[2])
        info = ex.iter_info(v, st, node)
        if info.kind == "concrete":
            ts = [ex.truth(it, st, node) for it in info.items]
            return bool_val(z_and(*ts) if which == "all" else z_or(*ts))
        if info.kind == "indexed":
            i = z3.Int(fresh_name("qa"))
            guard = z3.And(i >= 0, i < info.n)
            body = z3bool(ex.truth(info.item(i), st, node))
        else:
            i = fresh(info.elem, "qa")
            guard = z3.Select(info.set_term, i)
            body = z3bool(ex.truth(Val(info.elem, i), st, node))
        if which == "all":
            return Val(T.BOOL, z3.ForAll([i], z3.Implies(guard, body)))
        return Val(T.BOOL, z3.Exists([i], z3.And(guard, body)))

    return f


BUILTIN_MODELS["builtins.any"] = Model("builtins.any", _anyall("any"), "any(c): some element of c is truthy")
BUILTIN_MODELS["builtins.all"] = Model("builtins.all", _anyall("all"), "all(c): every element of c is truthy")


@builtin("builtins.abs", "abs(x)")
def _abs(ex, st, args, kwargs, node):
    (v,) = args
    if is_const(v):
        return Val.const(abs(v.py))
    x = lift(v)
    return Val(v.ty, z3.If(x >= 0, x, -x))


@builtin("builtins.int", "int(x): truncation toward zero on reals; identity on ints")
def _int(ex, st, args, kwargs, node):
    if len(args) == 2:
        if all(is_const(a) for a in args):
            return Val.const(int(args[0].py, args[1].py))
        if is_const(args[1]) and args[1].py == 16 and args[0].ty == T.STR:
            f = z3.Function("spec_int_hex", z3.StringSort(), z3.IntSort())
            return Val(T.INT, f(lift(args[0])))
        raise Unsupported("int(s, base) of a symbolic string", node)
    (v,) = args
    if is_const(v):
        return Val.const(int(v.py))
    if v.ty == T.INT:
        return v
    if v.ty == T.BOOL:
        return coerce(v, T.INT)
    if v.ty == T.REAL:
        x = lift(v)
        return Val(T.INT, z3.If(x >= 0, z3.ToInt(x), -z3.ToInt(-x)))
    raise Unsupported(f"int() of {v.ty}", node)


@builtin("builtins.float", "float(x): the same number as a real (floats are treated as reals)")
def _float(ex, st, args, kwargs, node):
    (v,) = args
    if is_const(v):
        return Val.const(float(v.py))
    if v.ty in (T.INT, T.REAL):
        return coerce(v, T.REAL)
    raise Unsupported(f"float() of {v.ty}", node)


@builtin("builtins.bool", "bool(x): truthiness")
def _bool(ex, st, args, kwargs, node):
    (v,) = args
    return bool_val(ex.truth(v, st, node))


@builtin("builtins.str", "str(x) for str and int")
def _str(ex, st, args, kwargs, node):
    (v,) = args
    return ex.to_str(v, node)


@builtin("builtins.round", "round(x) (banker's rounding) — only on constants")
def _round(ex, st, args, kwargs, node):
    if all(is_const(a) for a in args):
        return Val.const(round(*[a.py for a in args]))
    raise Unsupported("round() of a symbolic value", node)


@builtin("builtins.isinstance", "isinstance on declared unions / static types")
def _isinstance(ex, st, args, kwargs, node):
    v, k = args
    from .symex import FuncRef

    ks = k.py if k.is_py and isinstance(k.py, tuple) else (k,)
    pys = []
    for kk in ks:
        kk = kk if isinstance(kk, Val) else Val.const(kk)
        if not (kk.is_py and isinstance(kk.py, FuncRef) and inspect.isclass(kk.py.obj)):
            raise Unsupported("isinstance with a non-class", node)
        pys.append(kk.py.obj)
    if is_const(v):
        return Val.const(isinstance(v.py, tuple(pys)))

    def static(t):
        m = {T.STR: str, T.INT: int, T.REAL: float, T.BOOL: bool}
        if t in m:
            return any(issubclass(m[t], p) for p in pys)
        if isinstance(t, T.Enum):
            return any(issubclass(t.pycls(), p) for p in pys)
        if isinstance(t, T.TupleOf):
            return any(issubclass(tuple, p) for p in pys)
        if isinstance(t, T.List):
            return any(issubclass(list, p) for p in pys)
        if isinstance(t, T.Tuple):
            return any(issubclass(tuple, p) for p in pys)
        if isinstance(t, T.Set):
            return any(issubclass(set, p) or issubclass(frozenset, p) for p in pys)
        if isinstance(t, T.Dict):
            return any(issubclass(dict, p) for p in pys)
        if t == T.NONE:
            return any(issubclass(type(None), p) for p in pys)
        if isinstance(t, T.Ref):
            cs = ex.class_of(t)
            tags = getattr(cs, "isa", None)
            names = {p.__name__ for p in pys}
            if tags is not None:
                return bool(names & set(tags))
            return cs.name in names
        raise Unsupported(f"isinstance on {t}", node)

    t = v.ty
    if v.is_py and isinstance(v.py, (list, tuple, dict, set)):
        return Val.const(isinstance(v.py, tuple(pys)))
    if isinstance(t, T.Union):
        s = t.sort()
        parts = [getattr(s, f"is_alt{i}")(lift(v)) for i, a in enumerate(t.alts) if static(a)]
        return bool_val(z_or(*parts))
    if isinstance(t, T.Opt):
        inner = static(t.inner)
        nn = any(issubclass(type(None), p) for p in pys)
        s = t.sort()
        return bool_val(z_or(z_and(s.is_some(lift(v)), inner), z_and(s.is_nil(lift(v)), nn)))
    return Val.const(static(t))


@builtin("builtins.getattr", "getattr with a literal attribute name")
def _getattr(ex, st, args, kwargs, node):
    o, n = args[0], args[1]
    if not is_const(n):
        raise Unsupported("getattr with a computed name", node)
    if isinstance(o.ty, T.Ref):
        cs = ex.class_of(o.ty)
        if n.py in cs.fields or ex.find_method(cs, n.py) is not None:
            has = cs.has.get(n.py) if getattr(cs, "has", None) else None
            v = ex.getattr(o, n.py, st, node)
            if len(args) > 2 and has is not None:
                return ops.ite(z3bool(ex.truth(ex.read_field(st, o, has), st)), v, args[2])
            return v
        if len(args) > 2 and n.py in getattr(cs, "absent", ()):
            return args[2]
        raise Unsupported(f"getattr({cs.name}, {n.py!r})", node)
    return ex.getattr(o, n.py, st, node)


@builtin("builtins.hasattr", "hasattr with a literal attribute name on a declared class")
def _hasattr(ex, st, args, kwargs, node):
    o, n = args
    if not is_const(n):
        raise Unsupported("hasattr with a computed name", node)
    if isinstance(o.ty, T.Ref):
        cs = ex.class_of(o.ty)
        has = cs.has.get(n.py) if getattr(cs, "has", None) else None
        if has is not None:
            return ex.read_field(st, o, has)
        if n.py in cs.fields or ex.find_method(cs, n.py) is not None:
            return Val.const(True)
        if n.py in getattr(cs, "absent", ()):
            return Val.const(False)
    raise Unsupported(f"hasattr({o.ty}, {n})", node)


@builtin("builtins.setattr", "setattr with a literal attribute name")
def _setattr(ex, st, args, kwargs, node):
    o, n, v = args
    if not is_const(n):
        raise Unsupported("setattr with a computed name", node)
    ex.write_field(st, o, n.py, v, node)
    return Val.const(None)


@builtin("fontTools.misc.fixedTools.otRound", "otRound(v) == floor(v + 1/2) (exact on reals)")
def _otround(ex, st, args, kwargs, node):
    return ops.ot_round(args[0])


@builtin("fontTools.misc.roundTools.otRound", "otRound(v) == floor(v + 1/2) (exact on reals)")
def _otround2(ex, st, args, kwargs, node):
    return ops.ot_round(args[0])


# ---- methods on data values -------------------------------------------------------------------------------------


def list_extend(ex, cur: Val, rhs: Val, node):
    t = cur.ty if isinstance(cur.ty, T.List) else rhs.ty if isinstance(rhs.ty, T.List) else None
    if cur.is_py and isinstance(cur.py, list) and rhs.is_py and isinstance(rhs.py, (list, tuple)):
        r = list(cur.py) + list(rhs.py)
        return Val(PYOBJ, None, r, True) if ops._has_val(r) else Val.const(r)
    if t is None:
        raise Unsupported("list extension of unknown element type", node)
    return Val(t, z3.Concat(lift(cur, t), lift(rhs, t)))


def set_item(ex, st, recv: Val, idx: Val, v: Val, node) -> Val:
    recv = ex.deopt(recv, st, node)
    idx = ex.deopt(idx, st, node)
    if recv.is_py and isinstance(recv.py, dict) and is_const(idx):
        d = dict(recv.py)
        d[idx.py] = v.py if is_const(v) else v
        return Val(PYOBJ, None, d, True) if ops._has_val(d) else Val.const(d)
    if recv.is_py and isinstance(recv.py, list) and is_const(idx):
        l = list(recv.py)
        l[idx.py] = v.py if is_const(v) else v
        return Val(PYOBJ, None, l, True)
    t = recv.ty
    if recv.is_py and isinstance(recv.py, dict) and not recv.py:
        want = getattr(recv, "meta", None)
        t = want if isinstance(want, T.Dict) else T.Dict(idx.ty, v.ty)
        recv = coerce(recv, t)
    if isinstance(t, T.Dict):
        s = t.sort()
        d = lift(recv)
        k = lift(idx, t.k)
        was = z3.Select(s.dom(d), k)
        keys = z3.If(was, s.keys(d), z3.Concat(s.keys(d), z3.Unit(k)))
        return Val(t, s.mk(z3.Store(s.dom(d), k, z3.BoolVal(True)), z3.Store(s.map(d), k, lift(v, t.v)), keys))
    if isinstance(t, T.List):
        s = lift(recv)
        j = ex.norm_index(lift(idx, T.INT), z3.Length(s), st, node)
        new = z3.Concat(sub_seq(ex, st, s, 0, j), z3.Unit(lift(v, t.elem)), sub_seq(ex, st, s, j + 1, z3.Length(s) - j - 1))
        return Val(t, new)
    raise Unsupported(f"item store on {t}", node)


def del_item(ex, st, recv: Val, idx: Val, node) -> Val:
    recv = ex.deopt(recv, st, node)
    idx = ex.deopt(idx, st, node)
    t = recv.ty
    if recv.is_py and isinstance(recv.py, dict) and is_const(idx):
        d = dict(recv.py)
        if idx.py not in d:
            ex.safety(st, z3.BoolVal(False), "KeyError", node)
        d.pop(idx.py, None)
        return Val(PYOBJ, None, d, True) if ops._has_val(d) else Val.const(d)
    if isinstance(t, T.Dict):
        s = t.sort()
        d = lift(recv)
        k = lift(idx, t.k)
        ex.safety(st, z3.Select(s.dom(d), k), "KeyError", node)
        ks = fresh(T.List(t.k), "keys")
        ndom = z3.Store(s.dom(d), k, z3.BoolVal(False))
        y = fresh(t.k, "y")
        st.assume(z3.ForAll([y], z3.Contains(ks, z3.Unit(y)) == z3.Select(ndom, y)))
        st.assume(z3.Length(ks) == z3.Length(s.keys(d)) - 1)
        return Val(t, s.mk(ndom, s.map(d), ks))
    if recv.is_py and isinstance(recv.py, list) and is_const(idx) and isinstance(idx.py, int):
        l = list(recv.py)
        if not -len(l) <= idx.py < len(l):
            ex.safety(st, z3.BoolVal(False), "IndexError", node)
            raise Unsupported("constant index out of range", node)
        del l[idx.py]
        return _pyc(l)
    if isinstance(t, T.List):
        # del xs[i]: IndexError obligation, python index normalisation, the rest closes up
        s = lift(recv)
        n = z3.Length(s)
        j = ex.norm_index(lift(idx, T.INT), n, st, node)
        return Val(t, z3.Concat(sub_seq(ex, st, s, 0, j), sub_seq(ex, st, s, j + 1, n - j - 1)))
    raise Unsupported(f"del item on {t}", node)


def _need(args, n, node, name):
    if len(args) != n:
        raise Unsupported(f"{name}: arity", node)


def mutate(ex, st, recv: Val, name, args, kwargs, node):
    """In-place container method: returns (new receiver value, call result)."""
    args = [ex.resolve_union(a, st) for a in args]
    rt_ = recv.ty.inner if isinstance(recv.ty, T.Opt) else recv.ty
    as_set = (isinstance(rt_, T.Set) or (recv.is_py and isinstance(recv.py, (set, frozenset)))) and name in ("update", "difference_update", "intersection_update", "symmetric_difference_update")
    args = [materialize_set(ex, a) if as_set else materialize(ex, a) for a in args]
    if name == "extend" and args and carrier_info(args[0]) is not None:
        # xs.extend(d.values()) / .keys() / .items() / range(..) / enumerate(..): the items of the view in iteration order
        args = [carrier_to_list(ex, st, carrier_info(args[0]), node)] + list(args[1:])
    none = Val.const(None)
    recv = ex.deopt(recv, st, node)
    if name in ("setdefault", "pop", "remove", "discard", "add") and args and isinstance(recv.ty, (T.Dict, T.Set)):
        args = [ex.deopt(args[0], st, node)] + list(args[1:])
    t = recv.ty
    if recv.is_py and isinstance(recv.py, list):
        l = list(recv.py)
        if name == "append":
            _need(args, 1, node, name)
            l.append(args[0].py if is_const(args[0]) else args[0])
            return _pyc(l), none
        if name == "extend" and args[0].is_py and isinstance(args[0].py, (list, tuple)):
            l.extend(args[0].py)
            return _pyc(l), none
        if name == "reverse":
            l.reverse()
            return _pyc(l), none
        if name == "insert" and is_const(args[0]):
            l.insert(args[0].py, args[1].py if is_const(args[1]) else args[1])
            return _pyc(l), none
        if name == "pop" and not args:
            x = l.pop()
            return _pyc(l), x if isinstance(x, Val) else Val.const(x)
        if name == "clear":
            return _pyc([]), none
        # fall through to the symbolic encoding
        et = None
        if name in ("extend",) and isinstance(args[0].ty, T.List):
            et = args[0].ty
        if et is None and ex.c is not None:
            raise Unsupported(f"list.{name} on a constant list with symbolic argument: declare the local's type", node)
        recv = coerce(recv, et)
        t = et
    if recv.is_py and isinstance(recv.py, set):
        s = set(recv.py)
        if name == "add" and is_const(args[0]):
            s.add(args[0].py)
            return Val.const(s), none
        if name == "update" and is_const(args[0]):
            s.update(args[0].py)
            return Val.const(s), none
        if not s and name in ("add", "update"):
            et = T.Set(args[0].ty) if name == "add" else args[0].ty if isinstance(args[0].ty, T.Set) else None
            if et is None:
                raise Unsupported("set.update on empty constant set: declare the local's type", node)
            recv = coerce(Val.const(set()), et) if False else Val(et, z3.K(et.elem.sort(), z3.BoolVal(False)))
            t = et
        else:
            raise Unsupported(f"set.{name} on a constant set with symbolic argument", node)
    if recv.is_py and isinstance(recv.py, dict):
        d = dict(recv.py)
        if name == "update" and args and args[0].is_py and isinstance(args[0].py, dict):
            d.update(args[0].py)
            return _pyc(d), none
        if name == "pop" and is_const(args[0]):
            if args[0].py in d:
                x = d.pop(args[0].py)
                return _pyc(d), x if isinstance(x, Val) else Val.const(x)
            if len(args) > 1:
                return _pyc(d), args[1]
            ex.safety(st, z3.BoolVal(False), "KeyError", node)
        if name == "setdefault" and is_const(args[0]):
            if args[0].py in d:
                x = d[args[0].py]
                return recv, x if isinstance(x, Val) else Val.const(x)
            d[args[0].py] = args[1].py if is_const(args[1]) else args[1]
            return _pyc(d), args[1]
        if name == "clear":
            return _pyc({}), none
        if not d and name == "update" and isinstance(args[0].ty, T.Dict):
            return args[0], none
        raise Unsupported(f"dict.{name} on a constant dict with symbolic argument", node)
    if isinstance(t, T.List):
        s = lift(recv)
        if name == "append":
            _need(args, 1, node, name)
            v_ = lift(args[0], t.elem)
            return Val(t, bridge_concat(ex, st, z3.Concat(s, z3.Unit(v_)), [s, ("unit", v_)])), none
        if name == "extend":
            _need(args, 1, node, name)
            a = args[0]
            if isinstance(a.ty, T.Set) and not a.is_py:
                a = set_iteration_order(st, a)
            a_ = lift(a, t)
            return Val(t, bridge_concat(ex, st, z3.Concat(s, a_), [s, a_])), none
        if name == "insert":
            if is_const(args[0]) and args[0].py == 0:
                v_ = lift(args[1], t.elem)
                return Val(t, bridge_concat(ex, st, z3.Concat(z3.Unit(v_), s), [("unit", v_), s])), none
            # list.insert clamps the position: i < 0 counts from the end (not below 0), i > len appends
            _need(args, 2, node, name)
            i = lift(args[0], T.INT)
            n = z3.Length(s)
            if ex.entails(st, z3.And(i >= 0, i <= n)):
                k = i
            else:
                k = z3.If(i < 0, z3.If(n + i < 0, 0, n + i), z3.If(i > n, n, i))
            v_ = lift(args[1], t.elem)
            p1, p2 = sub_seq(ex, st, s, 0, k), sub_seq(ex, st, s, k, n - k)
            return Val(t, bridge_concat(ex, st, z3.Concat(p1, z3.Unit(v_), p2), [p1, ("unit", v_), p2])), none
        if name == "pop" and not args:
            n = z3.Length(s)
            ex.safety(st, n > 0, "IndexError", node)
            return Val(t, sub_seq(ex, st, s, 0, n - 1)), Val(t.elem, s[n - 1])
        if name == "clear":
            return Val(t, z3.Empty(t.sort())), none
        if name == "sort":
            return _sorted(ex, st, [recv], kwargs, node), none
        if name == "reverse":
            f = z3.Function("reversed_" + T._mangle(t), t.sort(), t.sort())
            return Val(t, f(s)), none
        if name == "remove":
            x = lift(args[0], t.elem)
            ex.safety(st, z3.Contains(s, z3.Unit(x)), "ValueError", node)
            i = z3.IndexOf(s, z3.Unit(x), 0)
            return Val(t, z3.Concat(sub_seq(ex, st, s, 0, i), sub_seq(ex, st, s, i + 1, z3.Length(s) - i - 1))), none
        raise Unsupported(f"list.{name}", node)
    if isinstance(t, T.Set):
        s = lift(recv)
        if name == "add":
            return Val(t, z3.Store(s, lift(args[0], t.elem), z3.BoolVal(True))), none
        if name == "remove":
            x = lift(args[0], t.elem)
            ex.safety(st, z3.Select(s, x), "KeyError", node)
            return Val(t, z3.Store(s, x, z3.BoolVal(False))), none
        if name == "discard":
            return Val(t, z3.Store(s, lift(args[0], t.elem), z3.BoolVal(False))), none
        if name == "update":
            r = s
            for a in args:
                r = z3.SetUnion(r, lift(_as_set(ex, st, a, t, node), t))
            return Val(t, r), none
        if name == "difference_update":
            r = s
            for a in args:
                r = z3.SetDifference(r, lift(_as_set(ex, st, a, t, node), t))
            return Val(t, r), none
        if name == "intersection_update":
            r = s
            for a in args:
                r = z3.SetIntersect(r, lift(_as_set(ex, st, a, t, node), t))
            return Val(t, r), none
        if name == "clear":
            return Val(t, z3.K(t.elem.sort(), z3.BoolVal(False))), none
        raise Unsupported(f"set.{name}", node)
    if isinstance(t, T.Dict):
        s = t.sort()
        d = lift(recv)
        if name == "update":
            _need(args, 1, node, name)
            o = lift(args[0], t)
            ndom = z3.SetUnion(s.dom(d), s.dom(o))
            k = fresh(t.k, "uk")
            nmap = z3.Lambda([k], z3.If(z3.Select(s.dom(o), k), z3.Select(s.map(o), k), z3.Select(s.map(d), k)))
            ks = fresh(T.List(t.k), "keys")
            y = fresh(t.k, "y")
            st.assume(z3.ForAll([y], z3.Contains(ks, z3.Unit(y)) == z3.Select(ndom, y)))
            return Val(t, s.mk(ndom, nmap, ks)), none
        if name == "setdefault":
            k = lift(args[0], t.k)
            dv = lift(args[1], t.v) if len(args) > 1 else None
            if dv is None:
                raise Unsupported("dict.setdefault without default", node)
            was = z3.Select(s.dom(d), k)
            nv = z3.If(was, z3.Select(s.map(d), k), dv)
            keys = z3.If(was, s.keys(d), z3.Concat(s.keys(d), z3.Unit(k)))
            return Val(t, s.mk(z3.Store(s.dom(d), k, z3.BoolVal(True)), z3.Store(s.map(d), k, nv), keys)), Val(t.v, nv)
        if name == "pop":
            k = lift(args[0], t.k)
            was = z3.Select(s.dom(d), k)
            if len(args) == 1:
                ex.safety(st, was, "KeyError", node)
                res = Val(t.v, z3.Select(s.map(d), k))
            else:
                res = ops.ite(was, Val(t.v, z3.Select(s.map(d), k)), args[1])
            ndom = z3.Store(s.dom(d), k, z3.BoolVal(False))
            ks = fresh(T.List(t.k), "keys")
            y = fresh(t.k, "y")
            st.assume(z3.ForAll([y], z3.Contains(ks, z3.Unit(y)) == z3.Select(ndom, y)))
            return Val(t, s.mk(ndom, s.map(d), ks)), res
        if name == "clear":
            return Val(t, s.mk(z3.K(t.k.sort(), z3.BoolVal(False)), s.map(d), z3.Empty(z3.SeqSort(t.k.sort())))), none
        raise Unsupported(f"dict.{name}", node)
    raise Unsupported(f"mutating method {name} on {t}", node)


def _pyc(o):
    return Val(PYOBJ, None, o, True) if ops._has_val(o) or not o else Val.const(o)


def _as_set(ex, st, a: Val, t, node):
    if isinstance(a.ty, T.Set):
        return a
    return _set(ex, st, [a], {}, node)


def value_method(ex, st, recv: Val, name, args, kwargs, node) -> Val:
    """Non-mutating methods of str / list / set / dict / tuple values."""
    args = [ex.resolve_union(a, st) for a in args]  # Union arguments whose alternative the path fixes
    if is_const(recv) and all(is_const(a) for a in args) and all(is_const(v) for v in kwargs.values()) and not isinstance(recv.py, (list, dict, set)) :
        try:
            r = getattr(recv.py, name)(*[a.py for a in args], **{k: v.py for k, v in kwargs.items()})
        except Exception as e:  # noqa
            raise Unsupported(f"constant method call raises {e!r}", node)
        return Val.const(r)
    t = recv.ty
    if recv.is_py and isinstance(recv.py, (list, tuple, dict, set, frozenset)):
        o = recv.py
        if isinstance(o, dict):
            if name == "items":
                return Val(PYOBJ, None, [Val(PYOBJ, None, (Val.const(k), v if isinstance(v, Val) else Val.const(v)), True) for k, v in o.items()], True)
            if name == "keys":
                return Val.const(list(o.keys()))
            if name == "values":
                return Val(PYOBJ, None, [v if isinstance(v, Val) else Val.const(v) for v in o.values()], True)
            if name == "get" and is_const(args[0]):
                if args[0].py in o:
                    x = o[args[0].py]
                    return x if isinstance(x, Val) else Val.const(x)
                return args[1] if len(args) > 1 else Val.const(None)
            if name == "copy":
                return Val(recv.ty, None, dict(o), True)
            if t is PYOBJ:
                raise Unsupported(f"dict.{name} on heterogeneous constant dict with symbolic argument", node)
        if isinstance(o, (list, tuple)) and name == "copy":
            return Val(recv.ty, None, list(o), True)
        if isinstance(o, (list, tuple)) and name in ("index", "count") and t is PYOBJ:
            raise Unsupported(f"{name} on heterogeneous sequence", node)
        if t is PYOBJ and o:
            raise Unsupported(f"method {name} on heterogeneous container", node)
        if t is PYOBJ and not o:
            # empty container of unknown element type
            if name == "get":
                return args[1] if len(args) > 1 else Val.const(None)
            if name in ("items", "keys", "values"):
                return Val.const([])
            if name == "copy":
                return recv
            raise Unsupported(f"method {name} on empty container of unknown type", node)
    if t == T.STR:
        s = lift(recv)
        if name == "startswith":
            p = args[0]
            if p.is_py and isinstance(p.py, tuple):
                return bool_val(z_or(*[z3.PrefixOf(z3.StringVal(x), s) for x in p.py]))
            return Val(T.BOOL, z3.PrefixOf(lift(p, T.STR), s))
        if name == "endswith":
            p = args[0]
            if p.is_py and isinstance(p.py, tuple):
                return bool_val(z_or(*[z3.SuffixOf(z3.StringVal(x), s) for x in p.py]))
            return Val(T.BOOL, z3.SuffixOf(lift(p, T.STR), s))
        if name == "join":
            (a,) = args
            a = materialize(ex, a)
            items = _items_of(ex, st, a, node)
            if items is not None:
                parts = []
                for k, it in enumerate(items):
                    if k:
                        parts.append(s)
                    parts.append(lift(it, T.STR))
                if not parts:
                    return Val.const("")
                return Val(T.STR, parts[0] if len(parts) == 1 else z3.Concat(*parts))
            if isinstance(a.ty, T.List) and a.ty.elem == T.STR:
                f = z3.Function("str_join", z3.StringSort(), z3.SeqSort(z3.StringSort()), z3.StringSort())
                return Val(T.STR, f(s, lift(a)))
            raise Unsupported("str.join of a symbolic iterable", node)
        if name in ("lower", "upper", "strip", "title", "lstrip", "rstrip", "zfill", "replace", "capitalize", "swapcase", "casefold") and all(is_const(a) for a in args) and not kwargs:
            # an uninterpreted (deterministic) function of the receiver, one symbol per method + constant arguments
            key = name + ("_" + "_".join(repr(a.py) for a in args) if args else "")
            f = z3.Function("str_" + "".join(c if c.isalnum() else "_" for c in key), z3.StringSort(), z3.StringSort())
            return Val(T.STR, f(s))
        if name in ("isalpha", "isdigit", "isalnum", "isspace", "isupper", "islower", "isnumeric", "isdecimal", "isidentifier", "istitle", "isascii") and not args and not kwargs:
            # an uninterpreted predicate of the string (a function of s; nothing else is known about it)
            return Val(T.BOOL, z3.Function("str_" + name, z3.StringSort(), z3.BoolSort())(s))
        if name == "ljust" and is_const(args[0]) and len(args) == 1:
            n = args[0].py
            r = s
            ln = z3.Length(s)
            pad = z3.StringVal("")
            res = s
            for k in range(n, 0, -1):
                pass
            # piecewise: length l < n gets n-l spaces
            out = s
            for l in range(n):
                out = z3.If(ln == l, z3.Concat(s, z3.StringVal(" " * (n - l))), out)
            return Val(T.STR, out)
        if name in ("strip", "lstrip", "rstrip") and len(args) == 1 and args[0].ty == T.STR and not kwargs:
            # a SYMBOLIC character-set argument: an uninterpreted binary function of (s, chars)
            f = z3.Function(f"str_{name}2", z3.StringSort(), z3.StringSort(), z3.StringSort())
            return Val(T.STR, f(s, lift(args[0], T.STR)))
        if name == "format":
            # a literal template whose fields are all plain `{}`: concatenation of str() of the arguments
            import string as _string

            if not is_const(recv) or kwargs:
                raise Unsupported("str.format with a symbolic template / keyword arguments", node)
            parts, k = [], 0
            for lit, field, spec, conv in _string.Formatter().parse(recv.py):
                if lit:
                    parts.append(Val.const(lit))
                if field is None:
                    continue
                if field != "" or spec or conv:
                    raise Unsupported(f"str.format field {{{field}{'!' + conv if conv else ''}{':' + spec if spec else ''}}} with symbolic arguments", node)
                if k >= len(args):
                    raise Unsupported("str.format arity", node)
                parts.append(ex.to_str(ex.deopt(args[k], st, node), node))
                k += 1
            if k != len(args):
                raise Unsupported("str.format arity", node)
            if all(is_const(p_) for p_ in parts):
                return Val.const("".join(p_.py for p_ in parts))
            return Val(T.STR, z3.Concat(*[lift(p_, T.STR) for p_ in parts]) if len(parts) > 1 else lift(parts[0], T.STR))
        if name == "encode" or name == "decode":
            raise Unsupported("str.encode/decode", node)
        raise Unsupported(f"str.{name}", node)
    if isinstance(t, T.Dict):
        d = lift(recv)
        s = t.sort()
        from .stmts import IterInfo

        if name == "get":
            k = lift(args[0], t.k)
            dflt = args[1] if len(args) > 1 else Val.const(None)
            return ops.ite(z3.Select(s.dom(d), k), Val(t.v, z3.Select(s.map(d), k)), dflt)
        if name in ("items", "keys", "values"):
            ks = s.keys(d)

            def item(i, name=name):
                kv = Val(t.k, ks[i])
                vv = Val(t.v, z3.Select(s.map(d), ks[i]))
                return {"items": Val(PYOBJ, None, (kv, vv), True), "keys": kv, "values": vv}[name]

            info = IterInfo("indexed", n=z3.Length(ks), item=item, facts=lambda i: [z3.Select(s.dom(d), ks[i])],
                            seqval=Val(T.List(t.k), ks))
            info.dict_items = (t, d, name)
            info.need_wf = (t, d)  # assumed only when a consumer uses positions (StmtMixin.need_positions)
            return Val(PYOBJ, None, ("iterinfo", info, None), True)
        if name == "copy":
            return recv
        raise Unsupported(f"dict.{name}", node)
    if isinstance(t, T.Set):
        s = lift(recv)
        if name == "copy":
            return recv
        if name in ("union", "difference", "intersection"):
            r = s
            for a in args:
                o = lift(_as_set(ex, st, a, t, node), t)
                r = {"union": z3.SetUnion, "difference": z3.SetDifference, "intersection": z3.SetIntersect}[name](r, o)
            return Val(t, r)
        if name in ("issubset", "isdisjoint", "issuperset"):
            # pointwise form (forall x. ..): far more stable in the solvers than set algebra + extensionality
            o = lift(_as_set(ex, st, args[0], t, node), t)
            x = fresh(t.elem, "sx")
            sx, ox = z3.Select(s, x), z3.Select(o, x)
            body = z3.Implies(sx, ox) if name == "issubset" else z3.Implies(ox, sx) if name == "issuperset" else z3.Not(z3.And(sx, ox))
            return Val(T.BOOL, z3.ForAll([x], body))
        raise Unsupported(f"set.{name}", node)
    if isinstance(t, T.List):
        s = lift(recv)
        if name == "copy":
            return recv
        if name == "index":
            x = z3.Unit(lift(args[0], t.elem))
            ex.safety(st, z3.Contains(s, x), "ValueError", node)
            return Val(T.INT, z3.IndexOf(s, x, 0))
        if name == "count":
            raise Unsupported("list.count", node)
        raise Unsupported(f"list.{name}", node)
    raise Unsupported(f"method {name} on {t}", node)
