"""Primitive operations on Vals (arithmetic, comparison, truthiness, containers)."""
from __future__ import annotations

import ast
import operator

import z3

from . import ty as T
from .core import PYOBJ, ContractMisfit, PyMerge, Unsupported, Val, coerce, fresh, join_types, lift, py_type_of, real_const

_PYBIN = {
    ast.Add: operator.add,
    ast.Sub: operator.sub,
    ast.Mult: operator.mul,
    ast.Div: operator.truediv,
    ast.FloorDiv: operator.floordiv,
    ast.Mod: operator.mod,
    ast.Pow: operator.pow,
    ast.LShift: operator.lshift,
    ast.RShift: operator.rshift,
    ast.BitOr: operator.or_,
    ast.BitAnd: operator.and_,
    ast.BitXor: operator.xor,
}
_PYCMP = {
    ast.Eq: operator.eq,
    ast.NotEq: operator.ne,
    ast.Lt: operator.lt,
    ast.LtE: operator.le,
    ast.Gt: operator.gt,
    ast.GtE: operator.ge,
}


_CT = (int, float, str, bool, type(None), tuple, list, dict, set, frozenset, range)


def is_carrier(o) -> bool:
    """python-level carriers (iteration descriptors, pending generator expressions) are not constants"""
    return isinstance(o, tuple) and len(o) == 3 and o[0] in ("iterinfo", "genexp")


def is_const(v: Val) -> bool:
    return v.is_py and isinstance(v.py, _CT) and not is_carrier(v.py) and not _has_val(v.py)


def _has_val(o):
    if isinstance(o, Val):
        return True
    if isinstance(o, (list, tuple, set, frozenset)):
        return any(_has_val(x) for x in o)
    if isinstance(o, dict):
        return any(_has_val(x) for x in o.values())
    return False


def z3bool(b):
    return z3.BoolVal(b) if isinstance(b, bool) else b


def truthy(v: Val):
    """Python truthiness: a python bool when known, else a z3 Bool."""
    if v.is_py and is_carrier(v.py):
        if v.py[0] == "iterinfo":
            info = v.py[1]
            if info.kind == "concrete":
                return bool(info.items)
            if info.kind == "indexed":
                return info.n != 0
        raise Unsupported("truthiness of an iterator / generator expression")
    if v.is_py and type(v.py).__name__ == "BoundMethod":
        # `if obj.attr:` where attr is not a declared field: the engine only knows it as "some method"; if it is a
        # property in reality its truth value is data — refusing is the only sound answer
        raise Unsupported(f"truthiness of the attribute '{v.py.name}' (not a declared field; a property?)")
    if v.is_py:
        if isinstance(v.py, (list, tuple, dict, set, frozenset)) or not _has_val(v.py):
            if v.ty is PYOBJ and not isinstance(v.py, (list, tuple, dict, set, frozenset, range)):
                return True  # functions, classes, modules
            return bool(v.py)
    t = v.ty
    if t == T.BOOL:
        return v.term
    if t == T.INT:
        return v.term != 0
    if t == T.REAL:
        return v.term != 0
    if t == T.STR:
        return z3.Length(v.term) != 0
    if t == T.NONE:
        return False
    if isinstance(t, T.List):
        return z3.Length(v.term) != 0
    if isinstance(t, T.Set):
        return v.term != z3.K(t.elem.sort(), z3.BoolVal(False))
    if isinstance(t, T.Dict):
        return t.sort().dom(v.term) != z3.K(t.k.sort(), z3.BoolVal(False))
    if isinstance(t, T.Opt):
        s = t.sort()
        inner = truthy(Val(t.inner, s.val(v.term)))
        if inner is None:
            raise Unsupported("truthiness of an optional object outside Executor.truth")
        return z3.And(s.is_some(v.term), z3bool(inner))
    if isinstance(t, T.Tuple):
        return len(t.items) != 0
    if isinstance(t, T.Enum):
        if issubclass(t.pycls(), int):
            return lift(coerce(v, T.INT)) != 0
        if "__bool__" in t.pycls().__dict__ or "__len__" in t.pycls().__dict__:
            raise Unsupported(f"truthiness of {t} (the enum class defines __bool__/__len__)")
        return True  # enum members are truthy
    if isinstance(t, T.Ref):
        return None  # class decides
    if isinstance(t, T.Union):
        s = t.sort()
        parts = []
        for i, a in enumerate(t.alts):
            ti = truthy(Val(a, getattr(s, f"v{i}")(v.term)))
            if ti is None:
                raise Unsupported("truthiness of a union with an object alternative outside Executor.truth")
            parts.append(z3.And(getattr(s, f"is_alt{i}")(v.term), z3bool(ti)))
        return z3.Or(*parts)
    raise Unsupported(f"truthiness of {t}")


def num_join(a: Val, b: Val):
    if isinstance(a.ty, T.Enum) and not a.is_py:
        a = coerce(a, T.INT)
    if isinstance(b.ty, T.Enum) and not b.is_py:
        b = coerce(b, T.INT)
    ta, tb = a.ty, b.ty
    if ta == T.BOOL:
        a = coerce(a, T.INT)
        ta = T.INT
    if tb == T.BOOL:
        b = coerce(b, T.INT)
        tb = T.INT
    if not (T.is_num(ta) and T.is_num(tb)):
        raise Unsupported(f"arithmetic on {ta} and {tb}")
    t = T.REAL if T.REAL in (ta, tb) else T.INT
    return lift(a, t), lift(b, t), t


def floor_int(r):
    return z3.ToInt(r)


def binop(op, a: Val, b: Val, node=None) -> Val:
    opc = type(op)
    if is_const(a) and is_const(b) and opc in _PYBIN:
        try:
            return Val.const(_PYBIN[opc](a.py, b.py))
        except Exception as e:  # noqa
            raise Unsupported(f"constant operation raises {e!r}", node)
    ta, tb = a.ty, b.ty
    # strings
    if ta == T.STR and tb == T.STR and opc is ast.Add:
        return Val(T.STR, z3.Concat(lift(a), lift(b)))
    if ta == T.STR and opc is ast.Mod:
        return str_format(a, b, node)
    # lists
    if isinstance(ta, T.List) or isinstance(tb, T.List) or (a.is_py and isinstance(a.py, list)) or (b.is_py and isinstance(b.py, list)):
        if opc is ast.Add and a.is_py and b.is_py and isinstance(a.py, list) and isinstance(b.py, list):
            r_ = list(a.py) + list(b.py)  # two python-level lists (of values): concatenation at python level
            return Val(PYOBJ, None, r_, True) if (_has_val(r_) or not r_) else Val.const(r_)
        if opc is ast.Add:
            t = ta if isinstance(ta, T.List) else tb
            if not isinstance(t, T.List):
                raise Unsupported("list + list of unknown element type", node)
            return Val(t, z3.Concat(lift(a, t), lift(b, t)))
    if opc is ast.Add and a.is_py and b.is_py and isinstance(a.py, tuple) and isinstance(b.py, tuple):
        r_ = tuple(a.py) + tuple(b.py)  # two python-level tuples (of values)
        return Val(PYOBJ, None, r_, True) if (_has_val(r_) or not r_) else Val.const(r_)
    # sets
    if isinstance(ta, T.Set) or isinstance(tb, T.Set):
        t = ta if isinstance(ta, T.Set) else tb
        x, y = lift(a, t), lift(b, t)
        if opc is ast.BitOr:
            return Val(t, z3.SetUnion(x, y))
        if opc is ast.BitAnd:
            return Val(t, z3.SetIntersect(x, y))
        if opc is ast.Sub:
            return Val(t, z3.SetDifference(x, y))
        if opc is ast.BitXor:
            return Val(t, z3.SetUnion(z3.SetDifference(x, y), z3.SetDifference(y, x)))
        raise Unsupported("set operator", node)
    if ta == T.BOOL and tb == T.BOOL and opc in (ast.BitXor, ast.BitAnd, ast.BitOr):
        # bool ^ bool, bool & bool, bool | bool are bools in Python
        x, y = lift(a, T.BOOL), lift(b, T.BOOL)
        return Val(T.BOOL, z3.Xor(x, y) if opc is ast.BitXor else z3.And(x, y) if opc is ast.BitAnd else z3.Or(x, y))
    x, y, t = num_join(a, b)
    if opc is ast.Add:
        return Val(t, x + y)
    if opc is ast.Sub:
        return Val(t, x - y)
    if opc is ast.Mult:
        return Val(t, x * y)
    if opc is ast.Div:
        xr = z3.ToReal(x) if t == T.INT else x
        yr = z3.ToReal(y) if t == T.INT else y
        return Val(T.REAL, xr / yr)
    if opc in (ast.FloorDiv, ast.Mod):
        if t != T.INT or not (is_const(b) and isinstance(b.py, int) and b.py != 0):
            raise Unsupported("// and % need an int dividend and a non-zero constant int divisor", node)
        if b.py > 0:
            return Val(T.INT, (x / y) if opc is ast.FloorDiv else (x % y))
        # negative constant divisor c = -m: Python's floor division  x // c == floor(x / c) == (-x) div m  (SMT div by a positive
        # m is the floor), and  x % c == x - c * (x // c)  (result in (c, 0])
        m = z3.IntVal(-b.py)
        q = (-x) / m
        return Val(T.INT, q if opc is ast.FloorDiv else x - y * q)
    if opc is ast.LShift and t == T.INT and is_const(b) and b.py >= 0:
        return Val(T.INT, x * (2 ** b.py))
    if opc is ast.Pow and is_const(b) and isinstance(b.py, int) and b.py >= 0:
        r = z3.IntVal(1) if t == T.INT else z3.RealVal(1)
        for _ in range(b.py):
            r = r * x
        return Val(t, r)
    raise Unsupported(f"operator {opc.__name__} on {ta},{tb}", node)


def int_to_str(n):
    return z3.If(n >= 0, z3.IntToStr(n), z3.Concat(z3.StringVal("-"), z3.IntToStr(-n)))


def str_format(fmt: Val, arg: Val, node=None) -> Val:
    """'%'-formatting: only literal templates built from %s / %d / %i."""
    if not is_const(fmt):
        raise Unsupported("symbolic format string", node)
    f = fmt.py
    args = []
    if arg.is_py and isinstance(arg.py, tuple):
        args = [x if isinstance(x, Val) else Val.const(x) for x in arg.py]
    elif isinstance(arg.ty, T.Tuple):
        s = arg.ty.sort()
        args = [Val(it, s.accessor(0, i)(arg.term)) for i, it in enumerate(arg.ty.items)]
    else:
        args = [arg]
    parts = []
    i = 0
    k = 0
    buf = ""
    while i < len(f):
        c = f[i]
        if c == "%":
            spec = f[i + 1 : i + 2]
            if spec == "%":
                buf += "%"
                i += 2
                continue
            import re as _re

            mm = _re.match(r"%(0?\d+)?([sdixX])", f[i:])
            if mm and (mm.group(1) or mm.group(2) in "xX"):
                # zero-padded / hexadecimal integer formats ("%03d", "%04X"): an uninterpreted (deterministic) function of the
                # integer argument — the same symbol for the same spec everywhere; nothing but functionality is known about it
                if k >= len(args):
                    raise Unsupported("format arity", node)
                a = args[k]
                k += 1
                if mm.group(2) == "s" or a.ty != T.INT:
                    raise Unsupported(f"format spec {mm.group(0)} of {a.ty}", node)
                if buf:
                    parts.append(z3.StringVal(buf))
                    buf = ""
                conv = "d" if mm.group(2) == "i" else mm.group(2)
                fn = z3.Function("fmt_" + (mm.group(1) or "") + conv, z3.IntSort(), z3.StringSort())
                parts.append(fn(lift(a)))
                i += len(mm.group(0))
                continue
            if spec not in ("s", "d", "i"):
                raise Unsupported(f"format spec %{spec} with a symbolic argument", node)
            if buf:
                parts.append(z3.StringVal(buf))
                buf = ""
            if k >= len(args):
                raise Unsupported("format arity", node)
            a = args[k]
            k += 1
            if spec == "s":
                if a.ty == T.STR:
                    parts.append(lift(a))
                elif a.ty == T.INT:
                    parts.append(int_to_str(lift(a)))
                else:
                    raise Unsupported(f"%s of {a.ty}", node)
            else:
                if a.ty != T.INT:
                    raise Unsupported(f"%d of {a.ty}", node)
                parts.append(int_to_str(lift(a)))
            i += 2
        else:
            buf += c
            i += 1
    if buf:
        parts.append(z3.StringVal(buf))
    if k != len(args):
        raise Unsupported("format arity", node)
    if not parts:
        return Val.const("")
    return Val(T.STR, parts[0] if len(parts) == 1 else z3.Concat(*parts))


def equal(a: Val, b: Val):
    """Python == ; python bool or z3 Bool."""
    if (a.is_py and is_carrier(a.py)) or (b.is_py and is_carrier(b.py)):
        raise Unsupported("comparison of an iterator / dict view (wrap it in list(..) / set(..))")
    if is_const(a) and is_const(b):
        return a.py == b.py
    if a.is_py and b.is_py and isinstance(a.ty, T.Enum) and isinstance(b.ty, T.Enum):
        return a.py == b.py
    if a.is_py and b.is_py and isinstance(a.py, (tuple, list)) and isinstance(b.py, (tuple, list)) and (_has_val(a.py) or _has_val(b.py)):
        # python-level sequences of values: component-wise (with the usual numeric promotion), never a tuple == a list
        if isinstance(a.py, tuple) != isinstance(b.py, tuple) or len(a.py) != len(b.py):
            return False
        parts = [equal(x if isinstance(x, Val) else Val.const(x), y if isinstance(y, Val) else Val.const(y)) for x, y in zip(a.py, b.py)]
        if any(p_ is False for p_ in parts):
            return False
        parts = [p_ for p_ in parts if p_ is not True]
        return (z3.And(*parts) if len(parts) > 1 else parts[0]) if parts else True
    if a.ty is PYOBJ or b.ty is PYOBJ:
        if a.is_py and b.is_py and not _has_val(a.py) and not _has_val(b.py):
            return a.py == b.py
        # concrete-length containers of Vals: lift against the other side's type
        if a.ty is PYOBJ and b.ty is not PYOBJ:
            return equal(coerce(a, b.ty), b)
        if b.ty is PYOBJ and a.ty is not PYOBJ:
            return equal(a, coerce(b, a.ty))
        raise Unsupported("equality between python-level objects")
    ta, tb = a.ty, b.ty
    if isinstance(ta, T.Enum) and not isinstance(tb, T.Enum) and not a.is_py and issubclass(ta.pycls(), int) and tb in (T.INT, T.REAL, T.BOOL):
        return equal(coerce(a, T.INT), b)  # IntEnum member == number
    if isinstance(tb, T.Enum) and not isinstance(ta, T.Enum) and not b.is_py and issubclass(tb.pycls(), int) and ta in (T.INT, T.REAL, T.BOOL):
        return equal(a, coerce(b, T.INT))
    if ta == tb:
        if isinstance(ta, T.Dict):
            return dict_eq(a, b)
        return lift(a) == lift(b)
    j = join_types(ta, tb)
    if j is not None:
        return lift(a, j) == lift(b, j)
    if isinstance(ta, T.Union) and not isinstance(tb, T.Union):
        try:
            return lift(a) == lift(b, ta)
        except (ContractMisfit, Unsupported):
            return False
    if isinstance(tb, T.Union):
        return equal(b, a)
    # tuples of the same arity whose components are comparable (e.g. Tuple(REAL..) vs Tuple(INT..)): component-wise
    if isinstance(ta, T.Tuple) and isinstance(tb, T.Tuple) and len(ta.items) == len(tb.items):
        def comps(v, t):
            if v.is_py:
                return [x if isinstance(x, Val) else Val.const(x) for x in v.py]
            sv = t.sort()
            return [Val(it, sv.accessor(0, i)(v.term)) for i, it in enumerate(t.items)]

        parts = [equal(x, y) for x, y in zip(comps(a, ta), comps(b, tb))]
        if any(p_ is False for p_ in parts):
            return False
        parts = [p_ for p_ in parts if p_ is not True]
        return z3.And(*parts) if parts else True
    # values of unrelated types are never equal in Python (no numeric/str crossover here)
    if {ta, tb} <= {T.INT, T.REAL, T.BOOL}:
        x, y, _ = num_join(a, b)
        return x == y
    return False


def dict_eq(a: Val, b: Val):
    t = a.ty
    s = t.sort()
    k = fresh(t.k, "k")
    da, db = s.dom(lift(a)), s.dom(lift(b))
    ma, mb = s.map(lift(a)), s.map(lift(b))
    return z3.And(da == db, z3.ForAll([k], z3.Implies(z3.Select(da, k), z3.Select(ma, k) == z3.Select(mb, k))))


def compare(op, a: Val, b: Val, node=None):
    opc = type(op)
    if opc is ast.Eq:
        return equal(a, b)
    if opc is ast.NotEq:
        e = equal(a, b)
        return (not e) if isinstance(e, bool) else z3.Not(e)
    if opc in (ast.Is, ast.IsNot):
        r = is_(a, b, node)
        if opc is ast.IsNot:
            r = (not r) if isinstance(r, bool) else z3.Not(r)
        return r
    if opc in (ast.In, ast.NotIn):
        r = contains(b, a, node)
        if opc is ast.NotIn:
            r = (not r) if isinstance(r, bool) else z3.Not(r)
        return r
    if is_const(a) and is_const(b):
        return _PYCMP[opc](a.py, b.py)
    ta, tb = a.ty, b.ty
    if ta == T.STR and tb == T.STR:
        x, y = lift(a), lift(b)
        return {ast.Lt: x < y, ast.LtE: x <= y, ast.Gt: y < x, ast.GtE: y <= x}[opc]
    if isinstance(ta, T.Set) and isinstance(tb, T.Set):
        x, y = lift(a), lift(b)
        if opc is ast.LtE:
            return z3.IsSubset(x, y)
        if opc is ast.GtE:
            return z3.IsSubset(y, x)
        if opc is ast.Lt:
            return z3.And(z3.IsSubset(x, y), x != y)
        if opc is ast.Gt:
            return z3.And(z3.IsSubset(y, x), x != y)
    if isinstance(ta, T.Tuple) and ta == tb:
        return tuple_cmp(opc, a, b, node)
    if isinstance(ta, T.List) and ta == tb and (is_num_or_str(ta.elem)):
        return seq_lex_cmp(opc, a, b)
    x, y, _ = num_join(a, b)
    return {ast.Lt: x < y, ast.LtE: x <= y, ast.Gt: x > y, ast.GtE: x >= y}[opc]


def is_num_or_str(t):
    return t in (T.INT, T.REAL, T.STR, T.BOOL)


def seq_lex_cmp(opc, a: Val, b: Val):
    """lexicographic order of two sequences of numbers / strings (Python's list / tuple comparison), exactly:
    a < b  <=>  exists k. the first k elements agree and (a ends at k and b does not, or both go on and a[k] < b[k])"""
    x, y = lift(a), lift(b)
    et = a.ty.elem
    if opc in (ast.Gt, ast.GtE):
        x, y = y, x
        opc = ast.Lt if opc is ast.Gt else ast.LtE
    k, i = z3.Int(fresh_name_("lk")), z3.Int(fresh_name_("li"))
    ex_, ey_ = x[k], y[k]
    if et == T.BOOL:
        elt_lt = z3.And(z3.Not(ex_), ey_)
    else:
        elt_lt = ex_ < ey_
    agree = z3.ForAll([i], z3.Implies(z3.And(0 <= i, i < k), x[i] == y[i]))
    lt = z3.Exists([k], z3.And(0 <= k, k <= z3.Length(x), k <= z3.Length(y), agree,
                             z3.Or(z3.And(k == z3.Length(x), k < z3.Length(y)), z3.And(k < z3.Length(x), k < z3.Length(y), elt_lt))))
    return lt if opc is ast.Lt else z3.Or(lt, x == y)


def fresh_name_(prefix):
    from .core import fresh_name

    return fresh_name(prefix)


def tuple_cmp(opc, a, b, node):
    s = a.ty.sort()
    n = len(a.ty.items)
    strict = opc in (ast.Lt, ast.Gt)
    less = opc in (ast.Lt, ast.LtE)

    def comp(i):
        ai = Val(a.ty.items[i], s.accessor(0, i)(lift(a)))
        bi = Val(a.ty.items[i], s.accessor(0, i)(lift(b)))
        return ai, bi

    res = z3.BoolVal(not strict)
    for i in reversed(range(n)):
        ai, bi = comp(i)
        lt = z3bool(compare(ast.Lt() if less else ast.Gt(), ai, bi, node))
        eq = z3bool(equal(ai, bi))
        res = z3.Or(lt, z3.And(eq, res))
    return res


def is_(a: Val, b: Val, node=None):
    """`is` — only against None / True / False / python-level objects."""
    if b.is_py and b.py is None:
        if a.is_py:
            return a.py is None
        if a.ty == T.NONE:
            return True
        if isinstance(a.ty, T.Opt):
            return a.ty.sort().is_nil(a.term)
        return False
    if a.is_py and a.py is None:
        return is_(b, a, node)
    if a.is_py and b.is_py:
        return a.py is b.py
    if isinstance(a.ty, T.Enum) and a.ty == b.ty:
        return lift(a) == lift(b)  # enum members are singletons: identity is equality
    for x, y in ((a, b), (b, a)):
        if isinstance(x.ty, T.Enum) and not x.is_py and issubclass(x.ty.pycls(), int) and is_const(y) and isinstance(y.py, x.ty.pycls()):
            return lift(coerce(x, T.INT)) == int(y.py)  # an IntEnum member written as a constant is a plain int here
    if isinstance(a.ty, T.Ref) and isinstance(b.ty, T.Ref):
        return a.term == b.term
    if a.ty == T.BOOL and b.ty == T.BOOL:
        return lift(a) == lift(b)
    raise Unsupported("`is` between data values", node)


def contains(c: Val, x: Val, node=None):
    if c.is_py and is_carrier(c.py):
        raise Unsupported("`in` on an iterator / generator expression", node)
    if is_const(c) and is_const(x):
        return x.py in c.py
    if c.is_py and isinstance(c.py, (list, tuple, set, frozenset, dict, range)):
        items = list(c.py.keys()) if isinstance(c.py, dict) else list(c.py)
        rs = [equal(x, i if isinstance(i, Val) else Val.const(i)) for i in items]
        if any(r is True for r in rs):
            return True
        rs = [r for r in rs if r is not False]
        return z3.Or(*rs) if rs else False
    t = c.ty
    if isinstance(t, T.Set):
        return z3.Select(lift(c), lift(x, t.elem))
    if isinstance(t, T.Dict):
        return z3.Select(t.sort().dom(lift(c)), lift(x, t.k))
    if isinstance(t, T.List):
        from .core import seq_contains_elem

        return seq_contains_elem(lift(c), lift(x, t.elem))
    if t == T.STR:
        return z3.Contains(lift(c), lift(x, T.STR))
    if isinstance(t, T.Opt):
        raise Unsupported("`in` on an optional container", node)
    raise Unsupported(f"`in` on {t}", node)


def length(v: Val):
    if v.is_py and is_carrier(v.py):
        raise Unsupported("len() of an iterator / dict view outside builtins.len")
    if v.is_py and isinstance(v.py, (list, tuple, dict, set, frozenset, str, range)):
        return Val.const(len(v.py))
    t = v.ty
    if isinstance(t, T.List) or t == T.STR:
        return Val(T.INT, z3.Length(lift(v)))
    if isinstance(t, T.Dict):
        return Val(T.INT, z3.Length(t.sort().keys(lift(v))))
    if isinstance(t, T.Tuple):
        return Val.const(len(t.items))
    raise Unsupported(f"len() of {t}")


def ite(c, a: Val, b: Val) -> Val:
    if isinstance(c, bool):
        return a if c else b
    j = join_types(a.ty, b.ty)
    if j is None and a.is_py and b.is_py and isinstance(a.py, (tuple, list)) and type(a.py) is type(b.py) and len(a.py) == len(b.py):
        items = [ite(c, x if isinstance(x, Val) else Val.const(x), y if isinstance(y, Val) else Val.const(y)) for x, y in zip(a.py, b.py)]
        return Val(PYOBJ, None, type(a.py)(items), True)
    if (j is None or j is PYOBJ) and a.is_py and b.is_py and a.ty is PYOBJ and b.ty is PYOBJ and not _has_val(a.py) and not _has_val(b.py):
        try:
            if a.py is b.py or a.py == b.py:
                return a  # the same python-level value on both sides
        except Exception:  # noqa
            pass
        if not isinstance(a.py, _CT) and not isinstance(b.py, _CT):
            raise PyMerge(f"cannot merge the python-level values {a.py!r} and {b.py!r}")
    if j is None:
        # a Union value against a value of one of its alternatives (after `isinstance` narrowing in one branch)
        if isinstance(a.ty, T.Union) and b.ty in a.ty.alts:
            j = a.ty
        elif isinstance(b.ty, T.Union) and a.ty in b.ty.alts:
            j = b.ty
    if j is None:
        # a symbolic list against a concrete tuple / list (`languages or ()`): both iterate alike
        if isinstance(a.ty, T.List) and not a.is_py and b.is_py and isinstance(b.py, (tuple, list)):
            j = a.ty
        elif isinstance(b.ty, T.List) and not b.is_py and a.is_py and isinstance(a.py, (tuple, list)):
            j = b.ty
    if j is None:
        if a.ty is PYOBJ and b.ty is not PYOBJ:
            j = b.ty
        elif b.ty is PYOBJ and a.ty is not PYOBJ:
            j = a.ty
        else:
            raise Unsupported(f"cannot merge values of type {a.ty} and {b.ty}")
    return Val(j, z3.If(c, lift(a, j), lift(b, j)))


def ot_round(v: Val) -> Val:
    if is_const(v):
        import math

        return Val.const(int(math.floor(v.py + 0.5)))
    if v.ty == T.INT:
        return v
    if v.ty == T.REAL:
        return Val(T.INT, z3.ToInt(lift(v) + real_const(0.5)))
    raise Unsupported(f"otRound of {v.ty}")
