"""In-process quick checks (path pruning, `entails`) made cheap.

Both checks are *optional* optimisations: "unknown" always maps to the conservative answer (path feasible / fact not
entailed), so anything done here can only affect how many obligations are generated, never whether a false one is
discharged.

Two savings over `Solver(); add(all of pc); check()`:

* cone of influence: only the conjuncts that (transitively) share an uninterpreted symbol with the new conjunct(s) are
  sent to the solver.  The remainder has no symbol in common with the query, so it cannot contribute to a contradiction
  unless it is contradictory by itself -- and then the path was already dead before the new conjunct was added.
* a result cache keyed by the set of conjunct ids of the query.
"""
from __future__ import annotations

import os

import z3

_SYMS: dict[int, tuple] = {}  # term id -> (term kept alive, frozenset of decl ids, contains a quantifier)
_RESULT: dict[tuple, tuple] = {}  # key -> (terms kept alive, verdict)
STATS = {"calls": 0, "hits": 0, "solver": 0, "cone": 0, "full": 0}
_SLICE = os.environ.get("PYVC_QUICK_SLICE", "1") != "0"


def symbols(t) -> frozenset:
    """ids of the uninterpreted constants / functions occurring in `t` (memoised per term)."""
    tid = t.get_id()
    hit = _SYMS.get(tid)
    if hit is not None:
        return hit[1]
    out = set()
    seen = set()
    quant = False
    stack = [t]
    while stack:
        x = stack.pop()
        xid = x.get_id()
        if xid in seen:
            continue
        seen.add(xid)
        sub = _SYMS.get(xid)
        if sub is not None:
            out |= sub[1]
            quant = quant or sub[2]
            continue
        if z3.is_quantifier(x):
            quant = True
            stack.append(x.body())
            continue
        if z3.is_app(x):
            d = x.decl()
            if d.kind() == z3.Z3_OP_UNINTERPRETED:
                out.add(d.get_id())
            stack.extend(x.children())
    res = frozenset(out)
    if len(_SYMS) > 200000:
        _SYMS.clear()
    _SYMS[tid] = (t, res, quant)
    return res


def ground(t) -> bool:
    """no quantifier (lambda) anywhere inside `t`.  Conjuncts with nested quantifiers make the in-process check run into its
    time limit with `unknown` (MBQI), which costs 0.3 s per branch and prunes nothing; leaving a conjunct out is always
    sound for pruning."""
    symbols(t)
    return not _SYMS[t.get_id()][2]


def cone(facts, seeds):
    """the sub-list of `facts` transitively sharing a symbol with `seeds` (order preserved)."""
    if not _SLICE:
        return list(facts)
    live = set()
    for s in seeds:
        live |= symbols(s)
    fs = [(f, symbols(f)) for f in facts]
    chosen = [False] * len(fs)
    changed = True
    while changed:
        changed = False
        for i, (f, sy) in enumerate(fs):
            if chosen[i]:
                continue
            if not sy or sy & live:
                # symbol-free conjuncts (constants such as `False`) are always kept
                chosen[i] = True
                if not sy <= live:
                    live |= sy
                    changed = True
    return [f for i, (f, _) in enumerate(fs) if chosen[i]]


def check(facts, timeout_ms: int, rlimit: int, tag: str):
    """z3 verdict of the conjunction of `facts`, cached."""
    STATS["calls"] += 1
    key = (tag, frozenset(f.get_id() for f in facts))
    hit = _RESULT.get(key)
    if hit is not None:
        STATS["hits"] += 1
        return hit[1]
    sol = z3.Solver()
    sol.set("timeout", timeout_ms)
    sol.set("rlimit", rlimit)
    for f in facts:
        sol.add(f)
    STATS["solver"] += 1
    r = sol.check()
    if len(_RESULT) > 50000:
        _RESULT.clear()
    _RESULT[key] = (list(facts), r)
    return r


def _nested(t) -> bool:
    """a conjunct with a quantifier INSIDE (not a top-level quantifier, which the quick checks have always left out)"""
    return not z3.is_quantifier(t) and not ground(t)


def feasible(pc, base: int | None = None) -> bool:
    """False only when `pc` (without its top-level quantified facts) is contradictory.  `base`: index from which the conjuncts
    are new (pc[:base] is known to have been feasible when it was checked / assumed feasible).

    Two stages: the quantifier-free conjuncts first (milliseconds); only when that is not conclusive and conjuncts with NESTED
    quantifiers (`not any(..)`, `a or all(..)`) are among the relevant ones, a second query with them, as the engine has
    always done (the solver instantiates them; up to 0.3 s)."""
    facts = [p for p in pc if not z3.is_quantifier(p)]
    if not facts:
        return True
    if base is not None and 0 < base <= len(pc):
        new = [p for p in pc[base:] if not z3.is_quantifier(p)]
        if not new:
            return True
        old = [p for p in pc[:base] if not z3.is_quantifier(p)]
        sub = cone(old, new) + new
        STATS["cone"] += len(sub)
        STATS["full"] += len(facts)
        facts = sub
    g = [p for p in facts if ground(p)]
    if g and check(g, 300, 400000, "sat") == z3.unsat:
        return False
    if len(g) == len(facts):
        return True
    return check(facts, 300, 400000, "sat2") != z3.unsat


def entails(pc, fact) -> bool:
    """True only when the non-quantified part of `pc` implies `fact`."""
    neg = z3.Not(fact)
    old = [p for p in pc if not z3.is_quantifier(p)]
    sub = cone(old, [neg]) + [neg]
    # the negated fact is a fresh term object each time: key on the fact itself
    STATS["calls"] += 1
    key = ("ent", fact.get_id(), frozenset(f.get_id() for f in sub[:-1]))
    hit = _RESULT.get(key)
    if hit is not None:
        STATS["hits"] += 1
        return hit[1]
    sol = z3.Solver()
    sol.set("timeout", 200)
    sol.set("rlimit", 300000)
    for f in sub:
        sol.add(f)
    STATS["solver"] += 1
    r = sol.check() == z3.unsat
    _RESULT[key] = (sub + [fact], r)
    return r
