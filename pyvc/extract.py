"""Mechanical extraction of the real functions from /repo's current working tree.

Nothing is copied or rewritten: the module file is read, parsed with `ast`, and the
FunctionDef is located by qualified name. The executor interprets that AST directly.
What is *dropped* (and only this): docstrings, annotations, statement-level logger calls
and timer `with` wrappers (body kept) — each dropped statement is recorded.
"""
from __future__ import annotations

import ast
import hashlib
import importlib
import os
from dataclasses import dataclass

REPO = os.environ.get("VERIF_REPO", "/repo")
_cache: dict = {}
_modcache: dict = {}


@dataclass
class FunctionSource:
    target: str
    file: str
    fdef: ast.FunctionDef
    lines: tuple
    sha256: str
    module: object
    text: str


def module_path(modname: str) -> str:
    rel = modname.replace(".", "/")
    cands = [f"{REPO}/Lib/{rel}.py", f"{REPO}/Lib/{rel}/__init__.py"]
    if modname.split(".")[0] == "selftest":
        # the engine's own self-tests (/verif/selftest/cases_*.py) are extracted the same way as repo code
        root = os.path.dirname(os.path.dirname(os.path.abspath(__file__)))
        cands = [f"{root}/{rel}.py"]
    for cand in cands:
        if os.path.exists(cand):
            return cand
    raise FileNotFoundError(modname)


def parse_module(modname: str):
    if modname not in _modcache:
        p = module_path(modname)
        with open(p, encoding="utf-8") as f:
            text = f.read()
        _modcache[modname] = (p, text, ast.parse(text))
    return _modcache[modname]


def find_def(tree, qual: str):
    cur = tree
    for part in qual.split("."):
        nxt = None
        for n in cur.body:
            if isinstance(n, (ast.FunctionDef, ast.ClassDef, ast.AsyncFunctionDef)) and n.name == part:
                nxt = n
        if nxt is None:
            # nested function inside a function body
            for n in ast.walk(cur):
                if isinstance(n, ast.FunctionDef) and n.name == part and n is not cur:
                    nxt = n
                    break
        if nxt is None:
            return None
        cur = nxt
    return cur


def load_function(target: str) -> FunctionSource:
    target = target.split("#")[0]
    if target in _cache:
        return _cache[target]
    modname, qual = target.split(":")
    path, text, tree = parse_module(modname)
    fdef = find_def(tree, qual)
    if fdef is None or not isinstance(fdef, ast.FunctionDef):
        from .core import ContractMisfit

        raise ContractMisfit(f"function {target} not found in {path}")
    seg = "\n".join(text.splitlines()[fdef.lineno - 1 : fdef.end_lineno])
    # strip docstring from the AST view
    body = fdef.body
    if body and isinstance(body[0], ast.Expr) and isinstance(body[0].value, ast.Constant) and isinstance(body[0].value.value, str):
        fdef.body = body[1:] or [ast.Pass()]
    mod = importlib.import_module(modname)
    real = os.path.realpath(getattr(mod, "__file__", ""))
    if real != os.path.realpath(path):
        raise RuntimeError(f"imported {modname} from {real}, expected {path}")
    fs = FunctionSource(target, path, fdef, (fdef.lineno, fdef.end_lineno), hashlib.sha256(seg.encode()).hexdigest(), mod, seg)
    _cache[target] = fs
    return fs
