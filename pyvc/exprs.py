"""Expression evaluation (mixin of the symbolic executor).

The same evaluator interprets code expressions of the real functions and the clause
language of the contracts (spec mode adds old(), result, implies(), quantifier forms).
"""
from __future__ import annotations

import ast

import z3

from . import ops
from . import ty as T
from .core import PYOBJ, ContractMisfit, Unsupported, Val, coerce, fresh, fresh_name, lift, seq_nth
from .ops import is_const, truthy, z3bool


class Closure:
    """nested def / lambda: executed inline at call sites (captures the defining env).
    Two closures compare equal when their source is identical (used by decision-table contracts that
    pin e.g. `include=lambda g: len(g)`); captured variables are not compared."""

    def __init__(self, node, env, name=None):
        self.node = node
        self.env = env
        self.name = name or getattr(node, "name", "<lambda>")
        self.src = ast.unparse(node)

    def __eq__(self, o):
        return isinstance(o, Closure) and ast.dump(o.node) == ast.dump(self.node)

    def __hash__(self):
        return hash(ast.dump(self.node))

    def __repr__(self):
        return f"<closure {self.src[:60]}>"


class LambdaTag:
    """A lambda kept as an opaque value identified by its normalised source."""

    def __init__(self, node):
        self.dump = ast.dump(node)
        self.src = ast.unparse(node)

    def __eq__(self, o):
        return isinstance(o, LambdaTag) and o.dump == self.dump

    def __hash__(self):
        return hash(self.dump)

    def __repr__(self):
        return f"<lambda {self.src}>"


class BoundMethod:
    def __init__(self, recv: Val, name: str, after=None):
        self.recv = recv
        self.name = name
        self.after = after  # super(): resolve the method in the MRO after this class


def z_and(*xs):
    xs = [x for x in xs if x is not True]
    if any(x is False for x in xs):
        return False
    if not xs:
        return True
    return xs[0] if len(xs) == 1 else z3.And(*[z3bool(x) for x in xs])


def z_or(*xs):
    xs = [x for x in xs if x is not False]
    if any(x is True for x in xs):
        return True
    if not xs:
        return False
    return xs[0] if len(xs) == 1 else z3.Or(*[z3bool(x) for x in xs])


def z_not(x):
    return (not x) if isinstance(x, bool) else z3.Not(x)


def z_implies(a, b):
    if a is False or b is True:
        return True
    if a is True:
        return b
    return z3.Implies(z3bool(a), z3bool(b))


def bool_val(b) -> Val:
    return Val.const(b) if isinstance(b, bool) else Val(T.BOOL, b)


def pop_guards(st, mark):
    """Leave a guarded evaluation: drop the guards pushed since `mark` but keep every fact that was
    assumed under them (definitions of fresh symbols, callee postconditions) as an implication."""
    tail = st.pc[mark:]
    del st.pc[mark:]
    guards = []
    for f in tail:
        if getattr(f, "_is_guard", False):
            guards.append(f)
        else:
            st.pc.append(z3.Implies(z3.And(*guards), f) if guards else f)


def push_guard(st, g):
    g = z3bool(g)
    # mark by identity.  The mark must sit on a python wrapper of its OWN: the term object itself is shared (it is
    # also the value of the expression, and may later be assumed as a plain fact, which pop_guards would then drop)
    g = z3.BoolRef(g.as_ast(), g.ctx)
    g._is_guard = True
    st.pc.append(g)


class ExprMixin:
    # ---- entry -------------------------------------------------------------------
    def eval(self, node, st) -> Val:
        m = getattr(self, "e_" + type(node).__name__, None)
        if m is None:
            raise Unsupported(f"expression {type(node).__name__}", node)
        return m(node, st)

    def cond(self, node, st):
        """truth value of an expression (python bool or z3 Bool)."""
        if isinstance(node, ast.BoolOp):
            # boolean context: only the truth values matter (operands may have unrelated types)
            is_and = isinstance(node.op, ast.And)
            ts = []
            mark = len(st.pc)
            try:
                for e in node.values:
                    t = self.cond(e, st)
                    ts.append(t)
                    if isinstance(t, bool):
                        if t != is_and:
                            break
                        continue
                    push_guard(st, t if is_and else z3.Not(t))
            finally:
                pop_guards(st, mark)
            return z_and(*ts) if is_and else z_or(*ts)
        if isinstance(node, ast.UnaryOp) and isinstance(node.op, ast.Not):
            return z_not(self.cond(node.operand, st))
        v = self.eval(node, st)
        return self.truth(v, st, node)

    def truth(self, v: Val, st, node=None):
        if not v.is_py and isinstance(v.ty, T.Opt):
            # Optional: None is falsy, a present value has the truthiness of its type (objects: the class decides)
            s = v.ty.sort()
            return z_and(s.is_some(v.term), self.truth(Val(v.ty.inner, s.val(v.term)), st, node))
        if not v.is_py and isinstance(v.ty, T.Union):
            s = v.ty.sort()
            return z_or(*[z_and(getattr(s, f"is_alt{i}")(v.term), self.truth(Val(a, getattr(s, f"v{i}")(v.term)), st, node)) for i, a in enumerate(v.ty.alts)])
        r = truthy(v)
        if r is None:  # Ref: class-defined truthiness
            cs = self.class_of(v.ty)
            if cs.truth is not None:
                return cs.truth(self, st, v)
            if cs.length is not None:
                n = cs.length(self, st, v)
                return lift(n) != 0
            pycls = self.real_class(cs)
            if pycls is not None and (getattr(pycls, "__bool__", None) is not None or getattr(pycls, "__len__", None) is not None):
                raise Unsupported(f"truthiness of {cs.name}: the real class {pycls.__qualname__} defines __bool__/__len__ but the class model has no truth=/length= hook", node)
            return True  # an object of a class without __bool__ / __len__ is truthy
        return r

    # ---- atoms -------------------------------------------------------------------
    def e_Constant(self, node, st):
        if node.value is Ellipsis:
            return Val.obj(Ellipsis)
        return Val.const(node.value)

    def e_Name(self, node, st):
        n = node.id
        if n in st.env:
            lk = st.ghost.get(("link", n))
            if lk is not None:
                # the local aliases a container stored in a heap field: it is read THROUGH the field (reference semantics)
                return self.read_field(st, lk[0], lk[2])
            v = st.env[n]
            if v is None:
                raise Unsupported(f"variable {n} may be unbound here", node)
            return v
        return self.resolve_global(n, node, st)

    def e_JoinedStr(self, node, st):
        parts = []
        for p in node.values:
            if isinstance(p, ast.Constant):
                parts.append(Val.const(p.value))
            else:
                if p.format_spec is not None or p.conversion not in (-1, 115):
                    raise Unsupported("f-string format spec", node)
                v = self.eval(p.value, st)
                parts.append(self.to_str(v, node))
        if all(is_const(p) for p in parts):
            return Val.const("".join(p.py for p in parts))
        return Val(T.STR, z3.Concat(*[lift(p, T.STR) for p in parts]))

    def to_str(self, v, node=None):
        if is_const(v):
            return Val.const(str(v.py))
        if v.ty == T.STR:
            return v
        if v.ty == T.INT:
            return Val(T.STR, ops.int_to_str(lift(v)))
        raise Unsupported(f"str() of {v.ty}", node)

    def splice(self, node, st, as_tuple):
        """(*a, x, *b) / [*a, x, *b]: starred python-level sequences are spliced at python level; with a symbolic sequence among
        them the display is the concatenation (a TupleOf / List value)"""
        parts = []  # ("one", Val) | ("seq", Val)
        for e in node.elts:
            if isinstance(e, ast.Starred):
                v = self.deopt(self.eval(e.value, st), st, node)
                parts.append(("seq", v))
            else:
                parts.append(("one", self.eval(e, st)))
        if all(k == "one" or (v.is_py and isinstance(v.py, (list, tuple))) for k, v in parts):
            out = []
            for k, v in parts:
                if k == "one":
                    out.append(v)
                else:
                    out.extend(x if isinstance(x, Val) else Val.const(x) for x in v.py)
            if all(is_const(i) for i in out):
                return Val.const((tuple if as_tuple else list)(i.py for i in out))
            return Val(PYOBJ, None, (tuple if as_tuple else list)(out), True)
        et = next((v.ty.elem for k, v in parts if k == "seq" and isinstance(v.ty, T.List) and not v.is_py), None)
        if et is None:
            raise Unsupported("starred element of this type in a display", node)
        seq_t = T.TupleOf(et) if as_tuple else T.List(et)
        terms = []
        for k, v in parts:
            if k == "one":
                terms.append(z3.Unit(lift(v, et)))
            elif isinstance(v.ty, T.List) and not v.is_py:
                if v.ty.elem != et:
                    raise Unsupported("starred sequences of different element types", node)
                terms.append(lift(v))
            else:
                terms.append(lift(v, seq_t))
        return Val(seq_t, terms[0] if len(terms) == 1 else z3.Concat(*terms))

    def e_Tuple(self, node, st):
        if any(isinstance(e, ast.Starred) for e in node.elts):
            return self.splice(node, st, True)
        items = [self.eval(e, st) for e in node.elts]
        if all(is_const(i) for i in items):
            return Val.const(tuple(i.py for i in items))
        return Val(PYOBJ, None, tuple(items), True)

    def e_List(self, node, st):
        if any(isinstance(e, ast.Starred) for e in node.elts):
            return self.splice(node, st, False)
        items = []
        for e in node.elts:
            items.append(self.eval(e, st))
        if all(is_const(i) for i in items):
            return Val.const([i.py for i in items])
        return Val(PYOBJ, None, list(items), True)

    def e_Set(self, node, st):
        items = [self.eval(e, st) for e in node.elts]
        if all(is_const(i) for i in items):
            return Val.const({i.py for i in items})
        t = items[0].ty
        a = z3.K(t.sort(), z3.BoolVal(False))
        for i in items:
            a = z3.Store(a, lift(i, t), z3.BoolVal(True))
        return Val(T.Set(t), a)

    def e_Dict(self, node, st):
        if any(k is None for k in node.keys):
            from . import models

            # {**a, k: v, **b}: left to right, later entries overwrite earlier ones (dict.update semantics)
            cur = None
            for k, vnode in zip(node.keys, node.values):
                if k is None:
                    other = self.deopt(self.eval(vnode, st), st, node)
                    if not ((other.is_py and isinstance(other.py, dict)) or isinstance(other.ty, T.Dict)):
                        raise Unsupported(f"dict unpacking of {other.ty}", node)
                    if cur is None:
                        cur = other
                    else:
                        if cur.is_py and isinstance(cur.py, dict) and not other.is_py:
                            cur = coerce(cur, other.ty)
                        elif other.is_py and isinstance(other.py, dict) and not cur.is_py:
                            other = coerce(other, cur.ty)
                        cur, _ = models.mutate(self, st, cur, "update", [other], {}, node)
                else:
                    if cur is None:
                        cur = Val(PYOBJ, None, {}, True)
                    cur = models.set_item(self, st, cur, self.eval(k, st), self.eval(vnode, st), node)
            return cur
        ks = [self.eval(k, st) for k in node.keys]
        vs = [self.eval(v, st) for v in node.values]
        if all(is_const(k) for k in ks):
            return Val(PYOBJ, None, {k.py: (v.py if is_const(v) else v) for k, v in zip(ks, vs)}, True) if not all(is_const(v) for v in vs) else Val.const({k.py: v.py for k, v in zip(ks, vs)})
        raise Unsupported("dict display with symbolic keys", node)

    # ---- operators -----------------------------------------------------------------
    def e_UnaryOp(self, node, st):
        if isinstance(node.op, ast.Not):
            return bool_val(z_not(self.cond(node.operand, st)))
        v = self.eval(node.operand, st)
        if isinstance(node.op, ast.USub):
            if is_const(v):
                return Val.const(-v.py)
            return Val(v.ty, -lift(v))
        if isinstance(node.op, ast.UAdd):
            return v
        raise Unsupported("unary operator", node)

    def e_BinOp(self, node, st):
        a = self.deopt(self.eval(node.left, st), st, node)
        b = self.deopt(self.eval(node.right, st), st, node)
        if isinstance(node.op, (ast.BitAnd, ast.BitOr, ast.Sub, ast.BitXor)):
            a, b = self.setlike_view(a, st, node), self.setlike_view(b, st, node)
        if isinstance(node.op, (ast.FloorDiv, ast.Mod, ast.Div)) and not (a.ty == T.STR):
            if not is_const(b) and T.is_num(b.ty):
                self.safety(st, lift(b) != 0, "ZeroDivisionError", node)
        if isinstance(node.op, ast.Mult):
            # `[c] * n` / `n * [c]` with a symbolic int n: a fresh list of length max(n, 0) whose every element is c
            for lst, cnt in ((a, b), (b, a)):
                if lst.is_py and isinstance(lst.py, list) and len(lst.py) == 1 and not cnt.is_py and cnt.ty == T.INT:
                    if self.qstack:
                        raise Unsupported("list repetition with a symbolic count inside a quantified expression", node)
                    x = lst.py[0] if isinstance(lst.py[0], Val) else Val.const(lst.py[0])
                    want = getattr(self, "_assign_want", None)
                    if isinstance(want, T.List):
                        lt = want
                    elif x.ty is not PYOBJ:
                        lt = T.List(x.ty)
                    else:
                        pt = ops.py_type_of(x.py) if is_const(x) and x.py is not None else None
                        if pt is None or pt is PYOBJ:
                            raise Unsupported("[c] * n: element of unknown type (declare the local's type)", node)
                        lt = T.List(pt)
                    xv = lift(x, lt.elem)
                    n = lift(cnt)
                    r_ = fresh(lt, "rep")
                    i_ = z3.Int(fresh_name("ri"))
                    st.assume(z3.Length(r_) == z3.If(n > 0, n, 0))
                    st.assume(z3.ForAll([i_], z3.Implies(z3.And(i_ >= 0, i_ < z3.Length(r_)), r_[i_] == xv), patterns=[r_[i_]]))
                    return Val(lt, r_)
        r = ops.binop(node.op, a, b, node)
        if isinstance(node.op, ast.Add) and isinstance(r.ty, T.List) and not r.is_py and getattr(self.c, "seq_bridge", False):
            from . import models

            models.bridge_concat(self, st, r.term, [lift(a, r.ty), lift(b, r.ty)])
        return r

    def e_BoolOp(self, node, st):
        is_and = isinstance(node.op, ast.And)
        vals = []
        guards = []
        mark = len(st.pc)
        try:
            for e in node.values:
                v = self.eval(e, st)
                t = self.truth(v, st, e)
                vals.append((v, t))
                if isinstance(t, bool):
                    if t != is_and:  # short-circuit decides here
                        break
                    continue
                g = t if is_and else z3.Not(t)
                push_guard(st, g)
        finally:
            pop_guards(st, mark)
        # value semantics: fold from the right
        res = vals[-1][0]
        for v, t in reversed(vals[:-1]):
            if isinstance(t, bool):
                if t != is_and:
                    res = v
                continue
            try:
                if is_and:
                    res = ops.ite(t, res, v)
                else:
                    if not v.is_py and isinstance(v.ty, T.Opt) and not isinstance(getattr(self, "_assign_want", None), T.Opt):
                        # `a or b` with a: Optional[X] and b: X (`text or ""`): the value is an X, not an Optional[X] -- where a
                        # is chosen it is truthy, hence not None.  (A local DECLARED Optional keeps the Optional-typed join.)
                        rty = res.ty if res.ty is not PYOBJ else (ops.py_type_of(res.py) if is_const(res) and res.py is not None else None)
                        if rty is not None and rty == v.ty.inner:
                            res = ops.ite(t, Val(v.ty.inner, v.ty.sort().val(v.term)), res)
                            continue
                    try:
                        res = ops.ite(t, v, res)
                    except (Unsupported, ContractMisfit):
                        # `a or b` with a: Optional[X], b: X — where a is chosen it is truthy, hence not None
                        if v.is_py or not isinstance(v.ty, T.Opt):
                            raise
                        res = ops.ite(t, Val(v.ty.inner, v.ty.sort().val(v.term)), res)
            except (Unsupported, ContractMisfit):
                # operands of unrelated data types (`key and not key[0].isalpha()`: a str or a bool): the value is a Union
                ta = v.ty if v.ty is not PYOBJ else ops.py_type_of(v.py) if is_const(v) else None
                tb = res.ty if res.ty is not PYOBJ else ops.py_type_of(res.py) if is_const(res) else None
                if ta is None or tb is None or ta is PYOBJ or tb is PYOBJ or isinstance(ta, T.Union) and isinstance(tb, T.Union):
                    raise
                want = getattr(self, "_assign_want", None)
                if isinstance(want, T.Union):
                    u = want
                elif isinstance(tb, T.Union):
                    u = tb if ta in tb.alts else T.Union(ta, *tb.alts)
                elif isinstance(ta, T.Union):
                    u = ta if tb in ta.alts else T.Union(*ta.alts, tb)
                else:
                    u = T.Union(ta, tb)
                a_, b_ = coerce(v, u), coerce(res, u)
                res = ops.ite(t, b_, a_) if is_and else ops.ite(t, a_, b_)
        return res

    def e_IfExp(self, node, st):
        c = self.cond(node.test, st)
        if isinstance(c, bool):
            return self.eval(node.body if c else node.orelse, st)
        mark = len(st.pc)
        push_guard(st, c)
        try:
            a = self.eval(node.body, st)
        finally:
            pop_guards(st, mark)
        mark = len(st.pc)
        push_guard(st, z3.Not(c))
        try:
            b = self.eval(node.orelse, st)
        finally:
            pop_guards(st, mark)
        return ops.ite(c, a, b)

    def e_Compare(self, node, st):
        left = self.eval(node.left, st)
        res = []
        mark = len(st.pc)
        try:
            for op, rn in zip(node.ops, node.comparators):
                right = self.eval(rn, st)
                r = self.compare(op, left, right, st, node)
                res.append(r)
                if r is False:
                    break
                if r is not True:
                    push_guard(st, r)
                left = right
        finally:
            pop_guards(st, mark)
        return bool_val(z_and(*res))

    def order_special(self, op, a, b, st, node):
        """`<` & co on python-level tuples (lexicographic, component i compared only when the earlier components are equal,
        as Python does - so a TypeError of a later component is conditional) and on Union values (both operands must be the same
        alternative: TypeError obligation otherwise)."""
        def items(v):
            if v.is_py and isinstance(v.py, tuple) and not ops.is_carrier(v.py):
                return [x if isinstance(x, Val) else Val.const(x) for x in v.py]
            return None

        ia, ib = items(a), items(b)
        if ia is not None and ib is not None and not (is_const(a) and is_const(b)):
            if isinstance(op, (ast.Gt, ast.GtE)):
                ia, ib = ib, ia
            strict = isinstance(op, (ast.Lt, ast.Gt))

            def lex(i):
                if i == len(ia) or i == len(ib):
                    return (len(ia) < len(ib)) if strict else (len(ia) <= len(ib))
                eq = ops.equal(ia[i], ib[i])
                lt = self.compare(ast.Lt(), ia[i], ib[i], st, node)
                if eq is False:
                    return lt
                mark = len(st.pc)
                if eq is not True:
                    push_guard(st, eq)
                try:
                    rest = lex(i + 1)
                finally:
                    pop_guards(st, mark)
                return z_or(lt, z_and(eq, rest))

            return lex(0)
        if isinstance(a.ty, T.Union) and a.ty == b.ty and not a.is_py and not b.is_py:
            s_ = a.ty.sort()
            same, parts = [], []
            for i, alt in enumerate(a.ty.alts):
                both = z3.And(getattr(s_, f"is_alt{i}")(a.term), getattr(s_, f"is_alt{i}")(b.term))
                try:
                    mark = len(st.pc)
                    push_guard(st, both)
                    try:
                        c = self.compare(op, Val(alt, getattr(s_, f"v{i}")(a.term)), Val(alt, getattr(s_, f"v{i}")(b.term)), st, node)
                    finally:
                        pop_guards(st, mark)
                except Unsupported:
                    continue  # this alternative has no order: comparing two such values is a TypeError (not in `same`)
                same.append(both)
                parts.append(z_and(both, c))
            self.safety(st, z_or(*same) if same else False, "TypeError", node)
            return z_or(*parts) if parts else False
        return None

    def setlike_view(self, v, st, node):
        """`d.keys()` / `d.items()` are set-like: in comparisons and set operators they behave as the set of keys / (key, value) pairs"""
        if v.is_py and ops.is_carrier(v.py) and v.py[0] == "iterinfo":
            meta = getattr(v.py[1], "dict_items", None)
            if meta is not None and meta[2] in ("keys", "items"):
                from . import models

                return models.carrier_to_set(self, st, v.py[1], node)
        return v

    def items_views(self, a, b):
        def meta(v):
            if v.is_py and ops.is_carrier(v.py) and v.py[0] == "iterinfo":
                m = getattr(v.py[1], "dict_items", None)
                if m is not None and m[2] == "items":
                    return m
            return None

        ma, mb = meta(a), meta(b)
        if ma is not None and mb is not None and ma[0] == mb[0]:
            return ma, mb
        return None

    def compare(self, op, a, b, st, node):
        if isinstance(op, (ast.Lt, ast.LtE, ast.Gt, ast.GtE, ast.Eq, ast.NotEq)):
            iv = self.items_views(a, b)
            if iv is not None:
                # d1.items() <= d2.items(): every entry of d1 is an entry of d2 (stated key-wise, no sets of pairs)
                (dt, da, _), (_, db, _) = iv
                s_ = dt.sort()
                k = fresh(dt.k, "ik")

                def sub(x, y):
                    return z3.ForAll([k], z3.Implies(z3.Select(s_.dom(x), k), z3.And(z3.Select(s_.dom(y), k), z3.Select(s_.map(x), k) == z3.Select(s_.map(y), k))))

                le, ge = sub(da, db), sub(db, da)
                if isinstance(op, ast.LtE):
                    return le
                if isinstance(op, ast.GtE):
                    return ge
                if isinstance(op, ast.Eq):
                    return z3.And(le, ge)
                if isinstance(op, ast.NotEq):
                    return z3.Not(z3.And(le, ge))
                return z3.And(le, z3.Not(ge)) if isinstance(op, ast.Lt) else z3.And(ge, z3.Not(le))
            a, b = self.setlike_view(a, st, node), self.setlike_view(b, st, node)
        if isinstance(op, (ast.Lt, ast.LtE, ast.Gt, ast.GtE)):
            a, b = self.deopt(a, st, node), self.deopt(b, st, node)
            r = self.order_special(op, a, b, st, node)
            if r is not None:
                return r
        if isinstance(op, (ast.Eq, ast.NotEq)):
            for x, y in ((a, b), (b, a)):
                if isinstance(x.ty, T.Ref) and not x.is_py and not isinstance(y.ty, T.Ref):
                    hook = getattr(self.class_of(x.ty), "eq", None)
                    if hook is not None:
                        r = hook(self, st, x, y, node)  # a library value modelled as an object, compared with a plain value
                        return z_not(r) if isinstance(op, ast.NotEq) else r
        if isinstance(op, (ast.In, ast.NotIn)):
            a = self.resolve_union(a, st)
        if isinstance(op, (ast.Eq, ast.NotEq)) and (isinstance(a.ty, T.Union) != isinstance(b.ty, T.Union)):
            a, b = self.resolve_union(a, st), self.resolve_union(b, st)
        if isinstance(op, (ast.In, ast.NotIn)):
            b = self.deopt(b, st, node)
            if b.is_py and ops.is_carrier(b.py) and b.py[0] == "iterinfo":
                from . import models

                b = models.carrier_to_set(self, st, b.py[1], node)  # x in d.keys() / d.values() / range(..)
        if isinstance(op, (ast.In, ast.NotIn)) and isinstance(b.ty, T.Ref):
            cs = self.class_of(b.ty)
            if cs.contains is None:
                raise Unsupported(f"`in` on {b.ty}", node)
            r = cs.contains(self, st, b, a)
            return z_not(r) if isinstance(op, ast.NotIn) else r
        if (isinstance(op, (ast.In, ast.NotIn)) and isinstance(a.ty, T.Opt) and not a.is_py and not b.is_py
                and isinstance(b.ty, (T.Dict, T.Set, T.List)) and not isinstance(b.ty.k if isinstance(b.ty, T.Dict) else b.ty.elem, (T.Opt, T.Union))):
            # `x in c` with x Optional and c a container of plain values: None is not among them
            s_ = a.ty.sort()
            r = ops.compare(ast.In(), Val(a.ty.inner, s_.val(a.term)), b, node)
            r = z_and(s_.is_some(a.term), r)
            return z_not(r) if isinstance(op, ast.NotIn) else r
        r = ops.compare(op, a, b, node)
        if isinstance(op, (ast.In, ast.NotIn)) and getattr(self.c, "seq_positions", False) and isinstance(b.ty, T.List) and not b.is_py and not isinstance(r, bool):
            self.member_position(a, b, st)
        return r

    def member_position(self, x: Val, seq: Val, st):
        """seq_positions=True: `x in L` comes with a position witness: (x in L) => 0 <= p < len(L) and L[p] == x,
        p a fresh constant (a fresh function of the bound variables under quantifiers)."""
        from .core import seq_contains_elem

        L = lift(seq)
        xv = lift(x, seq.ty.elem)
        qvars = [v for vs, _ in self.qstack for v in vs]
        if qvars:
            p = z3.Function(fresh_name("mpos"), *[v.sort() for v in qvars], z3.IntSort())(*qvars)
        else:
            p = z3.Int(fresh_name("mpos"))
        fact = z3.Implies(seq_contains_elem(L, xv), z3.And(p >= 0, p < z3.Length(L), L[p] == xv))
        if qvars:
            fact = z3.ForAll(qvars, fact)
            # facts about bound variables must reach the enclosing state: the sub-state of the quantifier is discarded
            for outer in getattr(self, "qouter", [])[:1]:
                outer.assume(fact)
                return
        st.assume(fact)

    # ---- attribute / subscript -----------------------------------------------------
    def e_Attribute(self, node, st):
        recv = self.eval(node.value, st)
        self._attr_src = None
        v = self.getattr(recv, node.attr, st, node)
        src = self._attr_src
        self._attr_src = None
        if src is not None and src[2] == node.attr:
            self._last_attr = (node, src)  # which heap cell this attribute expression denotes (for alias tracking)
        return v

    def getattr(self, recv: Val, name: str, st, node=None) -> Val:
        recv = self.deopt(recv, st, node)
        if isinstance(recv.ty, T.Ref):
            cs = self.class_of(recv.ty)
            if name in cs.derived:
                return cs.derived[name](self, st, recv)
            if name in cs.fields or (cs.dynamic and (cs.name, name) in st.heap) or (str(recv.term), name) in st.pyheap:
                return self.read_field(st, recv, name)
            m, kind = self.find_method_ex(cs, name)
            if m is not None and kind == "property" and not callable(m):
                # a @property of the real class under contract: reading the attribute applies the getter's contract
                from . import api

                return self.call_contract(api.CONTRACTS[m], [recv], {}, st, node, implicit=1)
            if m is not None and kind == "cached_property" and not callable(m):
                # functools.cached_property under contract: every read yields a value the getter's contract allows (that later
                # reads return the SAME object is not modelled: an over-approximation).  Sound only for a getter without effects
                # (the real getter runs once, the contract would be applied at every read).
                from . import api

                if api.CONTRACTS[m].modifies:
                    raise Unsupported(f"cached_property {cs.name}.{name} whose contract has `modifies` (the getter runs only on the first read)", node)
                return self.call_contract(api.CONTRACTS[m], [recv], {}, st, node, implicit=1)
            if m is not None:
                return Val.obj(BoundMethod(recv, name))
            if cs.repo:
                # class-level constant of the real class (e.g. MAX_GLYPH_NAME_LENGTH)
                import importlib

                mod, qn = cs.repo.split(":")
                pycls = getattr(importlib.import_module(mod), qn)
                for k in pycls.__mro__:
                    import inspect as _inspect

                    if name in k.__dict__ and (not callable(k.__dict__[name]) or _inspect.isclass(k.__dict__[name])) and not isinstance(k.__dict__[name], (property, staticmethod, classmethod)):
                        return self.wrap_py(k.__dict__[name], name)  # class-level constant, or a nested class (`self.Origin`)
            raise Unsupported(f"attribute {cs.name}.{name} is not declared in the contract vocabulary", node)
        if isinstance(recv.ty, T.Enum):
            import enum as _enum

            if recv.is_py and isinstance(recv.py, _enum.Enum) and name in ("value", "name"):
                return Val.const(getattr(recv.py, name))
            if not recv.is_py and name in ("value", "name"):
                vt = recv.ty.value_type() if name == "value" else T.STR
                if vt is None:
                    raise Unsupported(f"{recv.ty}.value: members of mixed value types", node)
                f_ = (lambda m: z3.IntVal(int(m.value))) if (name == "value" and vt == T.INT) else (lambda m: z3.StringVal(getattr(m, name)))
                return Val(vt, recv.ty.chain(recv.term, f_))
            raise Unsupported(f"attribute {name} of an enum member", node)
        if isinstance(recv.ty, T.Named) and name in recv.ty.names and not recv.is_py:
            k = recv.ty.names.index(name)
            return Val(recv.ty.items[k], recv.ty.sort().accessor(0, k)(recv.term))
        if recv.is_py and recv.ty is PYOBJ and not isinstance(recv.py, (list, tuple, dict, set)):
            return self.py_getattr(recv.py, name, node, st)
        return Val.obj(BoundMethod(recv, name))

    def e_Subscript(self, node, st):
        recv = self.eval(node.value, st)
        if isinstance(node.slice, ast.Slice):
            return self.slice(recv, node.slice, st, node)
        idx = self.eval(node.slice, st)
        return self.getitem(recv, idx, st, node)

    def norm_index(self, i, n, st, node, what="IndexError"):
        """Python index normalisation with the bounds obligation."""
        if isinstance(i, int) and isinstance(n, int):
            if not -n <= i < n:
                self.safety(st, z3.BoolVal(False), what, node)
            return i % n if n else 0
        iz = z3.IntVal(i) if isinstance(i, int) else i
        nz = z3.IntVal(n) if isinstance(n, int) else n
        if isinstance(i, int):
            j = iz + nz if i < 0 else iz
        elif self.entails(st, iz >= 0):
            j = iz
        else:
            j = z3.If(iz < 0, iz + nz, iz)
        self.safety(st, z3.And(j >= 0, j < nz), what, node)
        return j

    def entails(self, st, fact) -> bool:
        """Cheap in-process check that the path condition implies `fact` (unknown -> False)."""
        from . import quick

        return quick.entails(st.pc, fact)

    def deopt(self, v: Val, st, node=None) -> Val:
        """Use of an Optional value where a value is required: obligation `is not None`.
        A Union value whose alternative is fixed by the path condition is used at that alternative."""
        if isinstance(v.ty, T.Opt) and not v.is_py:
            s = v.ty.sort()
            self.safety(st, s.is_some(v.term), "TypeError", node)
            return Val(v.ty.inner, s.val(v.term))
        if isinstance(v.ty, T.Union) and not v.is_py:
            return self.resolve_union(v, st)
        return v

    def resolve_union(self, v: Val, st) -> Val:
        """the payload of a Union value when the path condition entails which alternative it is (else the value itself);
        python-level tuples / lists are resolved component-wise"""
        if v.is_py and v.ty is PYOBJ and isinstance(v.py, (tuple, list)) and ops._has_val(v.py):
            items = [self.resolve_union(x, st) if isinstance(x, Val) else x for x in v.py]
            return Val(PYOBJ, None, type(v.py)(items), True)
        if not isinstance(v.ty, T.Union) or v.is_py:
            return v
        s = v.ty.sort()
        for i, alt in enumerate(v.ty.alts):
            if self.entails(st, getattr(s, f"is_alt{i}")(v.term)):
                return Val(alt, getattr(s, f"v{i}")(v.term))
        return v

    def getitem(self, recv: Val, idx: Val, st, node=None) -> Val:
        recv = self.deopt(recv, st, node)
        idx = self.deopt(idx, st, node)
        if recv.is_py and isinstance(recv.py, (list, tuple, str, range)) and is_const(idx):
            try:
                x = recv.py[idx.py]
            except IndexError:
                self.safety(st, z3.BoolVal(False), "IndexError", node)
                raise Unsupported("constant index out of range", node)
            return x if isinstance(x, Val) else Val.const(x)
        if recv.is_py and isinstance(recv.py, dict) and is_const(idx):
            if idx.py not in recv.py:
                self.safety(st, z3.BoolVal(False), "KeyError", node)
                raise Unsupported("constant key missing", node)
            x = recv.py[idx.py]
            return x if isinstance(x, Val) else (Val.const(x) if isinstance(x, ops._CT) else self.wrap_py(x, str(idx.py)))
        if recv.is_py and isinstance(recv.py, dict) and recv.py and not is_const(idx):
            # a concrete dict (e.g. a class-level table) with a SYMBOLIC key: ite over the entries + KeyError obligation
            try:
                entries = [((k if isinstance(k, Val) else self.wrap_py(k)), (x if isinstance(x, Val) else self.wrap_py(x))) for k, x in recv.py.items()]
                hits = [z3bool(ops.equal(idx, k)) for k, _ in entries]
                self.safety(st, z3.Or(*hits), "KeyError", node)
                res = entries[-1][1]
                for h, (_, x) in reversed(list(zip(hits, entries))[:-1]):
                    res = ops.ite(h, x, res)
                return res
            except (Unsupported, ContractMisfit):
                pass
        if recv.is_py and isinstance(recv.py, dict):
            # concrete dict, symbolic key: lift when homogeneous
            if recv.ty is PYOBJ:
                raise Unsupported("symbolic key into a heterogeneous constant dict", node)
        if recv.is_py and isinstance(recv.py, (list, tuple)) and recv.ty is PYOBJ:
            raise Unsupported("symbolic index into a heterogeneous sequence", node)
        t = recv.ty
        if isinstance(t, T.List):
            i = lift(idx, T.INT)
            n = z3.Length(lift(recv))
            j = self.norm_index(i, n, st, node)
            ev = Val(t.elem, seq_nth(lift(recv), j))
            if isinstance(t.elem, (T.Ref, T.Opt)):
                self.note_ref(st, ev, z3.And(j >= 0, j < n))
            return ev
        if t == T.STR:
            i = lift(idx, T.INT)
            j = self.norm_index(i, z3.Length(lift(recv)), st, node)
            return Val(T.STR, z3.SubString(lift(recv), j, 1))
        if isinstance(t, T.Tuple):
            if not is_const(idx):
                raise Unsupported("symbolic index into a tuple", node)
            i = self.norm_index(idx.py, len(t.items), st, node)
            return Val(t.items[i], t.sort().accessor(0, i)(lift(recv)))
        if isinstance(t, T.Dict):
            k = lift(idx, t.k)
            s = t.sort()
            self.safety(st, z3.Select(s.dom(lift(recv)), k), "KeyError", node)
            ev = Val(t.v, z3.Select(s.map(lift(recv)), k))
            if isinstance(t.v, (T.Ref, T.Opt)):
                self.note_ref(st, ev, z3.Select(s.dom(lift(recv)), k))
            return ev
        if isinstance(t, T.Map):
            arr, k = lift(recv), lift(idx, t.k)
            if getattr(self.c, "beta_reduce", False) and z3.is_quantifier(arr) and arr.is_lambda() and arr.num_vars() == 1:
                return Val(t.v, z3.substitute_vars(arr.body(), k))  # (lambda n. body)[k] = body[n := k]
            return Val(t.v, z3.Select(arr, k))
        if isinstance(t, T.Ref):
            cs = self.class_of(t)
            if cs.getitem is None:
                raise Unsupported(f"subscript on {t}", node)
            return cs.getitem(self, st, recv, idx, node)
        raise Unsupported(f"subscript on {t}", node)

    def slice(self, recv, sl, st, node):
        lo = self.eval(sl.lower, st) if sl.lower else None
        hi = self.eval(sl.upper, st) if sl.upper else None
        step = self.eval(sl.step, st) if sl.step else None
        if recv.is_py and isinstance(recv.py, (list, tuple, str)) and all(x is None or is_const(x) for x in (lo, hi, step)):
            r = recv.py[slice(lo and lo.py, hi and hi.py, step and step.py)]
            return Val.const(r) if not ops._has_val(r) else Val(PYOBJ, None, r, True)
        if isinstance(recv.ty, T.Tuple) and not recv.is_py and all(x is None or is_const(x) for x in (lo, hi, step)):
            # a slice of a fixed-length tuple value with constant bounds: the python tuple of the selected components
            sv = recv.ty.sort()
            comps = [Val(it, sv.accessor(0, k)(lift(recv))) for k, it in enumerate(recv.ty.items)]
            sel = comps[slice(lo and lo.py, hi and hi.py, step and step.py)]
            tt = T.Tuple(*[c_.ty for c_ in sel])
            return Val(tt, tt.sort().mk(*[c_.term for c_ in sel]))  # a typed tuple value (can be compared, stored in lists)
        if step is not None:
            raise Unsupported("slice step on a symbolic sequence", node)
        t = recv.ty
        if not (isinstance(t, T.List) or t == T.STR):
            raise Unsupported(f"slice of {t}", node)
        s = lift(recv)
        n = z3.Length(s)

        def clamp(v, dflt):
            if v is None:
                return dflt
            x = lift(v, T.INT)
            # the common cases (a non-negative bound, a bound within the length) get the plain term: smaller VCs
            if (is_const(v) and v.py >= 0) or z3.eq(x, n) or self.entails(st, x >= 0):
                if z3.eq(x, n) or self.entails(st, x <= n):
                    return x
                return z3.If(x > n, n, x)
            x = z3.If(x < 0, x + n, x)
            return z3.If(x < 0, 0, z3.If(x > n, n, x))

        a = clamp(lo, z3.IntVal(0))
        b = clamp(hi, n)
        ln = z3.If(b > a, b - a, 0)
        if t == T.STR:
            return Val(t, z3.SubString(s, a, ln))
        from . import models

        return Val(t, models.sub_seq(self, st, s, a, ln))

    # ---- lambda / comprehension -------------------------------------------------------
    def e_Lambda(self, node, st):
        return Val.obj(Closure(node, dict(st.env)))

    def e_ListComp(self, node, st):
        return self.comprehension(node, st, "list")

    def e_SetComp(self, node, st):
        return self.comprehension(node, st, "set")

    def e_GeneratorExp(self, node, st):
        return self.comprehension(node, st, "gen")

    def e_DictComp(self, node, st):
        return self.comprehension(node, st, "dict")

    def e_Call(self, node, st):
        return self.call(node, st)

    def e_Starred(self, node, st):
        raise Unsupported("starred expression", node)

    # ---- generators: the function is executed as "append every yielded value to a hidden list, return the list" ------
    def e_Yield(self, node, st):
        from . import models

        if "__yield__" not in st.env or self.spec_mode:
            raise Unsupported("yield outside a generator function under contract (returns=List(..))", node)
        v = self.eval(node.value, st) if node.value is not None else Val.const(None)
        nv, _ = models.mutate(self, st, st.env["__yield__"], "append", [v], {}, node)
        st.env["__yield__"] = coerce(nv, self.c.returns)
        return Val.const(None)  # nothing is ever sent into the generator

    def e_YieldFrom(self, node, st):
        from . import models

        if "__yield__" not in st.env or self.spec_mode:
            raise Unsupported("yield from outside a generator function under contract", node)
        v = models.materialize(self, self.eval(node.value, st))
        info = models.carrier_info(v)
        if info is not None:
            v = models.carrier_to_list(self, st, info, node)
        nv, _ = models.mutate(self, st, st.env["__yield__"], "extend", [v], {}, node)
        st.env["__yield__"] = coerce(nv, self.c.returns)
        return Val.const(None)

    def e_NamedExpr(self, node, st):
        v = self.eval(node.value, st)
        if not isinstance(node.target, ast.Name):
            raise Unsupported("walrus target", node)
        st.env[node.target.id] = v
        return v
