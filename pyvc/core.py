"""pyvc core: values, symbolic state, obligations.

The term language is z3's Python AST (used only to *build* and print terms; every
obligation is discharged by external solver processes on the printed SMT-LIB2 text,
see solve.py).
"""
from __future__ import annotations

import itertools
from dataclasses import dataclass, field

import z3

from . import ty as T


class Unsupported(Exception):
    """Construct outside the supported subset: the function is *out of reach* (exit 2)."""

    def __init__(self, msg, node=None):
        self.node = node
        ln = getattr(node, "lineno", None)
        super().__init__(f"{msg}" + (f" (line {ln})" if ln else ""))


class PyMerge(Unsupported):
    """`a if c else b` over two different python-level values (functions, classes): no SMT term can hold the result;
    a statement-level conditional expression is re-executed as an `if` statement (the paths stay apart)."""


class SplitGuard(Exception):
    """a call with effects sits under a short-circuit guard at the top of a statement's expression (`if a and f(x):`,
    `c and f(x)`): the statement is re-executed with the guard as an explicit `if` (the path is split)"""


class ContractMisfit(Exception):
    """The contract no longer fits the code (loop/variable gone, sort error)."""


_counter = itertools.count()


def fresh_name(prefix: str) -> str:
    return f"{prefix}!{next(_counter)}"


def fresh(tyd: T.Ty, prefix: str = "v"):
    return z3.Const(fresh_name(prefix), tyd.sort())


# --------------------------------------------------------------------------------------
# Values


class PyObj(T.Ty):
    """Python-level value that never reaches the solver (functions, classes, modules)."""

    key = ("PyObj",)

    def name(self):
        return "PyObj"

    def sort(self):
        raise Unsupported("python-level object used where a data value is needed")


PYOBJ = PyObj()

_CONST_TYPES = (int, float, str, bool, type(None), tuple, list, dict, set, frozenset, range)


class Val:
    __slots__ = ("ty", "term", "py", "is_py", "meta")

    def __init__(self, ty, term=None, py=None, is_py=False, meta=None):
        self.ty = ty
        self.term = term
        self.py = py
        self.is_py = is_py
        self.meta = meta

    @staticmethod
    def const(obj):
        return Val(py_type_of(obj), None, obj, True)

    @staticmethod
    def obj(o):
        return Val(PYOBJ, None, o, True)

    def __repr__(self):
        if self.is_py:
            return f"<py {self.py!r}>"
        return f"<{self.ty} {self.term}>"


def py_type_of(o):
    import enum as _enum

    if isinstance(o, _enum.Enum) and not isinstance(o, int):
        return T.enum_type_of(o)
    if isinstance(o, bool):
        return T.BOOL
    if isinstance(o, int):
        return T.INT
    if isinstance(o, float):
        return T.REAL
    if isinstance(o, str):
        return T.STR
    if o is None:
        return T.NONE
    if isinstance(o, tuple):
        return T.Tuple(*[py_type_of(x) if not isinstance(x, Val) else x.ty for x in o])
    if isinstance(o, (list, range)):
        ts = {(py_type_of(x) if not isinstance(x, Val) else x.ty) for x in o}
        if len(ts) == 1:
            return T.List(ts.pop())
        if ts == {T.INT, T.REAL}:
            return T.List(T.REAL)
        return PYOBJ  # empty or heterogeneous: typed on coercion
    if isinstance(o, (set, frozenset)):
        ts = {py_type_of(x) for x in o}
        if len(ts) == 1:
            return T.Set(ts.pop())
        return PYOBJ
    if isinstance(o, dict):
        ks = {py_type_of(x) for x in o.keys()}
        vs = {(py_type_of(x) if not isinstance(x, Val) else x.ty) for x in o.values()}
        if len(ks) == 1 and len(vs) == 1:
            return T.Dict(ks.pop(), vs.pop())
        return PYOBJ
    return PYOBJ


def real_const(x):
    if isinstance(x, float):
        from fractions import Fraction

        # decimal literals in source (0.8, 0.075) are read as the decimal, not the double
        fr = Fraction(repr(x))
        return z3.RealVal(f"{fr.numerator}/{fr.denominator}")
    return z3.RealVal(x)


def lift(v: Val, want: T.Ty | None = None):
    """z3 term for v, coerced to `want` if given."""
    if want is not None:
        v = coerce(v, want)
    if not v.is_py:
        return v.term
    o = v.py
    t = v.ty if want is None else want
    return _lift_py(o, t)


def _lift_py(o, t):
    if isinstance(o, Val):
        return lift(o, t)
    if isinstance(t, T.Enum):
        if isinstance(o, t.pycls()):
            return t.const(o)
        raise ContractMisfit(f"{o!r} is not a member of {t}")
    if t == T.BOOL:
        return z3.BoolVal(bool(o))
    if t == T.INT:
        if isinstance(o, float):
            raise Unsupported("float constant where int expected")
        return z3.IntVal(int(o))
    if t == T.REAL:
        return real_const(o)
    if t == T.STR:
        return z3.StringVal(o)
    if t == T.NONE:
        return T.NONE.sort().none_v
    if isinstance(t, T.Opt):
        s = t.sort()
        if o is None:
            return s.nil
        return s.some(_lift_py(o, t.inner))
    if isinstance(t, T.List):
        items = [_lift_py(x, t.elem) for x in o]
        if not items:
            return z3.Empty(t.sort())
        us = [z3.Unit(i) for i in items]
        return us[0] if len(us) == 1 else z3.Concat(*us)
    if isinstance(t, T.Tuple):
        if len(o) != len(t.items):
            raise ContractMisfit(f"tuple arity {len(o)} vs {t}")
        return t.sort().mk(*[_lift_py(x, it) for x, it in zip(o, t.items)])
    if isinstance(t, T.Set):
        a = z3.K(t.elem.sort(), z3.BoolVal(False))
        for x in o:
            a = z3.Store(a, _lift_py(x, t.elem), z3.BoolVal(True))
        return a
    if isinstance(t, T.Dict):
        dom = z3.K(t.k.sort(), z3.BoolVal(False))
        mp = fresh_map_default(t)
        keys = []
        for k, x in o.items():
            kz = _lift_py(k, t.k)
            dom = z3.Store(dom, kz, z3.BoolVal(True))
            mp = z3.Store(mp, kz, _lift_py(x, t.v))
            keys.append(z3.Unit(kz))
        ks = z3.Empty(z3.SeqSort(t.k.sort())) if not keys else (keys[0] if len(keys) == 1 else z3.Concat(*keys))
        return t.sort().mk(dom, mp, ks)
    if isinstance(t, T.Union):
        for i, a in enumerate(t.alts):
            try:
                if _py_fits(o, a):
                    return getattr(t.sort(), f"alt{i}")(_lift_py(o, a))
            except Unsupported:
                continue
        raise Unsupported(f"constant {o!r} fits no alternative of {t}")
    raise Unsupported(f"cannot lift python constant {o!r} to {t}")


def _py_fits(o, t):
    if t == T.STR:
        return isinstance(o, str)
    if t == T.INT:
        return isinstance(o, int) and not isinstance(o, bool)
    if t == T.REAL:
        return isinstance(o, (int, float)) and not isinstance(o, bool)
    if t == T.BOOL:
        return isinstance(o, bool)
    if isinstance(t, T.Tuple):
        return isinstance(o, tuple) and len(o) == len(t.items)
    if isinstance(t, T.TupleOf):
        return isinstance(o, tuple)
    if isinstance(t, T.List):
        return isinstance(o, list)
    return False


_default_maps: dict = {}


def fresh_map_default(t: T.Dict):
    """Arbitrary (but fixed) values outside a dict's domain."""
    if t.key not in _default_maps:
        _default_maps[t.key] = z3.Const("dflt_" + T._mangle(t), z3.ArraySort(t.k.sort(), t.v.sort()))
    return _default_maps[t.key]


def coerce(v: Val, want: T.Ty) -> Val:
    if v.ty == want and not v.is_py:
        return v
    import enum as _enum

    if isinstance(want, T.Enum) and v.is_py and isinstance(v.py, _enum.Enum):
        return Val(want, _lift_py(v.py, want))
    if isinstance(v.ty, T.Enum) and not v.is_py and want in (T.INT, T.REAL) and v.ty.value_type() == T.INT and issubclass(v.ty.pycls(), int):
        iv = Val(T.INT, v.ty.chain(v.term, lambda m: z3.IntVal(int(m.value))))  # an IntEnum member used as a number
        return iv if want == T.INT else Val(T.REAL, z3.ToReal(iv.term))
    if v.is_py and v.ty is not PYOBJ or (v.is_py and isinstance(v.py, _CONST_TYPES)):
        if isinstance(v.py, _CONST_TYPES) or isinstance(v.py, Val):
            if want is PYOBJ:
                return v
            return Val(want, _lift_py(v.py, want))
    if v.ty == want:
        return v
    if want is PYOBJ:
        return v
    if v.ty == T.INT and want == T.REAL:
        return Val(T.REAL, z3.ToReal(v.term))
    if v.ty == T.BOOL and want == T.INT:
        return Val(T.INT, z3.If(v.term, 1, 0))
    if isinstance(want, T.Opt):
        if v.ty == T.NONE:
            return Val(want, want.sort().nil)
        if isinstance(v.ty, T.Opt):
            raise ContractMisfit(f"cannot coerce {v.ty} to {want}")
        inner = coerce(v, want.inner)
        return Val(want, want.sort().some(inner.term))
    if isinstance(want, T.Union):
        for i, a in enumerate(want.alts):
            if a == v.ty:
                return Val(want, getattr(want.sort(), f"alt{i}")(v.term))
        for i, a in enumerate(want.alts):
            try:
                c = coerce(v, a)
                return Val(want, getattr(want.sort(), f"alt{i}")(c.term))
            except (ContractMisfit, Unsupported):
                pass
    if isinstance(want, T.List) and isinstance(v.ty, T.List) and v.ty.elem == want.elem and not v.is_py:
        return Val(want, v.term)  # List(T) <-> TupleOf(T): the same sequence seen at the declared type (tuple(xs) / list(t))
    if isinstance(want, T.List) and isinstance(v.ty, T.List) and v.ty.elem == T.INT and want.elem == T.REAL:
        raise Unsupported("List[Int] -> List[Real] coercion of a symbolic list")
    if isinstance(want, T.Tuple) and isinstance(v.ty, T.Tuple) and len(want.items) == len(v.ty.items):
        s = v.ty.sort()
        parts = [coerce(Val(it, s.accessor(0, i)(v.term)), wt) for i, (it, wt) in enumerate(zip(v.ty.items, want.items))]
        return Val(want, want.sort().mk(*[p.term for p in parts]))
    raise ContractMisfit(f"cannot coerce {v.ty} to {want}")


def join_types(a: T.Ty, b: T.Ty) -> T.Ty | None:
    if a == b:
        return a
    if a is PYOBJ or b is PYOBJ:
        return None
    if {a, b} == {T.INT, T.REAL}:
        return T.REAL
    if a == T.NONE and not isinstance(b, T.Opt):
        return T.Opt(b)
    if b == T.NONE and not isinstance(a, T.Opt):
        return T.Opt(a)
    if a == T.NONE and isinstance(b, T.Opt):
        return b
    if b == T.NONE and isinstance(a, T.Opt):
        return a
    if isinstance(a, T.Opt) and not isinstance(b, T.Opt):
        j = join_types(a.inner, b)
        return T.Opt(j) if j is not None and not isinstance(j, T.Opt) else None
    if isinstance(b, T.Opt) and not isinstance(a, T.Opt):
        return join_types(b, a)
    if isinstance(a, T.Opt) and isinstance(b, T.Opt):
        j = join_types(a.inner, b.inner)
        return T.Opt(j) if j is not None else None
    return None


# --------------------------------------------------------------------------------------
# State


class State:
    __slots__ = ("env", "heap", "alloc", "pc", "escaped", "ghost", "dead", "pyheap", "mutated", "rebound")

    def __init__(self):
        self.env: dict[str, Val] = {}
        self.heap: dict[tuple, object] = {}
        self.alloc = None
        self.pc: list = []
        self.escaped: set[str] = set()
        self.ghost: dict = {}
        self.pyheap: dict = {}  # (object constant name, field) -> python-level Val (closures, classes, concrete containers)
        self.dead = False
        self.mutated: set = set()  # parameter names whose (caller-visible) container was mutated in place
        self.rebound: set = set()  # names re-bound by a plain assignment (they no longer denote the caller's object)

    def copy(self) -> "State":
        s = State()
        s.env = dict(self.env)
        s.heap = dict(self.heap)
        s.alloc = self.alloc
        s.pc = list(self.pc)
        s.escaped = set(self.escaped)
        s.ghost = dict(self.ghost)
        s.pyheap = dict(self.pyheap)
        s.mutated = set(self.mutated)
        s.rebound = set(self.rebound)
        return s

    def assume(self, c):
        if z3.is_true(c):
            return
        self.pc.append(c)


@dataclass
class Obligation:
    name: str
    kind: str
    hyps: list
    goal: object
    line: int | None = None
    info: dict = field(default_factory=dict)
    expect_fail: bool = False  # canaries


@dataclass
class Outcome:
    kind: str  # normal | return | raise | break | continue
    value: Val | None = None
    exc: str | None = None
    line: int | None = None


# ---- structural simplification of sequence terms (keeps E-matching triggers visible) -------------------


def seq_nth(s, j):
    """nth(s, j), pushed through ++ / unit / ite so that hypotheses about the parts can fire."""
    if z3.is_app(s):
        k = s.decl().kind()
        if k == z3.Z3_OP_SEQ_UNIT:
            return s.arg(0)
        if k == z3.Z3_OP_SEQ_CONCAT:
            parts = s.children()
            off = z3.IntVal(0)
            res = None
            cases = []
            for p in parts:
                ln = z3.Length(p)
                cases.append((off, ln, p))
                off = off + ln
            res = seq_nth(cases[-1][2], j - cases[-1][0])
            for off_, ln, p in reversed(cases[:-1]):
                res = z3.If(j < z3.simplify(off_ + ln), seq_nth(p, z3.simplify(j - off_)), res)
            return res
        if k == z3.Z3_OP_ITE:
            return z3.If(s.arg(0), seq_nth(s.arg(1), j), seq_nth(s.arg(2), j))
    return s[j]


def seq_contains_elem(s, x):
    """contains(s, unit(x)) pushed through ++ / unit / ite / empty."""
    if z3.is_app(s):
        k = s.decl().kind()
        if k == z3.Z3_OP_SEQ_UNIT:
            return s.arg(0) == x
        if k == z3.Z3_OP_SEQ_EMPTY:
            return z3.BoolVal(False)
        if k == z3.Z3_OP_SEQ_CONCAT:
            return z3.Or(*[seq_contains_elem(p, x) for p in s.children()])
        if k == z3.Z3_OP_ITE:
            return z3.If(s.arg(0), seq_contains_elem(s.arg(1), x), seq_contains_elem(s.arg(2), x))
    return z3.Contains(s, z3.Unit(x))
