"""Frame verification: "compiling never writes to the caller's sources".

A whole-program allocation-site based points-to / effect analysis over the REAL ASTs of every function of the analysed
package that is reachable from a set of roots, run under the property's precondition (`inplace` is False wherever that
name occurs -- justified by a syntactic obligation checked by the driver: no code ever binds `inplace` to anything but
a forwarded `inplace` / False).

Abstract objects: the source blobs SRC (everything reachable from what the caller passed in; for designspace roots
SRC.font stands for the fonts attached to the document), GS (a glyph set passed separately to a filter), one object
per allocation site and context (instances of analysed classes, containers, library objects), class / function /
module objects, the concrete objects that exist at module and class level after import, NONE, and UNK: the one
object that stands for every value that is not tracked (numbers, strings, ...; they cannot be written to, but they must
be visible so that no decision rests on their absence -- see Analysis.__init__).  Every *mutation site* (attribute / subscript store or delete, augmented assignment of a container,
mutator method, drawing into a pen, setattr, catalogued mutating library call) is one frame obligation
`SRC not in points-to(target)`; it is discharged when the fixpoint has no source blob in the target's points-to set,
otherwise the site is an alarm.  Mutations of module- / class-level objects are collected separately (global state).

The heap is flow-insensitive; local variables are resolved by reaching definitions (class ReachingDefs).  Precision
comes from cloning functions per calling context (constant arguments, number of *args, constructor per allocation
site), from tests decided on the fixpoint and re-validated by the fixpoint computed under them (solve()), from
narrowing, and from a few temporal devices (ctor_versioned, guard_established, stored_after).  EVERY such device
carries, at the code, the argument why no concrete execution leaves the abstraction, and has must-alarm twins in
selftest/frames_cases (run by selftest/frames_run.py).

A run that does not converge, or that meets a reachable construct it does not model (Analysis.unsupported), claims
nothing: the driver reports these as undischarged obligations.

Assumptions (listed in the evidence by the hooks): the catalogues below model LIBRARY behaviour (which methods /
functions mutate what, which return new objects, the pen protocol, designspace copy semantics); user-supplied filter /
writer / compiler subclasses are not analysed; class- and module-level state at call time is the state after import.
"""
from __future__ import annotations

import ast
import functools
import importlib
import inspect
import os
import pkgutil
import sys
import types
from collections import defaultdict

MUTATORS = {
    "append", "extend", "insert", "remove", "pop", "clear", "sort", "reverse", "update", "setdefault", "popitem",
    "add", "discard", "difference_update", "intersection_update", "symmetric_difference_update", "__setitem__",
    "__delitem__", "appendAnchor", "clearContours", "clearComponents", "clearAnchors", "removeComponent",
    "appendContour", "appendComponent", "appendGuideline", "newGlyph", "newLayer", "insertGlyph", "addGlyph", "removeOverlap", "removeContour",
    "clearGuidelines", "clearImage", "move", "round", "correctContourDirection", "decomposeComponent", "decomposeAllComponents",
    "renameGlyph", "renameLayer", "addAxis", "addSource", "addInstance", "addRule", "addVariableFont", "addAxisDescriptor", "addSourceDescriptor",
    "loadSourceFonts", "setGlyphOrder", "importXML", "write", "save", "close", "normalize",
    # DesignSpaceDocument.findDefault() "updates the document's `default` value" (it assigns self.default)
    "findDefault",
}
# library methods that write into their FIRST ARGUMENT (fontMath: MathGlyph.extractGlyph(glyph), MathInfo.extractInfo(info),
# MathKerning.extractKerning(font))
ARG_MUTATING_METHODS = {"extractGlyph", "extractInfo", "extractKerning"}
# library methods that write to (parts of) their receiver only where a certain attribute IS None:
#   DesignSpaceDocument.loadSourceFonts(opener): `for s in self.sources: if s.font is not None: continue; s.font = ...`
#   (fontTools/designspaceLib/__init__.py) -- it writes s.font for the sources whose font is None and nothing else.
# method -> (collection attribute of the receiver, attribute of the elements)
GUARDED_MUTATORS = {"loadSourceFonts": ("sources", "font")}
# mutators that create a child object, put it into the receiver and return it
CREATOR_METHODS = {"newGlyph", "newLayer", "addGlyph", "insertGlyph", "addAxisDescriptor", "addSourceDescriptor", "addInstanceDescriptor", "appendGuideline"}
PEN_GETTERS = {"getPen", "getPointPen"}
PEN_METHODS = {
    "moveTo", "lineTo", "curveTo", "qCurveTo", "closePath", "endPath", "addComponent", "beginPath", "addPoint",
    "addVarComponent",
}
DRAW_METHODS = {"draw", "drawPoints"}
# methods that return a NEW object even when called on a source object
FRESH_METHODS = {
    "instantiateGlyphObject", "copy", "deepcopyExceptFonts", "copyDataFromGlyph", "keys", "values", "items", "getGlyphOrder", "getReverseGlyphMap",
    "getBounds", "getControlBounds", "asdict", "serialize", "map_forward", "map_backward", "getFullDesignLocation", "getFullUserLocation",
    "split", "rsplit", "strip", "lower", "upper", "format", "join", "replace", "encode", "decode", "startswith", "endswith", "title", "ljust", "rstrip", "lstrip",
    "get_userspace_location", "getStatNames", "getVariableFonts", "normalizeLocation", "most_common", "groupby", "getDataForSerialization",
}
# ... of which these return a new container / record whose CONTENTS are still the receiver's own objects
SHALLOW_FRESH_METHODS = {"values", "items", "asdict", "serialize", "getFullDesignLocation", "getFullUserLocation", "get_userspace_location", "getStatNames",
                         "getVariableFonts", "groupby", "most_common", "getDataForSerialization"}
PURE_BUILTINS = {
    "len", "isinstance", "issubclass", "hasattr", "int", "float", "str", "bool", "abs", "round", "any", "all", "repr",
    "hash", "id", "ord", "chr", "print", "callable", "format", "divmod", "pow", "hex", "bin", "oct", "otRound", "range", "bytes", "bytearray",
    "open", "object", "property", "staticmethod", "classmethod", "ValueError", "TypeError", "KeyError", "NotImplementedError",
    "ceil", "floor", "sqrt", "log", "atan2", "degrees", "normpath", "evaluateRule", "optimizeWidths", "calcCodePageRanges",
}
# fontTools.designspaceLib.split: yield (key, document) pairs; each document is a NEW document whose source
# descriptors still reference the original font objects
DOC_SPLITTERS = {"splitInterpolable", "splitVariableFonts"}
# library functions that modify (what is reachable from) their arguments
# name -> how deep below the first argument the function writes (0: the argument itself, 1: also its elements, ...):
#   fonts_to_quadratic(list of glyph sets)  rewrites the glyph objects held by the dicts held by the list       (cu2qu.ufo)
#   compress(ttFont) / subroutinize(ttFont) replace / rewrite the CFF table of the TTFont                      (compreffor, cffsubr)
#   addGSUBFeatureVariations(ttFont, ..)    adds to the GSUB table of the TTFont                               (fontTools.varLib)
MUTATING_FUNCS = {"fonts_to_quadratic": 3, "glyphs_to_quadratic": 3, "addGSUBFeatureVariations": 1, "subroutinize": 1, "compress": 1,
                  "closure_glyphs": 3, "merge": 3, "removeOverlaps": 3}
COPYING_BUILTINS = {"list", "tuple", "set", "frozenset", "sorted", "reversed", "dict", "OrderedDict", "defaultdict", "Counter", "deque"}
# library functions assumed to return a NEW object that does not alias their arguments (and not to mutate them)
FRESH_FUNCS = {
    "newTable", "buildCOLR", "buildCPAL", "buildMathTable", "getLogger", "import_module", "normalize", "unionRect", "binary2num", "pformat",
    "radians", "tan", "gmtime", "strftime", "strptime", "timegm", "getfullargspec", "isclass", "split", "union", "calcIntBounds", "calcBounds",
    "convertCFFToCFF2", "NamedTemporaryFile", "quantizeRect", "computeMegaGlyphs", "getTableClass", "getSearchRange", "hashlib", "sha256", "md5", "lookupKerningValue", "unicodeScriptDirection",
    "script", "script_extension", "script_horizontal_direction", "ot_tags_from_script", "bidirectional", "parseLayoutFeatures", "instantiateVariableFont",
    "build", "build_many", "load_designspace", "VariationModel", "normalizeLocation", "piecewiseLinearMap", "addOpenTypeFeatures", "addOpenTypeFeaturesFromString",
    "compile", "sub", "match", "search", "findall", "fullmatch", "escape", "basename", "dirname", "join", "abspath", "exists", "warn",
}
# kinds of abstract objects that are never the value None (library results -- kind "ext" -- and anything read
# from the source -- SRC -- may be None)
# attributes of source / library objects (defcon, ufoLib2, fontTools.designspaceLib, feaLib ast, ...) that hold a str: an
# immutable scalar, i.e. not an object that could be written to or that holds other objects. (Assumption on the library
# object models: `.name` of a glyph, layer, anchor, component, axis, source, instance, lookup, ... is its name string.)
SCALAR_LIB_ATTRS = {"name"}
# method names that have an effect when called on a source object (see method_call)
SOURCE_EFFECT_METHODS = MUTATORS | PEN_METHODS | DRAW_METHODS | set(GUARDED_MUTATORS) | ARG_MUTATING_METHODS
DEFINITE_KINDS = {"cont", "inst", "cls", "func", "bound", "mod", "glob", "attrs", "super", "extcls", "GS", "UNK"}
# dunder methods that python (or library code) invokes implicitly on an instance; they are analysed for every
# instance that is created (see Analysis.implicit_dunders)
EXPLICIT_DUNDERS = {"__init__", "__post_init__", "__call__"}
UNSUPPORTED_DUNDERS = {"__new__", "__getattribute__", "__setattr__", "__delattr__", "__get__", "__set__", "__delete__", "__init_subclass__",
                       "__class_getitem__", "__set_name__", "__prepare__", "__instancecheck__", "__subclasscheck__", "__mro_entries__"}
BINARY_DUNDERS = {"__eq__", "__ne__", "__lt__", "__le__", "__gt__", "__ge__", "__add__", "__radd__", "__iadd__", "__sub__", "__rsub__", "__isub__",
                  "__mul__", "__rmul__", "__imul__", "__truediv__", "__rtruediv__", "__floordiv__", "__mod__", "__rmod__", "__pow__", "__matmul__",
                  "__and__", "__rand__", "__iand__", "__or__", "__ror__", "__ior__", "__xor__", "__rxor__", "__ixor__", "__lshift__", "__rshift__",
                  "__neg__", "__pos__", "__invert__", "__abs__"}
ITER_BUILTINS = {"zip", "enumerate", "map", "filter", "iter", "chain", "zip_strict", "zip_longest", "product", "islice", "partial"}


def _modname(o):
    m = getattr(o, "__module__", "")
    return m if isinstance(m, str) else ""


class ReachingDefs:
    """Intraprocedural reaching definitions for the local variables of ONE function, on the structured AST.

    For every read `x` (Name, Load) that is evaluated in the function's own scope it computes the set of BINDING
    SITES of x that can have produced the value the read sees: "param" (the value bound by the call), "unbound",
    or the position (lineno, col) of a binding Name / statement.  reach[id(name_node)] is None where this is not
    known (reads inside lambdas, nested functions and generator expressions, which run later; names that are
    bound by a walrus or declared global / nonlocal; reads of comprehension variables).

    Control flow: statements of a block in order; `if` joins its branches; loops are iterated to a fixpoint
    (back edge from the end of the body and from `continue`, exit from the test and from `break`); return / raise
    end a path; an exception may leave a `try` body (or a `with` body whose manager may swallow it) after ANY
    prefix of its statements, so a handler, a `finally` and the code after a `with` are entered with the join of
    the states before, inside and after that body.  Within one expression statement all reads see the state before
    the statement, except that the targets of an assignment are bound after its value was read.
    """

    def __init__(self, fnode, const_test=None):
        self.fnode = fnode
        self.const_test = const_test  # test expression -> True / False when constant under the run's assumptions, else ...
        self.reach = {}
        self.bad = set()  # names never tracked
        a = fnode.args
        self.params = [x.arg for x in a.posonlyargs + a.args + a.kwonlyargs] + ([a.vararg.arg] if a.vararg else []) + ([a.kwarg.arg] if a.kwarg else [])
        self.ok = True
        body = fnode.body if isinstance(fnode.body, list) else None
        if body is None:
            self.ok = False
            return
        for n in ast.walk(fnode):
            if isinstance(n, ast.NamedExpr) and isinstance(n.target, ast.Name):
                self.bad.add(n.target.id)
            elif isinstance(n, (ast.Global, ast.Nonlocal)):
                self.bad.update(n.names)
        names = set(self.params)

        def own(n):
            # the names bound in THIS function's scope (not inside nested functions / classes / comprehensions)
            if isinstance(n, ast.Name):
                if isinstance(n.ctx, (ast.Store, ast.Del)):
                    names.add(n.id)
                return
            if isinstance(n, (ast.FunctionDef, ast.AsyncFunctionDef, ast.ClassDef)):
                names.add(n.name)
                for d in n.decorator_list:
                    own(d)
                return
            if isinstance(n, ast.Lambda):
                return
            if isinstance(n, (ast.ListComp, ast.SetComp, ast.DictComp, ast.GeneratorExp)):
                own(n.generators[0].iter)  # only the first iterable is evaluated in the enclosing scope
                return
            if isinstance(n, (ast.Import, ast.ImportFrom)):
                names.update((al.asname or al.name).split(".")[0] for al in n.names)
            elif isinstance(n, ast.ExceptHandler) and n.name:
                names.add(n.name)
            elif isinstance(n, (ast.MatchAs, ast.MatchStar)) and n.name:
                names.add(n.name)
            elif isinstance(n, ast.MatchMapping) and n.rest:
                names.add(n.rest)
            for c in ast.iter_child_nodes(n):
                own(c)

        for st in body:
            own(st)
        self.names = names - self.bad
        st0 = {n: frozenset(["param"]) if n in self.params else frozenset(["unbound"]) for n in self.names}
        self.loops = []
        try:
            self.block(body, st0)
        except RecursionError:
            self.ok = False

    # -- lattice -----------------------------------------------------------------------------------------
    @staticmethod
    def join(a, b):
        if a is None:
            return b
        if b is None:
            return a
        if a is b:
            return a
        return {k: (a[k] | b[k]) for k in a}

    def bind(self, state, name, site):
        if state is None or name not in self.names:
            return state
        st = dict(state)
        st[name] = frozenset([site])
        return st

    def bind_target(self, state, t, other=False):
        if state is None:
            return None
        if isinstance(t, ast.Name):
            return self.bind(state, t.id, ("other", t.lineno, t.col_offset) if other else (t.lineno, t.col_offset))
        if isinstance(t, (ast.Tuple, ast.List)):
            for e in t.elts:
                state = self.bind_target(state, e, other)
            return state
        if isinstance(t, ast.Starred):
            return self.bind_target(state, t.value, other)
        self.expr(t, state)  # attribute / subscript target: its sub-expressions are reads
        return state

    # -- expressions: record what every read sees -----------------------------------------------------------------
    def expr(self, e, state, deferred=False, shadow=frozenset()):
        if e is None:
            return
        if isinstance(e, ast.Name):
            if isinstance(e.ctx, ast.Load):
                if deferred or state is None or e.id in shadow or e.id not in self.names:
                    self.reach[id(e)] = None
                else:
                    prev = self.reach.get(id(e), frozenset())
                    self.reach[id(e)] = None if prev is None else prev | state[e.id]
            return
        if isinstance(e, (ast.Lambda, ast.GeneratorExp)):
            for c in ast.iter_child_nodes(e):
                self._walk_deferred(c)
            return
        if isinstance(e, (ast.ListComp, ast.SetComp, ast.DictComp)):
            sh = set(shadow)
            for g in e.generators:
                self.expr(g.iter, state, deferred, frozenset(sh))
                for n in ast.walk(g.target):
                    if isinstance(n, ast.Name):
                        sh.add(n.id)
                for c in g.ifs:
                    self.expr(c, state, deferred, frozenset(sh))
            for part in ([e.key, e.value] if isinstance(e, ast.DictComp) else [e.elt]):
                self.expr(part, state, deferred, frozenset(sh))
            return
        for c in ast.iter_child_nodes(e):
            if isinstance(c, (ast.expr, ast.keyword, ast.comprehension, ast.arguments, ast.arg, ast.FormattedValue, ast.Slice)) or isinstance(c, ast.AST):
                self.expr(c, state, deferred, shadow)

    def _walk_deferred(self, node):
        for n in ast.walk(node):
            if isinstance(n, ast.Name) and isinstance(n.ctx, ast.Load):
                self.reach[id(n)] = None

    # -- statements ------------------------------------------------------------------------------------------------------
    def block(self, stmts, state):
        for s in stmts:
            state = self.stmt(s, state)
        return state

    def all_states_of(self, stmts, state):
        """join of the states before, between and after the statements of a block (exception at any point)"""
        acc = state
        cur = state
        for s in stmts:
            before = dict(self.reach)
            cur = self.stmt(s, cur)
            acc = self.join(acc, cur)
            # an exception may also occur inside a compound statement: everything it binds may or may not be bound
            if cur is not None and acc is not None:
                for n in ast.walk(s):
                    if isinstance(n, ast.Name) and isinstance(n.ctx, (ast.Store, ast.Del)) and n.id in self.names:
                        acc = dict(acc)
                        acc[n.id] = acc[n.id] | frozenset([("other", n.lineno, n.col_offset)]) if not self._simple_site(n) else acc[n.id] | frozenset([(n.lineno, n.col_offset)])
            elif cur is None:
                # the rest of the body is unreachable on the normal path, but what was bound so far stays in acc
                for n in ast.walk(s):
                    if isinstance(n, ast.Name) and isinstance(n.ctx, (ast.Store, ast.Del)) and n.id in self.names and acc is not None:
                        acc = dict(acc)
                        acc[n.id] = acc[n.id] | frozenset([(n.lineno, n.col_offset) if self._simple_site(n) else ("other", n.lineno, n.col_offset)])
        return acc, cur

    def _simple_site(self, n):
        return isinstance(n.ctx, ast.Store)

    def stmt(self, s, state):
        if state is None:
            # unreachable code: its reads see nothing we need to account for, but keep them defined
            for n in ast.walk(s):
                if isinstance(n, ast.Name) and isinstance(n.ctx, ast.Load) and id(n) not in self.reach:
                    self.reach[id(n)] = frozenset()
            return None
        if isinstance(s, ast.Expr):
            self.expr(s.value, state)
            return state
        if isinstance(s, ast.Assign):
            self.expr(s.value, state)
            for t in s.targets:
                state = self.bind_target(state, t)
            return state
        if isinstance(s, ast.AnnAssign):
            if s.value is not None:
                self.expr(s.value, state)
                return self.bind_target(state, s.target)
            return state
        if isinstance(s, ast.AugAssign):
            self.expr(s.value, state)
            if isinstance(s.target, ast.Name):
                # reads the old binding; the name then refers to the same object (in-place update) or to a new
                # immutable value: not a tracked definition
                fake = ast.copy_location(ast.Name(id=s.target.id, ctx=ast.Load()), s.target)
                self.expr(fake, state)
                return self.bind(state, s.target.id, ("other", s.target.lineno, s.target.col_offset)) if False else state
            self.expr(s.target, state)
            return state
        if isinstance(s, ast.Delete):
            for t in s.targets:
                if isinstance(t, ast.Name):
                    state = self.bind(state, t.id, "unbound")
                else:
                    self.expr(t, state)
            return state
        if isinstance(s, (ast.Return,)):
            self.expr(s.value, state)
            return None
        if isinstance(s, ast.Raise):
            self.expr(s.exc, state)
            self.expr(s.cause, state)
            return None
        if isinstance(s, (ast.Break, ast.Continue)):
            if self.loops:
                key = "brk" if isinstance(s, ast.Break) else "cont"
                self.loops[-1][key] = self.join(self.loops[-1][key], state)
            return None
        if isinstance(s, ast.Pass):
            return state
        if isinstance(s, ast.If):
            self.expr(s.test, state)
            c = self.const_test(s.test) if self.const_test is not None else ...
            if c is not ...:
                return self.block(s.body if c else s.orelse, state)
            return self.join(self.block(s.body, state), self.block(s.orelse, state))
        if isinstance(s, (ast.For, ast.AsyncFor, ast.While)):
            is_for = not isinstance(s, ast.While)
            if is_for:
                self.expr(s.iter, state)
            head = state
            exit_state = None
            for _ in range(12):
                self.loops.append({"brk": None, "cont": None})
                if is_for:
                    body_in = self.bind_target(head, s.target)
                else:
                    self.expr(s.test, head)
                    body_in = head
                body_out = self.block(s.body, body_in)
                fr = self.loops.pop()
                new_head = self.join(self.join(state, body_out), fr["cont"])
                exit_state = (fr["brk"], head)
                if new_head == head:
                    break
                head = new_head
            else:
                self.ok = False
            brk, normal = exit_state
            # loop ends normally: the test failed / the iterable is exhausted, in state `head` (for a `for`, the target
            # keeps its last binding, which is part of head after the first iteration)
            if is_for:
                normal = self.join(head, None)
            else:
                self.expr(s.test, head)
            after_else = self.block(s.orelse, normal)
            return self.join(after_else, brk)
        if isinstance(s, (ast.With, ast.AsyncWith)):
            for it in s.items:
                self.expr(it.context_expr, state)
                if it.optional_vars is not None:
                    state = self.bind_target(state, it.optional_vars)
            acc, out = self.all_states_of(s.body, state)
            return self.join(out, acc)  # the manager may swallow an exception raised anywhere in the body
        if isinstance(s, ast.Try) or s.__class__.__name__ == "TryStar":
            acc, body_out = self.all_states_of(s.body, state)
            outs = []
            hacc = None
            for h in s.handlers:
                hin = acc
                self.expr(h.type, hin)
                if h.name:
                    hin = self.bind(hin, h.name, ("other", h.lineno, h.col_offset))
                a2, hout = self.all_states_of(h.body, hin)
                if h.name and hout is not None:
                    hout = self.bind(hout, h.name, "unbound")
                hacc = self.join(hacc, a2)
                outs.append(hout)
            eacc, else_out = self.all_states_of(s.orelse, body_out) if s.orelse else (body_out, body_out)
            normal = else_out
            for o in outs:
                normal = self.join(normal, o)
            if s.finalbody:
                # entered from everywhere (normal completion, or an exception / return in any part)
                everything = self.join(self.join(self.join(acc, hacc), eacc), normal)
                saved = dict(self.reach)
                self.block(s.finalbody, everything)  # records the reads for the exceptional entries
                return self.block(s.finalbody, normal) if normal is not None else None
            return normal
        if isinstance(s, (ast.FunctionDef, ast.AsyncFunctionDef, ast.ClassDef)):
            for d in s.decorator_list:
                self.expr(d, state)
            if not isinstance(s, ast.ClassDef):
                for d in s.args.defaults + [x for x in s.args.kw_defaults if x is not None]:
                    self.expr(d, state)
            else:
                for b in s.bases:
                    self.expr(b, state)
            for st in s.body:
                self._walk_deferred(st)
            return self.bind(state, s.name, ("other", s.lineno, s.col_offset))
        if isinstance(s, (ast.Import, ast.ImportFrom)):
            for al in s.names:
                state = self.bind(state, (al.asname or al.name).split(".")[0], ("other", s.lineno, s.col_offset))
            return state
        if isinstance(s, ast.Assert):
            self.expr(s.test, state)
            self.expr(s.msg, state)
            return state
        if isinstance(s, ast.Match):
            self.expr(s.subject, state)
            out = state  # no case may match
            for c in s.cases:
                st = state
                for n in ast.walk(c.pattern):
                    if isinstance(n, (ast.MatchAs, ast.MatchStar)) and n.name:
                        st = self.bind(st, n.name, ("other", n.lineno, n.col_offset))
                    elif isinstance(n, ast.MatchMapping) and n.rest:
                        st = self.bind(st, n.rest, ("other", n.lineno, n.col_offset))
                    elif isinstance(n, ast.expr):
                        self.expr(n, state)
                self.expr(c.guard, st)
                out = self.join(out, self.block(c.body, st))
            return out
        # anything else (global / nonlocal declarations, ...): reads only
        for c in ast.iter_child_nodes(s):
            if isinstance(c, ast.expr):
                self.expr(c, state)
        return state


class ElemSet(set):
    """the element set ("[]") of a container; `.np` holds the elements that were NOT added by a statement that
    certainly ran before the container escaped from the function that allocated it (see Analysis.is_prekill_add)"""

    __slots__ = ("np",)

    def __init__(self):
        super().__init__()
        self.np = set()


class ProvSet(set):
    """the value set of an attribute of a library object, with the ORIGIN of every value: `.stores[v]` = the attribute-store
    statements (context key, statement) that put v there, `.other` = the values that (also) got there in any other way"""

    __slots__ = ("stores", "other")

    def __init__(self):
        super().__init__()
        self.stores = {}
        self.other = set()


class FieldMap(dict):
    """(object, attribute) -> points-to set, with an index of the attributes stored per object. A "version" object
    (Obj.alias_of) shares all fields with its original except the one it owns."""

    def __init__(self):
        super().__init__()
        self.by_obj = defaultdict(set)
        self.keyed = defaultdict(set)  # object -> its "k:<constant key>" fields

    # (no __getitem__ override: existing keys take the fast path of dict; a version object's shared fields are entered
    # under its own key as THE SAME set object as the original's -- sets are only ever updated in place)
    def __contains__(self, key):
        o = key[0]
        if o.alias_of is not None and key[1] != o.own:
            key = (o.alias_of, key[1])
        return dict.__contains__(self, key)

    def __missing__(self, key):
        o = key[0]
        if o.alias_of is not None and key[1] != o.own:
            v = self[(o.alias_of, key[1])]
            dict.__setitem__(self, key, v)
            return v
        v = ElemSet() if key[1] == "[]" else ProvSet() if (key[0].kind == "ext" and isinstance(key[1], str)) else set()
        dict.__setitem__(self, key, v)
        self.by_obj[key[0]].add(key[1])
        if isinstance(key[1], str) and key[1].startswith("k:"):
            self.keyed[key[0]].add(key[1])
        return v

    def keyed_of(self, o):
        if o.alias_of is not None:
            return self.keyed.get(o.alias_of, ())
        return self.keyed.get(o, ())

    def clear(self):
        super().clear()
        self.by_obj.clear()
        self.keyed.clear()

    def attrs_of(self, o):
        if o.alias_of is not None:
            return list((self.by_obj.get(o.alias_of, set()) - {o.own}) | self.by_obj.get(o, set()))
        return list(self.by_obj.get(o, ()))


class Obj:
    __slots__ = ("kind", "key", "py", "wraps", "through", "self_", "label", "target", "alias_of", "own", "shadow_of")

    def __init__(self, kind, key, py=None, label=None):
        self.kind = kind
        self.key = key
        self.py = py
        self.alias_of = None  # a later "version" of that object: shares every field with it except `own` (see killed_clone)
        self.own = None
        self.shadow_of = None  # (object, field): a container standing for the containers in that field AFTER their contents were replaced
        self.wraps = set()  # objects it may reference (reads through it can reach them)
        self.target = set()  # objects that are MUTATED when this one is (a pen's output pen/glyph, a view's base)
        self.through = False  # mutating this object mutates `target`
        self.self_ = None
        self.label = label or f"{kind}@{key}"

    def __repr__(self):
        return self.label


class Ctx:
    """A function analysed in a calling context (constant bool/None arguments it branches on)."""

    __slots__ = ("func", "consts", "key")

    def __init__(self, func, consts):
        self.func = func
        self.consts = consts
        self.key = (func.qual, consts)


class Func:
    def __init__(self, pyfunc, node, module, cls=None, parent=None):
        self.py = pyfunc
        self.node = node
        self.module = module
        self.cls = cls
        self.parent = parent  # enclosing Ctx for closures
        self.qual = f"{module.__name__}:{getattr(pyfunc, '__qualname__', node.name if hasattr(node, 'name') else 'lambda')}@{node.lineno}"
        self.file = getattr(module, "__file__", "?")
        self.is_gen = any(isinstance(n, (ast.Yield, ast.YieldFrom)) for n in ast.walk(node) if n is not node) if not isinstance(node, ast.Lambda) else False
        self.branch_params = self._branch_params()

    def _branch_params(self):
        if isinstance(self.node, ast.Lambda):
            return frozenset()
        a = self.node.args
        names = {x.arg for x in a.posonlyargs + a.args + a.kwonlyargs}
        out = set()
        for n in ast.walk(self.node):
            t = None
            if isinstance(n, (ast.If, ast.IfExp, ast.While)):
                t = n.test
            if t is not None:
                for m in ast.walk(t):
                    if isinstance(m, ast.Name) and m.id in names:
                        out.add(m.id)
            if isinstance(n, ast.keyword) and n.arg and isinstance(n.value, (ast.Name, ast.UnaryOp)):
                for m in ast.walk(n.value):
                    if isinstance(m, ast.Name) and m.id in names:
                        out.add(m.id)
        return frozenset(out)


class Alarm:
    def __init__(self, site, what, target, ctx):
        self.site = site
        self.what = what
        self.target = target
        self.ctx = ctx

    def key(self):
        return (self.site, self.what, self.target)


class Analysis:
    def __init__(self, repo_pkg="ufo2ft", inplace=False, assume_names=None):
        self.pkg = repo_pkg
        self.assume = {"inplace": inplace}
        if assume_names:
            self.assume.update(assume_names)
        self.modules = {}
        self.trees = {}
        self.funcs = {}  # id(pyfunc) -> Func
        self.V = defaultdict(set)
        self.F = FieldMap()
        self.R = defaultdict(set)
        self.Y = defaultdict(set)
        self.objs = {}
        self.ctxs = {}
        self.SRC = self.obj("SRC", "SRC", label="SRC")
        self.GS = self.obj("GS", "GS", label="GS")
        self.SRCF = None  # designspace roots: the fonts attached to the source descriptors (what `.font` yields)
        self.src_not = {}  # source blob -> classes none of its objects is an instance of (input domain of the root)
        self.NONE = self.obj("NONE", "NONE", label="None")
        # UNK: "an untracked value". Numbers, strings, bytes, booleans, enum members, ranges (and the results of library
        # calls that the catalogue says return nothing of interest) have no abstract object of their own: they cannot
        # be written to and hold no tracked object. They must nevertheless be VISIBLE in points-to sets, because
        # fixpoint decisions ("every value of x is an instance of C", "x is always None") quantify over all values an
        # expression can have: UNK is produced by every expression form that creates such a value (literals,
        # operators, f-strings, comparisons, scalar constructors and builtins, `.name`, calls of library code with an
        # empty result) and flows like any other object. Invariant: if in some run an expression evaluates to a value
        # that is neither None nor represented by another abstract object, UNK is in its points-to set. UNK is
        # never None (producers whose value may be None add NONE themselves), is of unknown class (no isinstance
        # verdict), is never a mutation target; its attributes / elements / call results are UNK again, and a method
        # called on it returns UNK, None or a NEW container of untracked values (str.split()).
        self.UNK = self.obj("UNK", "UNK", label="untracked value")
        self.EXC = self.obj("cont", "EXC", label="raised exceptions")
        self.alarms = {}
        self.sites = {}  # mutation site -> set of target labels (obligations)
        self.globals_mut = {}
        self.changed = True
        self.unknown_calls = set()
        self.roots = []
        self.cur = None
        self.alias = {}
        self.trusted_fresh = set()
        self.watch = None
        self.decided = {}  # `x is None` tests decided by a previous fixpoint (re-validated at the end)
        self.new_decided = {}
        self.deciding = False
        self.repo_calls = set()  # (ctx key, line, col) of call expressions that resolved to analysed (repository) code
        self.strong_reads = set()
        self.cuts = set()  # (file, line): call expressions whose result is treated as NOT aliasing the sources (known findings)
        self.cut_hits = set()
        # constructs met in reachable code that the analysis does not model: (site, reason). A run with a
        # non-empty set is NOT a proof (the driver reports each entry as an undischarged obligation).
        self.unsupported = {}
        self.converged = True
        self._modctx = {}
        self._glob_elems = {}
        self._late = {}
        self._folded = {}
        self.folded_calls = set()
        self.dunder_insts = defaultdict(set)
        self.has_dunders = {}  # instance -> qualified names of the implicit special methods its class defines in analysed code
        self._fwd = None
        self._upd_memo = None
        self._upd_memo2 = None
        self.store_origin = None  # (context key, statement) while the values of an attribute-store statement are recorded
        self.pre_add = False  # True while an add that certainly precedes the container's escape is recorded
        self.broken_inv = set()  # (class, field) whose constructor-established invariant is violated by some other store
        self.used_inv = set()
        self._broken_seen = set()
        self._chain_ok = {}
        self._ecache = {}
        self.version = 0
        self._reps = {}
        self.call_edges = defaultdict(set)
        self._edge_info = {}
        self.snapshots = set()
        self.used_kill = {}
        self.narrow = []  # active narrowings: (ctx key, local name, filter)
        self.deferred = 0  # >0 while the body of a generator expression is evaluated (it runs later)
        self.open_globs = set()  # ids of module-level containers that analysed code mutates (contents not fixed)
        self.assumed_const_globs = set()
        self.mutated_globs = set()
        self._load()

    # ---- program ----------------------------------------------------------------------------------
    def _load(self):
        pkg = importlib.import_module(self.pkg)
        for m in pkgutil.walk_packages(pkg.__path__, self.pkg + "."):
            if m.name.endswith("__main__"):
                continue
            try:
                importlib.import_module(m.name)
            except Exception:
                continue
        for name, mod in list(sys.modules.items()):
            if mod is None or not (name == self.pkg or name.startswith(self.pkg + ".")):
                continue
            f = getattr(mod, "__file__", None)
            if not f or not f.endswith(".py"):
                continue
            with open(f, encoding="utf-8") as fh:
                tree = ast.parse(fh.read())
            self.modules[name] = mod
            self.trees[name] = tree
            self._index(tree, mod, [])

    def _index(self, tree, mod, path):
        for n in tree.body:
            if isinstance(n, ast.FunctionDef):
                self._register(n, mod, path)
            elif isinstance(n, ast.ClassDef):
                self._index(n, mod, path + [n.name])

    def _register(self, node, mod, path):
        o = mod
        try:
            for p in path:
                o = o.__dict__[p] if isinstance(o, type) else getattr(o, p)
            raw = o.__dict__.get(node.name) if isinstance(o, type) else getattr(o, node.name, None)
        except Exception:
            return
        cls = o if isinstance(o, type) else None
        f = raw
        while isinstance(f, (staticmethod, classmethod)):
            f = f.__func__
        if isinstance(f, property):
            f = f.fget
        if isinstance(f, functools.cached_property):
            f = f.func
        f = inspect.unwrap(f) if callable(f) else f
        if not isinstance(f, types.FunctionType):
            return
        if f.__code__.co_firstlineno != node.lineno and not node.decorator_list:
            return
        self.funcs[id(f)] = Func(f, node, mod, cls)

    def func_of(self, pyf):
        while isinstance(pyf, (staticmethod, classmethod)):
            pyf = pyf.__func__
        try:
            pyf = inspect.unwrap(pyf)
        except Exception:
            pass
        fn = self.funcs.get(id(pyf))
        if fn is None and isinstance(pyf, types.FunctionType) and (pyf.__module__ or "").split(".")[0] == self.pkg.split(".")[0] \
                and (pyf.__module__ == self.pkg or pyf.__module__.startswith(self.pkg + ".")):
            fn = self._late_register(pyf)
        return fn

    def _late_register(self, pyf):
        """A repository function object that was not indexed as a top-level def / method (a module-level lambda, a
        function produced by a decorator, ...): find its source by position; if that fails the function's effects
        cannot be analysed, which is recorded as an unsupported construct."""
        key = id(pyf)
        if key in self._late:
            return self._late[key]
        fn = None
        tree = self.trees.get(pyf.__module__)
        if tree is not None:
            want = ast.Lambda if pyf.__name__ == "<lambda>" else (ast.FunctionDef, ast.AsyncFunctionDef)
            cands = [n for n in ast.walk(tree) if isinstance(n, want) and n.lineno == pyf.__code__.co_firstlineno
                     and (isinstance(n, ast.Lambda) or n.name == pyf.__name__)]
            if len(cands) == 1 and not pyf.__code__.co_freevars:
                fn = Func(pyf, cands[0], self.modules[pyf.__module__])
                self.funcs[key] = fn
        if fn is None and not pyf.__code__.co_filename.startswith("<"):
            self.flag(None, f"repository function without analysable source: {pyf.__module__}.{pyf.__qualname__}")
        self._late[key] = fn
        return fn

    # ---- objects ------------------------------------------------------------------------------------
    def obj(self, kind, key, py=None, label=None):
        k = (kind, key)
        if k not in self.objs:
            self.objs[k] = Obj(kind, key, py, label)
        return self.objs[k]

    def site(self, node):
        f = self.cur.func
        rel = getattr(f, "_rel", None)
        if rel is None:
            rel = ("Lib/" + f.file.split("/Lib/")[-1]) if "/Lib/" in f.file else f.file
            f._rel = rel
        return (rel, getattr(node, "lineno", 0), getattr(node, "col_offset", 0))

    def add(self, s, new):
        n0 = len(s)
        if self.watch is not None and self.SRC in new and self.SRC not in s:
            for k, v in list(self.F.items()):
                if v is s and self.watch(k):
                    print("WATCH SRC ->", k[0].label, k[1], "at", self.cur.key[0] if self.cur else None)
        s |= new
        if len(s) != n0:
            self.changed = True
            self.version += 1
        if type(s) is ElemSet and not self.pre_add and not new <= s.np:
            s.np |= new
            self.changed = True
            self.version += 1
        elif type(s) is ProvSet:
            og = self.store_origin
            if og is None:
                if not new <= s.other:
                    s.other |= new
                    self.changed = True
            else:
                for x in new:
                    st = s.stores.setdefault(x, set())
                    if og not in st:
                        st.add(og)
                        self.changed = True

    def wrap_py(self, o, name="?"):
        if isinstance(o, types.ModuleType):
            return {self.obj("mod", o.__name__, o, f"module {o.__name__}")}
        if isinstance(o, type):
            return {self.obj("cls", f"{o.__module__}.{o.__qualname__}", o, f"class {o.__qualname__}")}
        if isinstance(o, (types.FunctionType, types.BuiltinFunctionType, types.MethodType, staticmethod, classmethod, types.MethodDescriptorType)) or callable(o) and not isinstance(o, (dict, list, set)):
            return {self.obj("func", f"{getattr(o, '__module__', '?')}.{getattr(o, '__qualname__', name)}", o, f"func {getattr(o, '__qualname__', name)}")}
        if o is None:
            return {self.NONE}
        if self.is_scalar(o):
            return {self.UNK}
        # any other object that exists when the modules have been imported: module-/class-level state. It is
        # identified by the python object itself (the same list imported under two names is ONE object); its
        # contents at import time are read from the object, later additions are tracked like for containers.
        return {self.obj("glob", id(o), o, f"module-level {type(o).__name__} {name}")}

    @staticmethod
    def is_scalar(o, depth=0):
        import enum

        if o is None or isinstance(o, (int, float, str, bytes, complex, enum.Enum, range)):
            return True
        if isinstance(o, (tuple, frozenset)) and depth < 3:
            return all(Analysis.is_scalar(x, depth + 1) for x in o)
        return False

    def glob_elements(self, o):
        """contents of a module-level container as found after import (wrapped lazily, once)"""
        c = getattr(o, "_elems", None) if hasattr(o, "_elems") else None
        cache = self._glob_elems
        if o in cache:
            return cache[o]
        py = o.py
        vals = ()
        if isinstance(py, dict):
            vals = list(py.values())
        elif isinstance(py, (list, set, tuple, frozenset)):
            vals = list(py)
        out = set()
        cache[o] = out
        for v in vals:
            out |= self.wrap_py(v, f"{o.label.split(' ', 2)[-1]}[…]")
        return out

    # ---- mutation (one frame obligation per site) -------------------------------------------------------
    def mutate(self, objs, node, what, seen=None):
        st = self.site(node)
        seen = seen if seen is not None else set()
        rec = self.sites.setdefault((st, what), set())
        for o in objs:
            if o in seen:
                continue
            seen.add(o)
            if o.kind == "UNK":
                continue  # an immutable value: the statement raises, or rebinds (x += 1); nothing is written
            rec.add(o.label if o.kind in ("SRC", "GS", "glob") or (o.kind == "inst" and isinstance(o.key, tuple) and o.key[-1] == "root") else o.kind)
            if o.kind == "SRC":
                a = Alarm(st, what, "SRC", self.cur.key)
                if a.key() not in self.alarms and os.environ.get("FRAMES_DEBUG"):
                    print("ALARM", st, what, "via", [x.label for x in seen], "objs", [x.label for x in objs])
                self.alarms.setdefault(a.key(), a)
            elif o.kind == "glob":
                a = Alarm(st, what, o.label, self.cur.key)
                self.globals_mut.setdefault(a.key(), a)
                self.mutated_globs.add(id(o.py))
            elif o.kind == "cls":
                if _modname(o.py).startswith(self.pkg):
                    a = Alarm(st, what, o.label, self.cur.key)
                    self.globals_mut.setdefault(a.key(), a)
            elif o.kind == "mod":
                # `module.attr = v` (any module, also a library's): module-level state is written
                a = Alarm(st, what, o.label, self.cur.key)
                self.globals_mut.setdefault(a.key(), a)
            if o.through and o.target:
                self.mutate(o.target, node, what, seen)

    # ---- expressions -----------------------------------------------------------------------------------
    def const(self, node, ctx):
        """python constant value of a test expression when known, else None-sentinel `...`."""
        if isinstance(node, ast.Constant):
            return node.value
        if isinstance(node, ast.Name):
            if node.id in self.assume:
                return self.assume[node.id]
            d = dict(ctx.consts)
            if node.id in d and self.is_initial_read(ctx.func, node):
                # the constant the CALL passed: only a read that certainly sees the call-time binding has it
                v = d[node.id]
                return v if (v is None or isinstance(v, bool)) else ...
            return ...
        if isinstance(node, ast.Attribute) and node.attr in self.assume:
            return self.assume[node.attr]
        if isinstance(node, ast.UnaryOp) and isinstance(node.op, ast.Not):
            v = self.const(node.operand, ctx)
            return ... if v is ... else (not v)
        if isinstance(node, ast.BoolOp):
            vals = [self.const(v, ctx) for v in node.values]
            if isinstance(node.op, ast.And):
                if any(v is not ... and not v for v in vals):
                    return False
                return ... if any(v is ... for v in vals) else vals[-1]
            if any(v is not ... and v for v in vals):
                return True
            return ... if any(v is ... for v in vals) else vals[-1]
        if isinstance(node, ast.Call) and isinstance(node.func, ast.Name) and node.func.id == "isinstance" and len(node.args) == 2 and not node.keywords \
                and self.lookup("isinstance", ctx) is None and "isinstance" not in ctx.func.module.__dict__:
            # isinstance(e, C) is decided like `e is None`: from the points-to set of e in the final fixpoint, when
            # the class of every object in it is certain; the decision is kept only if the fixpoint computed
            # under it re-derives it (solve())
            key = (ctx.key, node.lineno, node.col_offset)
            if self.deciding:
                classes = self.class_tuple(node.args[1], ctx)
                pts = self.ev(node.args[0], ctx) if classes else set()
                if pts:
                    verdicts = {self.instance_verdict(o, classes) for o in pts}
                    if verdicts == {True}:
                        self.new_decided[key] = True
                    elif verdicts == {False}:
                        self.new_decided[key] = False
            if key in self.decided:
                return self.decided[key]
            return ...
        if isinstance(node, ast.Compare) and len(node.ops) == 1 and isinstance(node.ops[0], (ast.Eq, ast.NotEq)) \
                and isinstance(node.left, ast.Call) and isinstance(node.left.func, ast.Name) and node.left.func.id == "len" and len(node.left.args) == 1 \
                and isinstance(node.left.args[0], ast.Name) and isinstance(node.comparators[0], ast.Constant) and isinstance(node.comparators[0].value, int) \
                and self.lookup("len", ctx) is None and "len" not in ctx.func.module.__dict__:
            # len(args) == k for the *args parameter of a context that was entered with a known number of
            # positional arguments, read before args can have been rebound
            nm = node.left.args[0]
            va = getattr(ctx.func.node.args, "vararg", None)
            n = dict(ctx.consts).get("*n")
            if va is not None and va.arg == nm.id and n is not None and self.is_initial_read(ctx.func, nm):
                res = n[1] == node.comparators[0].value
                return res if isinstance(node.ops[0], ast.Eq) else not res
            return ...
        if isinstance(node, ast.Compare) and len(node.ops) == 1 and isinstance(node.ops[0], (ast.Is, ast.IsNot)):
            r = node.comparators[0]
            if isinstance(r, ast.Constant) and r.value is None:
                lv = self.const(node.left, ctx)
                if lv is not ...:
                    res = lv is None
                    return res if isinstance(node.ops[0], ast.Is) else not res
                key = (ctx.key, node.lineno, node.col_offset)
                if self.deciding:
                    # (re-)derive the decision from the fixpoint just computed -- also for tests that were
                    # decided before: a decision is only kept if the run made under it validates it again
                    pts = self.ev(node.left, ctx)
                    if pts:
                        if self.NONE not in pts and all(o.kind in DEFINITE_KINDS for o in pts):
                            self.new_decided[key] = isinstance(node.ops[0], ast.IsNot)
                        elif pts == {self.NONE}:
                            self.new_decided[key] = isinstance(node.ops[0], ast.Is)
                if key in self.decided:
                    return self.decided[key]
        return ...

    def ev(self, node, ctx):
        m = getattr(self, "e_" + type(node).__name__, None)
        if m is None:
            out = set()
            for c in ast.iter_child_nodes(node):
                if isinstance(c, ast.expr):
                    out |= self.ev(c, ctx)
            return out
        return m(node, ctx)

    def e_Constant(self, node, ctx):
        return {self.NONE} if node.value is None else {self.UNK}

    def lookup(self, name, ctx, line=None):
        c = ctx
        first = True
        while c is not None:
            if name in self.locals_of(c.func) or (c.key, name) in self.V:
                if first and line is not None:
                    return self.V[self.vkey(c, name, line)]
                return self.all_versions(c, name)
            c = c.func.parent
            first = False
        return None

    def const_syntactic(self, node):
        """value of a test that depends only on the assumed names (inplace), else `...`"""
        if isinstance(node, ast.Name) and node.id in self.assume:
            return self.assume[node.id]
        if isinstance(node, ast.Attribute) and node.attr in self.assume:
            return self.assume[node.attr]
        if isinstance(node, ast.UnaryOp) and isinstance(node.op, ast.Not):
            v = self.const_syntactic(node.operand)
            return ... if v is ... else (not v)
        return ...

    # ---- string constants -------------------------------------------------------------------------------------------
    # Attribute names and dictionary keys are strings; strings are otherwise not tracked. `strs(e)` is a purely
    # local, syntactic evaluation: it returns the finite set of strings an expression can evaluate to when that
    # follows from the text of the function alone (a literal; a parameter whose calling context fixes it -- see
    # call_func; a variable whose ONLY binding is a `for` over a literal collection / over the keys of a literal
    # dict / over a module-level constant collection), and None in every other case. None means "any string".
    MAX_STRS = 12

    def strs(self, node, ctx, none_ok=False):
        """none_ok: the value may also be None (which equals no string) -- only for uses as a KEY / attribute name"""
        if isinstance(node, ast.Constant):
            if node.value is None and none_ok:
                return frozenset()
            return frozenset([node.value]) if isinstance(node.value, str) else None
        if isinstance(node, ast.IfExp):
            a, b = self.strs(node.body, ctx, none_ok), self.strs(node.orelse, ctx, none_ok)
            return None if a is None or b is None or len(a | b) > self.MAX_STRS else a | b
        if isinstance(node, ast.Name) and isinstance(node.ctx, ast.Load):
            v = dict(ctx.consts).get(node.id)
            if isinstance(v, tuple) and v and v[0] == "s":
                return frozenset([v[1]]) if self.is_initial_read(ctx.func, node) else None
            return self._loop_strs(node, ctx, none_ok)
        return None

    def _single_binding(self, func, name):
        """the one statement / comprehension that binds `name` in func (a non-parameter bound exactly once), else None"""
        cache = func.__dict__.setdefault("_single", {})
        if name in cache:
            return cache[name]
        res = None
        binds, walrus = self._bindings(func)
        a = func.node.args
        params = {x.arg for x in a.posonlyargs + a.args + a.kwonlyargs} | ({a.vararg.arg} if a.vararg else set()) | ({a.kwarg.arg} if a.kwarg else set())
        if name not in params and name not in walrus and len(binds.get(name, ())) == 1:
            for n in ast.walk(func.node):
                tgts = []
                if isinstance(n, (ast.For, ast.AsyncFor)):
                    tgts = [(n.target, n)]
                elif isinstance(n, (ast.ListComp, ast.SetComp, ast.DictComp, ast.GeneratorExp)):
                    tgts = [(g.target, (n, g)) for g in n.generators]
                elif isinstance(n, ast.Assign) and len(n.targets) == 1:
                    tgts = [(n.targets[0], n)]
                for t, owner in tgts:
                    if isinstance(t, ast.Name) and t.id == name:
                        res = (owner, None)
                    elif isinstance(t, (ast.Tuple, ast.List)):
                        for i, e in enumerate(t.elts):
                            if isinstance(e, ast.Name) and e.id == name:
                                res = (owner, (i, len(t.elts)))
        cache[name] = res
        return res

    def _loop_strs(self, node, ctx, none_ok=False):
        func = ctx.func
        if isinstance(func.node, ast.Lambda):
            return None
        sb = self._single_binding(func, node.id)
        if sb is None:
            return None
        owner, idx = sb
        pos = (node.lineno, node.col_offset)
        if isinstance(owner, (ast.For, ast.AsyncFor)):
            if not owner.body or not ((owner.body[0].lineno, owner.body[0].col_offset) <= pos <= (owner.body[-1].end_lineno, owner.body[-1].end_col_offset)):
                return None  # after the loop the variable keeps its last value (or is unbound): not handled
            return self.str_collection(owner.iter, ctx, idx)
        if isinstance(owner, tuple):
            comp, gen = owner
            it = gen.iter
            if (it.lineno, it.col_offset) <= pos <= (it.end_lineno, it.end_col_offset):
                return None
            if not ((comp.lineno, comp.col_offset) <= pos <= (comp.end_lineno, comp.end_col_offset)):
                return None
            return self.str_collection(gen.iter, ctx, idx)
        if isinstance(owner, ast.Assign) and idx is None and pos > (owner.end_lineno, owner.end_col_offset):
            pm = self._parents(func)
            if pm.get(owner) is func.node:  # a top-level statement executed exactly once before the read
                return self.strs(owner.value, ctx, none_ok) if not isinstance(owner.value, ast.Name) else None
        return None

    @staticmethod
    def _const_strs(elts):
        if elts and all(isinstance(e, ast.Constant) and isinstance(e.value, str) for e in elts):
            return frozenset(e.value for e in elts)
        return None

    def str_collection(self, e, ctx, idx=None, depth=0):
        """strings yielded by iterating `e` (idx None) or found at position idx=(i, n) of the n-tuples it yields"""
        if depth > 4:
            return None
        if idx is None:
            if isinstance(e, (ast.Tuple, ast.List, ast.Set)):
                return self._const_strs(e.elts)
            if isinstance(e, ast.Dict):
                return self._const_strs(e.keys) if all(k is not None for k in e.keys) else None
            if isinstance(e, ast.Name):
                v = dict(ctx.consts).get(e.id)
                if isinstance(v, tuple) and v and v[0] == "S":
                    return frozenset(v[1]) if self.is_initial_read(ctx.func, e) else None
                lv = self._local_literal(e, ctx)
                if lv is not None:
                    return self.str_collection(lv, ctx, None, depth + 1)
                return self._global_strs(e, ctx)
            if isinstance(e, ast.Call) and not e.keywords:
                if isinstance(e.func, ast.Name) and e.func.id in ("sorted", "list", "tuple", "set", "frozenset", "reversed") and len(e.args) == 1 \
                        and self.lookup(e.func.id, ctx) is None and e.func.id not in ctx.func.module.__dict__:
                    return self.str_collection(e.args[0], ctx, None, depth + 1)
                if isinstance(e.func, ast.Attribute) and e.func.attr == "keys" and not e.args:
                    return self.str_collection(e.func.value, ctx, None, depth + 1)
            return None
        i, n = idx
        if isinstance(e, ast.Call) and not e.keywords:
            if isinstance(e.func, ast.Attribute) and e.func.attr == "items" and not e.args and n == 2 and i == 0:
                return self.str_collection(e.func.value, ctx, None, depth + 1)
            if isinstance(e.func, ast.Name) and e.func.id == "enumerate" and len(e.args) == 1 and n == 2 and i == 1 and self.lookup("enumerate", ctx) is None:
                return self.str_collection(e.args[0], ctx, None, depth + 1)
            if isinstance(e.func, ast.Name) and e.func.id in ("zip", "zip_strict") and len(e.args) == n and not any(isinstance(a, ast.Starred) for a in e.args):
                return self.str_collection(e.args[i], ctx, None, depth + 1)
        if isinstance(e, (ast.Tuple, ast.List)) and all(isinstance(t, ast.Tuple) and len(t.elts) == n for t in e.elts):
            return self._const_strs([t.elts[i] for t in e.elts])
        return None

    def _local_literal(self, name_node, ctx):
        """`x` whose only binding is `x = <display>` at the top level of the function, executed before the read,
        and which is used nowhere else except to be read from (iteration, .items()/.keys()/.values()/.get(),
        subscript load, `in`): the display itself."""
        func = ctx.func
        if isinstance(func.node, ast.Lambda):
            return None
        sb = self._single_binding(func, name_node.id)
        if sb is None or sb[1] is not None or not isinstance(sb[0], ast.Assign):
            return None
        st = sb[0]
        pm = self._parents(func)
        if pm.get(st) is not func.node or not isinstance(st.value, (ast.Dict, ast.Tuple, ast.List, ast.Set)):
            return None
        if (name_node.lineno, name_node.col_offset) <= (st.end_lineno, st.end_col_offset):
            return None
        for n in ast.walk(func.node):
            if isinstance(n, ast.Name) and n.id == name_node.id and isinstance(n.ctx, ast.Load):
                par = pm.get(n)
                ok = False
                if isinstance(par, ast.Attribute) and par.attr in ("items", "keys", "values", "get") and isinstance(pm.get(par), ast.Call) and pm[par].func is par:
                    ok = True
                elif isinstance(par, ast.Subscript) and par.value is n and isinstance(par.ctx, ast.Load):
                    ok = True
                elif isinstance(par, (ast.For, ast.comprehension)) and par.iter is n:
                    ok = True
                elif isinstance(par, ast.Compare) and n in par.comparators and all(isinstance(o, (ast.In, ast.NotIn)) for o in par.ops):
                    ok = True
                if not ok:
                    return None
        return st.value

    def _global_strs(self, e, ctx):
        """a module-level tuple / list / set / frozenset / dict(keys) of strings, read through a global name that is
        not shadowed; valid as long as analysed code never mutates that object (checked at the fixpoint: solve())"""
        if self.lookup(e.id, ctx) is not None:
            return None
        py = ctx.func.module.__dict__.get(e.id, self)
        if not isinstance(py, (tuple, list, set, frozenset, dict)) or not py or len(py) > 200:
            return None
        if not all(isinstance(x, str) for x in py):
            return None
        if id(py) in self.open_globs:
            return None
        self.assumed_const_globs.add(id(py))
        return frozenset(py)

    # ---- reads that certainly see the value a parameter had when the function was entered -----------------------
    def _bindings(self, func):
        """name -> (positions of every syntactic binding of the name anywhere inside the function, incl. nested
        scopes; has_walrus) -- parameters themselves are not counted."""
        if not hasattr(func, "_binds"):
            out = {}
            walrus = set()

            def note(name, n):
                out.setdefault(name, []).append((getattr(n, "lineno", 0), getattr(n, "col_offset", 0)))

            node = func.node
            body = node.body if isinstance(node.body, list) else [node.body]
            for st in body:
                for n in ast.walk(st):
                    if isinstance(n, ast.Name) and isinstance(n.ctx, (ast.Store, ast.Del)):
                        note(n.id, n)
                    elif isinstance(n, ast.NamedExpr) and isinstance(n.target, ast.Name):
                        walrus.add(n.target.id)
                    elif isinstance(n, (ast.FunctionDef, ast.AsyncFunctionDef, ast.ClassDef)):
                        note(n.name, n)
                    elif isinstance(n, (ast.Import, ast.ImportFrom)):
                        for al in n.names:
                            note((al.asname or al.name).split(".")[0], n)
                    elif isinstance(n, ast.ExceptHandler) and n.name:
                        note(n.name, n)
                    elif isinstance(n, (ast.Global, ast.Nonlocal)):
                        for nm in n.names:
                            walrus.add(nm)  # rebinding from elsewhere: never "initial"
                    elif isinstance(n, (ast.MatchAs, ast.MatchStar)) and n.name:
                        note(n.name, n)
                    elif isinstance(n, ast.MatchMapping) and n.rest:
                        note(n.rest, n)
            func._binds = (out, walrus)
        return func._binds

    def is_initial_read(self, func, node):
        """True if the Name `node` (a parameter of `func`, read in func's own scope) certainly evaluates to the
        value the parameter was bound to by the call.  Argument: python executes the statements of one function
        body in textual order except for (a) loops, which may re-execute earlier text, (b) nested functions /
        lambdas / generator expressions, whose bodies run later, (c) the `body if test else orelse` and
        comprehension forms, where a walrus may run before text to its left.  So if every binding of the name
        lies textually after the read, no loop that contains the read contains a binding, the read is not inside
        a deferred scope, and the name is never bound by a walrus / global / nonlocal, then no binding can have
        executed between function entry and the read."""
        if isinstance(func.node, ast.Lambda):
            params = func.node.args
        else:
            params = func.node.args
        names = {x.arg for x in params.posonlyargs + params.args + params.kwonlyargs}
        if params.vararg:
            names.add(params.vararg.arg)
        if params.kwarg:
            names.add(params.kwarg.arg)
        if node.id not in names:
            return False
        binds, walrus = self._bindings(func)
        if node.id in walrus:
            return False
        pos = (node.lineno, node.col_offset)
        bl = binds.get(node.id, ())
        if any(b <= pos for b in bl):
            return False
        pm = self._parents(func)
        cur = node
        while cur in pm:
            cur = pm[cur]
            if cur is func.node:
                return True
            if isinstance(cur, (ast.FunctionDef, ast.AsyncFunctionDef, ast.Lambda, ast.GeneratorExp, ast.ClassDef)):
                return False
            if isinstance(cur, (ast.For, ast.AsyncFor, ast.While)) and bl:
                lo, hi = (cur.lineno, cur.col_offset), (cur.end_lineno, cur.end_col_offset)
                if any(lo <= b <= hi for b in bl):
                    return False
        return False

    # ---- "every element of p.<coll> has <attr> set", established by a loop that dominates the call ------------------------
    def guard_established(self, ctx, call_node, coll, attr, depth=0):
        """For the call `p.m(..)` (call_node) in context ctx, where p is a parameter read before any rebinding: True if
        every execution that reaches the call has completed, on the very object p refers to, a loop
            for x in v.<coll>:
                if x.<attr> is None: raise ...        (first statement of the loop body; no break in the loop)
        Argument: ctx has exactly one incoming call edge, from a call statement S in a function g that passes its own
        (never rebound) parameter v as p; the loop is a top-level statement of g that precedes S, so S runs only after the
        loop has run to completion without raising, on the same object. Nothing between the loop and the call can have
        changed the elements' <attr> if the object belongs to the caller's sources -- a write to a source object is
        itself a (separately checked) violation. If g does not contain the loop, the same question is asked about v in
        g's own unique caller."""
        if ctx is None or depth > 3 or not isinstance(call_node, ast.Call) or not isinstance(call_node.func, ast.Attribute):
            return False
        recv = call_node.func.value
        if not isinstance(recv, ast.Name) or not self.is_initial_read(ctx.func, recv):
            return False
        return self._param_all_set(ctx, recv.id, coll, attr, depth)

    def _param_all_set(self, ctx, pname, coll, attr, depth):
        edges = self.call_edges.get(ctx.key, set())
        if len(edges) != 1:
            return False
        ((cctx_key, _nid),) = edges
        info = self._edge_info.get((ctx.key, cctx_key, _nid))
        if info is None:
            return False
        cctx, node, argmap = info
        if cctx is None or node is None:
            return False
        an = argmap.get(pname)
        if not isinstance(an, ast.Name) or not self.is_initial_read(cctx.func, an):
            return False
        g = cctx.func
        if isinstance(g.node, ast.Lambda):
            return False
        pm = self._parents(g)
        top = node
        while pm.get(top) is not None and pm[top] is not g.node:
            top = pm[top]
        if pm.get(top) is not g.node or top not in g.node.body:
            return False
        i = g.node.body.index(top)
        for st in g.node.body[:i]:
            if isinstance(st, ast.For) and isinstance(st.target, ast.Name) and isinstance(st.iter, ast.Attribute) and st.iter.attr == coll \
                    and isinstance(st.iter.value, ast.Name) and st.iter.value.id == an.id and self.is_initial_read(g, st.iter.value) \
                    and not st.orelse and st.body and not any(isinstance(n, ast.Break) for n in ast.walk(st)) \
                    and not self._binds_in(st.body, st.target.id):
                f0 = st.body[0]
                if isinstance(f0, ast.If) and not f0.orelse and f0.body and isinstance(f0.body[-1], ast.Raise):
                    t = f0.test
                    if isinstance(t, ast.Compare) and len(t.ops) == 1 and isinstance(t.ops[0], ast.Is) and isinstance(t.comparators[0], ast.Constant) \
                            and t.comparators[0].value is None and isinstance(t.left, ast.Attribute) and t.left.attr == attr \
                            and isinstance(t.left.value, ast.Name) and t.left.value.id == st.target.id:
                        return True
        return self._param_all_set(cctx, an.id, coll, attr, depth + 1) if depth < 3 else False

    # ---- a field whose containers are emptied and refilled by the constructor, before the object can be used ------------
    # Pattern (all conditions are checked on the text of the analysed classes and on the fixpoint):
    #   class C:  def __init__(self, ..):                       class D:  def m(self, new):
    #                 ...            (a) self does not escape                  self.a[:] = <e>     (M) first statement:
    #                 self.f = v     (A) top level, the only store to .f           ...                 the WHOLE contents of
    #                 ...            (b) no use of self but plain stores                              the list self.a is replaced
    #                 self.w()       (W) top level, unconditional
    #             def w(self):  [if self.f is not None:] self.f.m(..)    first statement, nothing else before it
    # Then for every instance P of C and every moment outside the window (A, W] of its constructor: P.f is None or an
    # object whose list `a` has been replaced at least once (W runs before __init__ can return or let self escape, and
    # .f is never stored again). Inside the window nothing can read P.f: P is not yet reachable from anywhere but the
    # constructor's own `self`, and the statements in the window do not use `self` except to store other attributes.
    # So the value stored by (A) may be represented by a VERSION v' of v ("v after m has run once"): an abstract object
    # that is v for every attribute except `a`; v'.a is a separate abstract list whose elements are everything that is
    # put into the real list EXCEPT by statements that certainly ran before the list escaped from the function that
    # allocated it (those ran before any call of m on it, since m needs a reference to it) -- the refill by m, any
    # later append. References to v obtained elsewhere keep seeing the original list object with ALL elements ever
    # added (the refills included), so nothing is lost for them. Reads of self.a inside m itself also see the old
    # contents. If any other store to .f of a C instance exists, the scheme is switched off (broken_inv) and redone.
    def must_kill_attr(self, func):
        """`a` if the body of method `func` starts (after a docstring) with `self.a[:] = <expr>`, else None"""
        if hasattr(func, "_mk"):
            return func._mk
        res = None
        node = func.node
        if isinstance(node, ast.FunctionDef) and func.cls is not None and node.args.args and not node.args.vararg:
            sf = node.args.args[0].arg
            body = [st for st in node.body if not (isinstance(st, ast.Expr) and isinstance(st.value, ast.Constant))]
            if body and isinstance(body[0], ast.Assign) and len(body[0].targets) == 1:
                t = body[0].targets[0]
                if isinstance(t, ast.Subscript) and isinstance(t.slice, ast.Slice) and t.slice.lower is None and t.slice.upper is None and t.slice.step is None \
                        and isinstance(t.value, ast.Attribute) and isinstance(t.value.value, ast.Name) and t.value.value.id == sf \
                        and not self._binds_in([ast.Expr(value=body[0].value)], sf) and self._self_only_attr_loads(body[0].value, sf):
                    res = t.value.attr
        func._mk = res
        return res

    @staticmethod
    def _self_only_attr_loads(expr, sf):
        """`self` occurs in expr only as `self.<attr>` being read (never passed on, never a method call on self)"""
        pm = {}
        for n in ast.walk(expr):
            for ch in ast.iter_child_nodes(n):
                pm[ch] = n
        for n in ast.walk(expr):
            if isinstance(n, (ast.Lambda, ast.NamedExpr, ast.Await, ast.Yield, ast.YieldFrom)):
                return False
            if isinstance(n, ast.Name) and n.id == sf:
                par = pm.get(n)
                if not (isinstance(par, ast.Attribute) and par.value is n and isinstance(par.ctx, ast.Load)):
                    return False
                gp = pm.get(par)
                if isinstance(gp, ast.Call) and gp.func is par:
                    return False
        return True

    def kill_wrapper(self, func):
        """(f, m) if the body of method `func` starts with `self.f.m(..)` or `if self.f is not None: self.f.m(..)`"""
        if hasattr(func, "_kw"):
            return func._kw
        res = None
        node = func.node
        if isinstance(node, ast.FunctionDef) and func.cls is not None and node.args.args:
            sf = node.args.args[0].arg
            body = [st for st in node.body if not (isinstance(st, ast.Expr) and isinstance(st.value, ast.Constant))]

            def call_on_field(st):
                if isinstance(st, ast.Expr) and isinstance(st.value, ast.Call) and isinstance(st.value.func, ast.Attribute):
                    r = st.value.func.value
                    c = st.value
                    plain = all(isinstance(x, (ast.Name, ast.Attribute, ast.Constant)) and not any(isinstance(y, ast.Call) for y in ast.walk(x))
                                for x in list(c.args) + [k_.value for k_ in c.keywords])
                    if plain and isinstance(r, ast.Attribute) and isinstance(r.value, ast.Name) and r.value.id == sf:
                        return r.attr, st.value.func.attr
                return None

            if body:
                st = body[0]
                got = call_on_field(st)
                if got is None and isinstance(st, ast.If) and not st.orelse and len(st.body) == 1:
                    t = st.test
                    inner = call_on_field(st.body[0])
                    if inner and isinstance(t, ast.Compare) and len(t.ops) == 1 and isinstance(t.ops[0], ast.IsNot) and isinstance(t.comparators[0], ast.Constant) \
                            and t.comparators[0].value is None and isinstance(t.left, ast.Attribute) and isinstance(t.left.value, ast.Name) \
                            and t.left.value.id == sf and t.left.attr == inner[0]:
                        got = inner
                res = got
        func._kw = res
        return res

    def ctor_window(self, func, target):
        """for the store `self.f = ..` (`target`) at the top level of the __init__ `func`: the name w of the method
        called by the first later top-level statement `self.w()` such that self is not used in between (and not before
        the store either, except to store attributes), else None"""
        cache = func.__dict__.setdefault("_cw", {})
        f = target.attr
        if f in cache:
            return cache[f]
        res = None
        node = func.node
        if isinstance(node, ast.FunctionDef) and node.name == "__init__" and func.cls is not None and node.args.args \
                and isinstance(target.value, ast.Name) and target.value.id == node.args.args[0].arg:
            sf = node.args.args[0].arg
            pm = self._parents(func)

            def only_stores_self(st):
                # every occurrence of `self` in the statement is the base of an attribute STORE target
                for n in ast.walk(st):
                    if isinstance(n, ast.Name) and n.id == sf:
                        par = pm.get(n)
                        if not (isinstance(par, ast.Attribute) and isinstance(par.ctx, ast.Store) and par.value is n):
                            return False
                    if isinstance(n, (ast.Return, ast.Yield, ast.YieldFrom, ast.Lambda, ast.FunctionDef)):
                        return False
                    if isinstance(n, ast.Call) and isinstance(n.func, ast.Name) and n.func.id in ("super", "vars", "locals", "globals"):
                        return False
                return True

            stores = [n for n in ast.walk(node) if isinstance(n, ast.Attribute) and isinstance(n.ctx, (ast.Store, ast.Del)) and n.attr == f
                      and isinstance(n.value, ast.Name) and n.value.id == sf]
            stmt_a = pm.get(target)
            if len(stores) == 1 and stores[0] is target and isinstance(stmt_a, ast.Assign) and pm.get(stmt_a) is node and len(stmt_a.targets) == 1:
                i = next(j for j, st in enumerate(node.body) if st is stmt_a)
                ok = all(only_stores_self(st) for st in node.body[:i]) and only_stores_self(stmt_a)
                if ok:
                    for st in node.body[i + 1:]:
                        if isinstance(st, ast.Expr) and isinstance(st.value, ast.Call) and isinstance(st.value.func, ast.Attribute) \
                                and isinstance(st.value.func.value, ast.Name) and st.value.func.value.id == sf and not st.value.args and not st.value.keywords:
                            res = st.value.func.attr
                            break
                        if not only_stores_self(st):
                            break
        cache[f] = res
        return res

    def ctor_chain_ok(self, S, C):
        """the constructors between the class S of the instance and C hand `self` on to C.__init__ untouched: each
        overriding __init__ reaches its top-level `super().__init__(..)` call without using self otherwise"""
        key = (S, C)
        if key in self._chain_ok:
            return self._chain_ok[key]
        ok = True
        mro = list(S.__mro__)
        if C not in mro:
            ok = False
        else:
            for kls in mro[: mro.index(C)]:
                init = kls.__dict__.get("__init__")
                if init is None:
                    continue
                fn = self.func_of(init) if isinstance(init, types.FunctionType) else None
                if fn is None or not fn.node.args.args:
                    ok = False
                    break
                sf = fn.node.args.args[0].arg
                found = False
                for st in fn.node.body:
                    if isinstance(st, ast.Expr) and isinstance(st.value, ast.Call) and isinstance(st.value.func, ast.Attribute) and st.value.func.attr == "__init__" \
                            and isinstance(st.value.func.value, ast.Call) and isinstance(st.value.func.value.func, ast.Name) and st.value.func.value.func.id == "super" \
                            and not st.value.func.value.args and not any(isinstance(n, ast.Name) and n.id == sf for n in ast.walk(st)):
                        found = True
                        break
                    if any(isinstance(n, ast.Name) and n.id == sf for n in ast.walk(st)) or any(isinstance(n, (ast.Return, ast.Yield, ast.YieldFrom)) for n in ast.walk(st)):
                        break
                if not found:
                    ok = False
                    break
        self._chain_ok[key] = ok
        return ok

    def note_attr_store(self, o, attr):
        """a store to attribute `attr` (None: unknown name) of o that is NOT the constructor store (A) of an invariant:
        it invalidates the invariants that rely on .attr of o's class being written by the constructor only"""
        if o.kind != "inst" or not isinstance(o.py, type):
            return
        for (cls_, f_) in list(self.used_inv):
            if (attr is None or f_ == attr) and issubclass(o.py, cls_) and (cls_, f_) not in self.broken_inv:
                self.broken_inv.add((cls_, f_))
                self.changed = True
        for (kcls, a), users in list(self.used_kill.items()):
            if (attr is None or a == attr) and issubclass(o.py, kcls):
                fn = self.cur.func if self.cur is not None else None
                in_ctor = fn is not None and fn.cls is not None and getattr(fn.node, "name", "") in ("__init__", "__post_init__") and issubclass(o.py, fn.cls)
                if not in_ctor:
                    for u in users:
                        if u not in self.broken_inv:
                            self.broken_inv.add(u)
                            self.changed = True

    def ctor_versioned(self, P, target, val, ctx, node):
        """the value to store for `base.f = val` on the instance P (see the comment above)"""
        f = target.attr
        C = ctx.func.cls
        is_a = False
        w = None
        if C is not None and isinstance(P.py, type) and getattr(ctx.func.node, "name", None) == "__init__" and issubclass(P.py, C) \
                and (C, f) not in self.broken_inv:
            w = self.ctor_window(ctx.func, target)
            is_a = w is not None and self.ctor_chain_ok(P.py, C)
        if not is_a:
            self.note_attr_store(P, f)
            return val
        k, wv = self.class_attr(P.py, w)
        wf = self.func_of(wv) if isinstance(wv, types.FunctionType) else None
        kw = self.kill_wrapper(wf) if wf is not None else None
        if kw is None or kw[0] != f:
            self.note_attr_store(P, f)
            return val
        out = set()
        for v in val:
            a = None
            if v.kind == "inst" and v.alias_of is None:
                k2, mv = self.class_attr(v.py, kw[1])
                mf = self.func_of(mv) if isinstance(mv, types.FunctionType) else None
                a = self.must_kill_attr(mf) if mf is not None else None
            if a is None:
                if v.kind not in ("NONE", "inst"):
                    self.note_attr_store(P, f)
                    return val  # something whose class is unknown may be stored: no invariant
                out.add(v)
                continue
            self.used_kill.setdefault((v.py, a), set()).add((C, f))
            out.add(self.killed_clone(v, a))
        self.used_inv.add((C, f))
        return out

    def killed_clone(self, v, a):
        key = ("killed", v.key, a)
        o = self.objs.get(("inst", key))
        if o is None:
            o = self.obj("inst", key, v.py, f"{v.label}[{a} replaced]")
            o.alias_of = v
            o.own = a
            lst = self.obj("cont", (key, "list"), None, f"list {a} of {v.label} after replacement")
            lst.shadow_of = (v, a)
            dict.__setitem__(self.F, (o, a), {lst})
            self.F.by_obj[o].add(a)
            self.changed = True
        return o

    def is_prekill_add(self, node, ctx):
        """True if the call `x.append(..)` (`node`) adds to a container that cannot have escaped yet from the function
        that allocated it: x is a local whose only definition reaching here is `x = []` / `x = {}` / `x = set()` ..., and
        every use of x that is not itself a method call on x / len(x) / a subscript / an iteration lies textually after
        the outermost loop (or statement) that contains this call -- so no other reference to the container exists."""
        if ctx is None or not isinstance(node, ast.Call) or not isinstance(node.func, ast.Attribute) or not isinstance(node.func.value, ast.Name):
            return False
        xn = node.func.value
        func = ctx.func
        if isinstance(func.node, ast.Lambda):
            return False
        r = self.reach_of(func, xn)
        if not r or len(r) != 1:
            return False
        (d,) = r
        if not (isinstance(d, tuple) and len(d) == 2):
            return False
        pm = self._parents(func)
        dstmt = None
        for n in ast.walk(func.node):
            if isinstance(n, ast.Assign) and len(n.targets) == 1 and isinstance(n.targets[0], ast.Name) and (n.targets[0].lineno, n.targets[0].col_offset) == d:
                dstmt = n
        if dstmt is None or not self._empty_container(dstmt.value):
            return False
        # the outermost statement below the function body that contains the call
        top = node
        while pm.get(top) is not None and pm[top] is not func.node:
            top = pm[top]
        end = (top.end_lineno, top.end_col_offset)
        for n in ast.walk(func.node):
            if isinstance(n, ast.Name) and n.id == xn.id and isinstance(n.ctx, ast.Load):
                par = pm.get(n)
                benign = False
                if isinstance(par, ast.Attribute) and par.value is n and isinstance(pm.get(par), ast.Call) and pm[par].func is par:
                    benign = True
                elif isinstance(par, ast.Subscript) and par.value is n:
                    benign = True
                elif isinstance(par, (ast.For, ast.comprehension)) and par.iter is n:
                    benign = True
                elif isinstance(par, ast.Call) and isinstance(par.func, ast.Name) and par.func.id == "len" and self.lookup("len", ctx) is None:
                    benign = True
                if benign:
                    continue
                if (n.lineno, n.col_offset) <= end:
                    return False
                # (a use inside a nested function would run at an unknown time)
                q = n
                while pm.get(q) is not None and pm[q] is not func.node:
                    q = pm[q]
                    if isinstance(q, (ast.FunctionDef, ast.AsyncFunctionDef, ast.Lambda, ast.GeneratorExp)):
                        return False
        return True

    # ---- reaching definitions of local variables -------------------------------------------------------------------------
    def reach_of(self, func, node, ctx=None):
        """binding sites that can reach the read `node` (see ReachingDefs), or None when unknown. With a context, `if p:`
        tests on a parameter p that the context fixes to True / False / None and that is never rebound in the function
        are followed in the live branch only."""
        fixed = ()
        if ctx is not None and ctx.consts and not isinstance(func.node, ast.Lambda):
            binds = self._bindings(func)
            fixed = tuple((k, v) for k, v in ctx.consts if (v is None or isinstance(v, bool)) and k not in binds[0] and k not in binds[1])
        cache = func.__dict__.setdefault("_reach", {})
        rd = cache.get(fixed, self)
        if rd is self:
            rd = None
            if not isinstance(func.node, ast.Lambda):
                fx = dict(fixed)

                def const_test(t):
                    c = self.const_syntactic(t)
                    if c is not ... or not fx:
                        return c
                    if isinstance(t, ast.Name) and t.id in fx:
                        return bool(fx[t.id])
                    if isinstance(t, ast.UnaryOp) and isinstance(t.op, ast.Not) and isinstance(t.operand, ast.Name) and t.operand.id in fx:
                        return not fx[t.operand.id]
                    if isinstance(t, ast.Compare) and len(t.ops) == 1 and isinstance(t.ops[0], (ast.Is, ast.IsNot)) and isinstance(t.left, ast.Name) \
                            and t.left.id in fx and isinstance(t.comparators[0], ast.Constant) and t.comparators[0].value is None:
                        r = fx[t.left.id] is None
                        return r if isinstance(t.ops[0], ast.Is) else not r
                    return ...

                try:
                    rd = ReachingDefs(func.node, const_test)
                except Exception:
                    rd = None
                if rd is not None and not rd.ok:
                    rd = None
            cache[fixed] = rd
        if rd is None:
            return None
        return rd.reach.get(id(node))

    def read_local(self, ctx, node):
        """value of a local-variable read from the values stored per binding site, when every binding site that can
        reach the read is one whose value is recorded (parameter binding, or a Name target handled by assign());
        None if the flow-insensitive value has to be used"""
        r = self.reach_of(ctx.func, node, ctx)
        if r is None:
            return None
        out = set()
        for d in r:
            if d == "param":
                out |= self.V[(ctx.key, node.id + "@in")]
            elif d == "unbound":
                continue
            elif len(d) == 2:
                out |= self.V[(ctx.key, f"{node.id}@{d[0]}.{d[1]}")]
            else:
                return None
        return out

    # ---- the assignment that certainly reaches a read of a local variable --------------------------------------------
    def reaching_def(self, func, node):
        """`x` read at `node`: the statement `x = e` (single Name target) such that every execution of the read sees
        the value assigned by the LAST execution of that statement -- or None when this cannot be told from the
        text. Rule: walk backwards from the statement S0 that contains the read through the block that contains
        it; the first statement that binds x must be that plain assignment, at the level of the block itself
        (not nested in a compound statement). If the block holds no binding of x before S0, continue in the block
        around it, provided the compound statement being left binds x nowhere (it might have, on another path or
        in an earlier iteration). Statements of one block run in order, and only bindings (never calls: the name
        is a local that is not declared global / nonlocal) can change x; the read must be in the function's own
        scope and not deferred (lambda / nested def / generator expression)."""
        cache = func.__dict__.setdefault("_rdef", {})
        k = (node.lineno, node.col_offset, node.id)
        if k in cache:
            return cache[k]
        cache[k] = res = self._reaching_def(func, node)
        return res

    def _reaching_def(self, func, node):
        if isinstance(func.node, ast.Lambda):
            return None
        x = node.id
        if x in self._bindings(func)[1] or x not in self._bindings(func)[0]:
            return None
        pm = self._parents(func)
        cur = node
        while cur in pm and not isinstance(cur, ast.stmt):
            cur = pm[cur]
            if isinstance(cur, (ast.Lambda, ast.GeneratorExp)):
                return None
        if not isinstance(cur, ast.stmt) or cur is func.node:
            return None
        s0 = cur
        # bindings inside the read's own statement: allowed only as the targets of `x = ...` itself (the
        # right-hand side is evaluated first); a loop header that is re-evaluated after the body ran is not
        if isinstance(s0, (ast.Assign, ast.AnnAssign)) and self._binds_in([s0], x):
            val = s0.value
            if val is None or not ((val.lineno, val.col_offset) <= (node.lineno, node.col_offset) <= (val.end_lineno, val.end_col_offset)):
                return None
            if any(isinstance(n, ast.NamedExpr) and isinstance(n.target, ast.Name) and n.target.id == x for n in ast.walk(val)):
                return None
        elif isinstance(s0, (ast.For, ast.AsyncFor)):
            it = s0.iter
            if not ((it.lineno, it.col_offset) <= (node.lineno, node.col_offset) <= (it.end_lineno, it.end_col_offset)):
                return None
        elif self._binds_in([s0], x):
            return None
        while True:
            par = pm.get(cur)
            if par is None:
                return None
            block = None
            for fld in ("body", "orelse", "finalbody"):
                b = getattr(par, fld, None)
                if isinstance(b, list) and any(st is cur for st in b):
                    block = b
            if block is None:
                if isinstance(par, ast.ExceptHandler):
                    # an exception may have interrupted the try body anywhere: any binding inside the Try counts
                    tr = pm.get(par)
                    if tr is None or self._binds_in([tr], x) or par.name == x:
                        return None
                    cur = tr
                    continue
                if isinstance(par, ast.match_case):
                    m = pm.get(par)
                    if m is None or self._binds_in([m], x):
                        return None
                    cur = m
                    continue
                return None
            i = next(j for j, st in enumerate(block) if st is cur)
            for st in reversed(block[:i]):
                if isinstance(st, ast.Assign) and len(st.targets) == 1 and isinstance(st.targets[0], ast.Name) and st.targets[0].id == x \
                        and not self._binds_in([ast.Expr(value=st.value)], x):
                    return st
                if isinstance(st, ast.AnnAssign) and st.value is not None and isinstance(st.target, ast.Name) and st.target.id == x \
                        and not self._binds_in([ast.Expr(value=st.value)], x):
                    return st
                if self._binds_in([st], x):
                    return None
            if par is func.node:
                return None
            if isinstance(par, (ast.FunctionDef, ast.AsyncFunctionDef, ast.ClassDef)):
                return None
            # leaving the compound statement `par`: it must not bind x anywhere (other branch / earlier iteration /
            # interrupted try body); statements of this block AFTER the read do not matter unless par is a loop
            if isinstance(par, (ast.For, ast.AsyncFor, ast.While)):
                if self._binds_in([par], x):
                    return None
            elif isinstance(par, ast.Try):
                if self._binds_in([par], x):
                    return None
            else:
                others = []
                for fld in ("body", "orelse", "finalbody"):
                    b = getattr(par, fld, None)
                    if isinstance(b, list) and b is not block:
                        others.extend(b)
                if self._binds_in(others, x) or self._binds_in(block[:i], x):
                    return None
                hdr = [n for n in (getattr(par, "test", None), getattr(par, "subject", None)) if n is not None] + \
                      [it.context_expr for it in getattr(par, "items", [])] + [it.optional_vars for it in getattr(par, "items", []) if it.optional_vars is not None]
                if any(self._binds_in([ast.Expr(value=h)], x) for h in hdr):
                    return None
            cur = par

    def strong_defs(self, func):
        """name -> sorted end-lines of the assignments that are executed on every path through the function
        (top level, or inside an `if` whose test is constant under the assumptions): these KILL earlier
        values of the name, which gives `x = copy(x)` at the top of a function its real meaning."""
        if not hasattr(func, "_strong"):
            out = {}
            node = func.node
            if not isinstance(node, ast.Lambda):
                def scan(stmts):
                    for st in stmts:
                        if isinstance(st, (ast.Assign, ast.AnnAssign)):
                            tgts = st.targets if isinstance(st, ast.Assign) else [st.target]
                            for t in tgts:
                                for n in ([t] if isinstance(t, ast.Name) else (t.elts if isinstance(t, (ast.Tuple, ast.List)) else [])):
                                    if isinstance(n, ast.Name) and (isinstance(st, ast.Assign) or st.value is not None):
                                        out.setdefault(n.id, []).append(st.end_lineno)
                        elif isinstance(st, ast.If):
                            c = self.const_syntactic(st.test)
                            if c is not ...:
                                scan(st.body if c else st.orelse)
                        elif isinstance(st, ast.With):
                            scan(st.body)
                scan(node.body)
                # a name that is also bound by a nested function / global statement is left alone
                for n in ast.walk(node):
                    if isinstance(n, (ast.Global, ast.Nonlocal)):
                        for nm in n.names:
                            out.pop(nm, None)
            func._strong = {k: sorted(v) for k, v in out.items()}
        return func._strong

    def vkey(self, ctx, name, line, strong_stmt_end=None):
        sd = self.strong_defs(ctx.func).get(name)
        if not sd:
            return (ctx.key, name)
        if strong_stmt_end is not None and strong_stmt_end in sd:
            k = sd.index(strong_stmt_end) + 1
        else:
            k = sum(1 for e in sd if e < line)
        return (ctx.key, name if k == 0 else f"{name}#{k}")

    def all_versions(self, ctx, name):
        sd = self.strong_defs(ctx.func).get(name) or []
        out = set(self.V[(ctx.key, name)])
        for k in range(1, len(sd) + 1):
            out |= self.V[(ctx.key, f"{name}#{k}")]
        return out

    def literal_loop_targets(self, func):
        if not hasattr(func, "_llt"):
            out = {}
            node = func.node
            if not isinstance(node, ast.Lambda):
                stores = {}
                for n in ast.walk(node):
                    if isinstance(n, ast.Name) and isinstance(n.ctx, (ast.Store, ast.Del)):
                        stores[n.id] = stores.get(n.id, 0) + 1
                params = {x.arg for x in node.args.posonlyargs + node.args.args + node.args.kwonlyargs}
                for n in ast.walk(node):
                    if isinstance(n, ast.For) and isinstance(n.iter, (ast.Tuple, ast.List)) and n.iter.elts and isinstance(n.target, ast.Name):
                        x = n.target.id
                        if stores.get(x) == 1 and x not in params and not any(isinstance(b, ast.Break) for b in ast.walk(n)):
                            out[x] = (n.lineno, n.end_lineno, n.iter.elts[-1])
            func._llt = out
        return func._llt

    def locals_of(self, func):
        if not hasattr(func, "_locals"):
            names = set()
            node = func.node
            a = node.args
            for x in a.posonlyargs + a.args + a.kwonlyargs:
                names.add(x.arg)
            if a.vararg:
                names.add(a.vararg.arg)
            if a.kwarg:
                names.add(a.kwarg.arg)
            body = node.body if isinstance(node.body, list) else [node.body]
            for st in body:
                for n in ast.walk(st):
                    if isinstance(n, ast.Name) and isinstance(n.ctx, (ast.Store, ast.Del)):
                        names.add(n.id)
                    elif isinstance(n, (ast.FunctionDef, ast.ClassDef)):
                        names.add(n.name)
                    elif isinstance(n, (ast.Import, ast.ImportFrom)):
                        for al in n.names:
                            names.add((al.asname or al.name).split(".")[0])
                    elif isinstance(n, ast.ExceptHandler) and n.name:
                        names.add(n.name)
            func._locals = names
        return func._locals

    def e_Name(self, node, ctx):
        if node.id in self.assume:
            return {self.UNK}  # (a bool)
        lt = self.literal_loop_targets(ctx.func).get(node.id)
        if lt is not None and not (lt[0] <= node.lineno <= lt[1]):
            # `for x in (a, b): ...` is the only binding of x: after the loop x is the LAST element
            if node.lineno > lt[1]:
                return self.ev(lt[2], ctx)
        if self.is_initial_read(ctx.func, node):
            r = set(self.V[(ctx.key, node.id + "@in")])
            return self.apply_narrow(r, ctx, node.id, node) if self.narrow and not self.deferred else r
        if not self.deferred and isinstance(node.ctx, ast.Load):
            r = self.read_local(ctx, node)
            if r is not None:
                return self.apply_narrow(r, ctx, node.id, node) if self.narrow else r
        r = self.lookup(node.id, ctx, node.lineno)
        if r is not None:
            return self.apply_narrow(set(r), ctx, node.id, node) if self.narrow and not self.deferred else set(r)
        mod = ctx.func.module
        if node.id in mod.__dict__:
            return self.wrap_py(mod.__dict__[node.id], f"{mod.__name__}.{node.id}")
        import builtins

        if hasattr(builtins, node.id):
            return self.wrap_py(getattr(builtins, node.id), node.id)
        return set()

    def class_attr(self, pycls, name):
        for k in pycls.__mro__:
            if name in k.__dict__:
                return k, k.__dict__[name]
        return None, None

    def getattr_objs(self, objs, name, node, ctx):
        out = set()
        for o in objs:
            if o.kind in ("SRC", "GS"):
                if name == "font" and o is self.SRC and self.SRCF is not None:
                    out.add(self.SRCF)  # descriptor.font (designspace roots)
                elif name not in SCALAR_LIB_ATTRS:
                    out.add(o)
                    if name in SOURCE_EFFECT_METHODS:
                        out.add(self.src_method(o, name))
                else:
                    out.add(self.UNK)
            elif o.kind == "NONE":
                continue
            elif o.kind == "UNK":
                out.add(o)  # attribute of an untracked value: untracked (its methods: method_call)
            elif o.kind == "inst":
                out |= self.F[(o, name)] | self.F[(o, "*")]  # "*": stored by setattr() with a computed name
                if o.alias_of is not None and name == o.own and ctx is not None and self.must_kill_attr(ctx.func) == name:
                    # inside the replacing method itself the container still has its old contents
                    out |= self.F[(o.alias_of, name)]
                k, v = self.class_attr(o.py, name)
                if k is not None:
                    out |= self.bind(v, o, k, name, node, ctx)
                for kk in o.py.__mro__:  # values stored on the class objects by analysed code (Cls.attr = v)
                    co = self.objs.get(("cls", f"{kk.__module__}.{kk.__qualname__}"))
                    if co is not None and (co, name) in self.F:
                        out |= self.F[(co, name)]
                out |= self.F[(o, "dunder:__getattr__")]
            elif o.kind == "cls":
                try:
                    v = inspect.getattr_static(o.py, name)
                except AttributeError:
                    continue
                out |= self.F[(o, name)]
                if isinstance(v, classmethod):
                    out |= self.bind(v, o, o.py, name)
                else:
                    f = v.__func__ if isinstance(v, staticmethod) else v
                    out |= self.wrap_py(f, f"{o.py.__qualname__}.{name}")
            elif o.kind == "mod":
                out |= self.F[(o, name)] | self.F[(o, "*")]  # stored by analysed code (module.attr = v)
                if hasattr(o.py, name):
                    out |= self.wrap_py(getattr(o.py, name), f"{o.py.__name__}.{name}")
            elif o.kind == "super":
                cls, selfobj = o.py
                mro = selfobj.py.__mro__ if selfobj.kind in ("inst",) else cls.__mro__
                if cls in mro:
                    for k in mro[mro.index(cls) + 1:]:
                        if name in k.__dict__:
                            out |= self.bind(k.__dict__[name], selfobj, k, name, node, ctx)
                            break
            elif o.kind == "glob":
                out |= self.F[(o, name)] | self.F[(o, "*")]
                try:
                    v = inspect.getattr_static(o.py, name)
                except AttributeError:
                    continue
                if isinstance(v, (types.FunctionType, types.MethodDescriptorType, types.BuiltinFunctionType, types.WrapperDescriptorType, classmethod, staticmethod, property)):
                    continue  # a method of the object: resolved by method_call
                out |= self.wrap_py(v, f"{o.label.split(' ', 2)[-1]}.{name}")
            else:  # cont / ext / func / bound
                known = self.F[(o, name)] | self.F[(o, "*")]
                out |= known
                if o.kind == "ext" and not self.F[(o, name)] and name not in SCALAR_LIB_ATTRS:
                    # unknown attribute of a library object: part of that object's own state (assumption:
                    # library objects hand their constructor arguments back only through the catalogued
                    # protocols: keyword-named attributes, pens' output pen, container elements)
                    out.add(o)
                elif not known:
                    bm = None
                    if o.kind == "cont":
                        # a method of a builtin container taken as a value (add = xs.append): a bound builtin method
                        t = self.pytype_of(o)
                        for T in ((t,) if t in (list, dict, set, tuple, frozenset) else (list, dict, set)):
                            m = getattr(T, name, None)
                            if isinstance(m, (types.MethodDescriptorType, types.WrapperDescriptorType, types.BuiltinFunctionType)):
                                bm = self.obj("bound", (name, o.key, "cont", "builtin"), m, f"bound {T.__name__}.{name}")
                                bm.self_ = o
                                break
                    # else a scalar attribute of a library object (.name), an attribute of a function object (__name__, ...):
                    # an untracked value
                    out.add(bm if bm is not None else self.UNK)
        return out

    def src_method(self, o, name):
        """the bound method `name` (None: a computed name) of a source object, taken as a value: calling it is the
        method call (the catalogue of method names with an effect decides, as for o.name(...))"""
        b = self.obj("bound", ("srcmethod", o.key, name), None, f"bound method {name or '<computed>'} of {o.label}")
        b.self_ = o
        return b

    @staticmethod
    def name_pattern(node):
        """(prefix, suffix) when the string `node` evaluates to certainly starts / ends with these constants
        (f"get_{x}", "set" + x, "%sMargin" % x), else None"""
        if isinstance(node, ast.JoinedStr) and node.values:
            pre = node.values[0].value if isinstance(node.values[0], ast.Constant) and isinstance(node.values[0].value, str) else ""
            suf = node.values[-1].value if len(node.values) > 1 and isinstance(node.values[-1], ast.Constant) and isinstance(node.values[-1].value, str) else ""
            return (pre, suf) if (pre or suf) else None
        if isinstance(node, ast.BinOp) and isinstance(node.op, ast.Add):
            pre = node.left.value if isinstance(node.left, ast.Constant) and isinstance(node.left.value, str) else ""
            suf = node.right.value if isinstance(node.right, ast.Constant) and isinstance(node.right.value, str) else ""
            return (pre, suf) if (pre or suf) else None
        return None

    def getattr_any(self, objs, node, ctx, pat=None):
        """getattr(o, <unknown name>): any attribute of o -- everything stored on it, every attribute of its class
        (methods bound), and for a module / class object everything defined in it. `pat` = (prefix, suffix) the name
        certainly has: for objects whose attribute names are known (instances and classes of analysed code, modules)
        only the matching names are candidates."""
        match = (lambda nm: isinstance(nm, str) and nm.startswith(pat[0]) and nm.endswith(pat[1])) if pat else (lambda nm: True)
        out = set()
        for o in objs:
            if o.kind in ("SRC", "GS"):
                out.add(o)
                out.add(self.src_method(o, None))
                continue
            if o.kind == "NONE":
                continue
            if o.kind == "UNK":
                out.add(o)
                continue
            known_names = o.kind in ("inst", "cls", "mod")
            for a in self.F.attrs_of(o):
                if a != "[]" and not (isinstance(a, str) and (a.startswith("k:") or a.startswith("dunder:"))) and not isinstance(a, tuple):
                    if a == "*" or not known_names or match(a):
                        out |= self.F[(o, a)]
            if o.kind == "inst":
                for k in o.py.__mro__:
                    if k is object:
                        continue
                    for nm, v in list(k.__dict__.items()):
                        if nm.startswith("__") and nm.endswith("__") or not match(nm):
                            continue
                        out |= self.bind(v, o, k, nm)
            elif o.kind == "cls":
                for k in o.py.__mro__:
                    if k is object:
                        continue
                    for nm in list(k.__dict__):
                        if not (nm.startswith("__") and nm.endswith("__")) and match(nm):
                            out |= self.getattr_objs({o}, nm, node, ctx)
            elif o.kind == "mod":
                for nm, v in list(vars(o.py).items()):
                    if not nm.startswith("__") and match(nm):
                        out |= self.wrap_py(v, f"{o.py.__name__}.{nm}")
            elif o.kind in ("ext", "glob"):
                out.add(o)  # unknown attribute of a library object: part of its own state
        return out

    def bind(self, v, selfobj, owner, name, node=None, ctx=None):
        f = v
        if isinstance(f, (property, functools.cached_property)):
            # reading the attribute runs the getter (a cached property runs it once and then returns the same
            # object: abstractly the same set of objects either way)
            getter = f.fget if isinstance(f, property) else f.func
            fn = self.func_of(getter) if getter else None
            if fn is not None:
                if ctx is not None and node is not None and hasattr(node, "lineno"):
                    # analysed code runs at this attribute read (strong_field_read must know)
                    rk = (ctx.key, node.lineno, getattr(node, "col_offset", 0))
                    if rk not in self.repo_calls:
                        self.repo_calls.add(rk)
                        self.changed = True
                return self.call_func(fn, [{selfobj}], {}, None, None)
            return set()
        if isinstance(f, staticmethod):
            return self.wrap_py(f.__func__, name)
        if isinstance(f, classmethod):
            fo = self.obj("bound", (id(f.__func__), selfobj.key if selfobj.kind == "cls" else ("clsof", selfobj.key)), f.__func__, f"bound {owner.__name__}.{name}")
            if selfobj.kind == "cls":
                fo.self_ = selfobj
            else:
                fo.self_ = next(iter(self.wrap_py(selfobj.py)))
            return {fo}
        if isinstance(f, types.FunctionType):
            fo = self.obj("bound", (id(f), selfobj.key, selfobj.kind), f, f"bound {owner.__name__}.{name}")
            fo.self_ = selfobj
            return {fo}
        if isinstance(f, type):
            return self.wrap_py(f, name)
        if isinstance(f, (types.WrapperDescriptorType, types.MethodDescriptorType, types.BuiltinFunctionType)) and selfobj.kind in ("inst", "cont"):
            # a method inherited from a builtin base class (dict.__init__, list.append, Exception.__init__, ...)
            fo = self.obj("bound", (id(f), selfobj.key, selfobj.kind, "builtin"), f, f"bound {owner.__name__}.{name}")
            fo.self_ = selfobj
            return {fo}
        # any other class attribute (None, a constant, a class-level container or object): class-level state
        return self.wrap_py(f, f"{owner.__qualname__}.{name}")

    def e_Attribute(self, node, ctx):
        if node.attr in self.assume:
            return {self.UNK}
        base = self.ev(node.value, ctx)
        if node.attr == "__class__":
            return self.classes_of(base)
        if node.attr == "__dict__":
            out = set()
            for o in base:
                if o.kind == "inst":
                    v = self.obj("attrs", o.key, o, f"__dict__ of {o.label}")
                    out.add(v)
                else:
                    out.add(o)
            return out
        if isinstance(node.value, ast.Name) and isinstance(getattr(node, "ctx", None), ast.Load):
            strong = self.strong_field_read(node, ctx)
            if strong is not None:
                return strong
        return self.getattr_objs(base, node.attr, node, ctx)

    # ---- flow-sensitive read of `x.f` right after `x.f = <empty container>` ---------------------------------
    def _parents(self, func):
        if not hasattr(func, "_parent_map"):
            pm = {}
            for n in ast.walk(func.node):
                for ch in ast.iter_child_nodes(n):
                    pm[ch] = n
            func._parent_map = pm
        return func._parent_map

    @staticmethod
    def _empty_container(e):
        if isinstance(e, (ast.List, ast.Set)) and not e.elts:
            return True
        if isinstance(e, ast.Dict) and not e.keys:
            return True
        return isinstance(e, ast.Call) and isinstance(e.func, ast.Name) and e.func.id in ("set", "list", "dict") and not e.args and not e.keywords

    def strong_field_read(self, node, ctx):
        """`x.f` evaluated at a point that is dominated by `x.f = set()/[]/{}` in the same function, with nothing
        in between (and nothing in the loops that enclose the read up to that block) that could rebind `x`,
        store to any attribute named `f`, or call analysed (repository) code -- library calls cannot assign
        attributes of ufo2ft instances they are not given. Then the value read IS the container allocated by that
        statement. Returns None when the rule does not apply (the flow-insensitive field value is used)."""
        func = ctx.func
        if isinstance(func.node, ast.Lambda):
            return None
        pm = self._parents(func)
        x, f = node.value.id, node.attr
        # the statement containing the read, and its chain of enclosing statements
        cur = node
        while cur in pm and not isinstance(cur, ast.stmt):
            cur = pm[cur]
        if not isinstance(cur, ast.stmt):
            return None
        between = []
        found = None
        while cur is not func.node and cur in pm:
            par = pm[cur]
            block = None
            for fld in ("body", "orelse", "finalbody"):
                b = getattr(par, fld, None)
                if isinstance(b, list) and cur in b:
                    block = b
            if block is None:
                if isinstance(par, (ast.ExceptHandler, ast.With, ast.Try)) or isinstance(par, ast.stmt):
                    cur = par
                    continue
                return None
            i = block.index(cur)
            # `cur` itself: if it is a loop (or any compound statement) everything in it may run before the read
            between.append(cur)
            for st in reversed(block[:i]):
                if isinstance(st, ast.Assign) and len(st.targets) == 1 and isinstance(st.targets[0], ast.Attribute) and isinstance(st.targets[0].value, ast.Name) \
                        and st.targets[0].value.id == x and st.targets[0].attr == f and self._empty_container(st.value):
                    found = st
                    break
                between.append(st)
            if found is not None:
                break
            if isinstance(par, (ast.FunctionDef, ast.AsyncFunctionDef)):
                return None
            cur = par
        if found is None:
            return None
        for st in between:
            for n in ast.walk(st):
                if isinstance(n, ast.Attribute) and n.attr == f and isinstance(n.ctx, (ast.Store, ast.Del)):
                    return None
                if isinstance(n, ast.Name) and n.id == x and isinstance(n.ctx, (ast.Store, ast.Del)):
                    return None
                if isinstance(n, (ast.FunctionDef, ast.AsyncFunctionDef, ast.Lambda, ast.Yield, ast.YieldFrom, ast.Await)):
                    return None
                if hasattr(n, "lineno") and (ctx.key, n.lineno, n.col_offset) in self.repo_calls:
                    return None  # a call, property read or operator that runs analysed code
                if isinstance(n, ast.Call) and isinstance(n.func, ast.Name) and n.func.id in ("setattr", "delattr", "exec", "eval"):
                    return None
                if self.has_dunders and isinstance(n, (ast.Name, ast.Attribute, ast.Subscript)) and isinstance(getattr(n, "ctx", None), ast.Load) \
                        and not (isinstance(n, ast.Name) and n.id == x) \
                        and not (isinstance(pm.get(n), ast.Call) and pm[n].func is n and isinstance(n, ast.Attribute)):
                    # (`recv.method` as the callee of a call is no value of its own: `recv` is visited separately)
                    # special methods of analysed classes run without a visible call (operators, str(), len(), iteration,
                    # subscripts, truth tests, library code that is handed the object): if a value that occurs in these
                    # statements is -- or holds, two levels deep -- an instance of a class with such methods, analysed code
                    # may run here. (Every value in a statement comes from a variable, an attribute or subscript read, a
                    # call of analysed code -- excluded above -- or a library call, whose result derives from its arguments.)
                    if isinstance(n, ast.Attribute) and isinstance(n.value, ast.Name) and n.value.id == x and n.attr == f:
                        vs = self.ev(found.value, ctx)  # another read of x.f itself: by this very rule, the new container
                    else:
                        vs = self._pure_read(n, ctx)
                    if vs is None:
                        return None
                    vs = set(vs)
                    for _ in range(2):
                        vs |= self.elements(vs)
                    if self.dunders_may_store({o for o in vs if o.kind == "inst" and o in self.has_dunders}, f):
                        return None
        if self.has_dunders:
            xs = self._pure_read(node.value, ctx)
            if xs is None or any(o.kind == "inst" and "__getattr__" in self.has_dunders.get(o, {}).values() for o in xs) \
                    or self.dunders_may_store({o for o in xs if o.kind == "inst" and o in self.has_dunders}, f):
                return None  # (x itself: x.f may go through its own __getattr__ / be touched by its own special methods)
        self.strong_reads.add((self.site(node)[0], node.lineno, f"{x}.{f}"))
        return self.ev(found.value, ctx)

    def dunders_may_store(self, insts, f):
        """may a special method of one of these instances -- or anything it calls, transitively, by the call edges of
        the fixpoint -- store to an attribute named f (or to a computed attribute name)? Only such a store can make
        `x.f` refer to another object."""
        if not insts:
            return False
        quals = set()
        for o in insts:
            quals |= set(self.has_dunders[o])
        fwd = self._fwd_edges()
        todo = [k for k in self.ctxs if k[0] in quals]
        seen = set(todo)
        while todo:
            k = todo.pop()
            c = self.ctxs.get(k)
            if c is None:
                continue
            names = self._attr_stores(c.func)
            if names is None or f in names:
                return True
            for k2 in fwd.get(k, ()):
                if k2 not in seen:
                    seen.add(k2)
                    todo.append(k2)
        return False

    def _fwd_edges(self):
        n = sum(len(v) for v in self.call_edges.values())
        if self._fwd is None or self._fwd[0] != n:
            fwd = defaultdict(set)
            for callee, es in self.call_edges.items():
                for ck, _nid in es:
                    if ck is not None:
                        fwd[ck].add(callee)
            self._fwd = (n, fwd)
        return self._fwd[1]

    @staticmethod
    def _attr_stores(func):
        """names of the attributes a function's own text stores to / deletes; None if it may store to a computed name"""
        r = getattr(func, "_attr_stores_", False)
        if r is False:
            r = set()
            for n in ast.walk(func.node):
                if isinstance(n, ast.Attribute) and isinstance(n.ctx, (ast.Store, ast.Del)):
                    r.add(n.attr)
                elif isinstance(n, ast.Attribute) and n.attr in ("__dict__", "__setattr__", "__delattr__", "__setstate__"):
                    r = None
                    break
                elif isinstance(n, ast.Name) and n.id in ("setattr", "delattr", "exec", "eval", "vars"):
                    r = None
                    break
            func._attr_stores_ = r
        return r

    def _pure_read(self, n, ctx):
        """value of a Name / Attribute / Subscript load whose evaluation runs no analysed code and allocates nothing
        (chains of those over a Name); None if the expression is of another form"""
        if isinstance(n, ast.Name):
            return self.ev(n, ctx)
        if isinstance(n, ast.Attribute):
            b = self._pure_read(n.value, ctx)
            if b is None:
                return None
            out = set()
            for o in b:
                if o.kind == "inst":
                    out |= self.F[(o, n.attr)] | self.F[(o, "*")]
                elif o.kind in ("SRC", "GS", "ext", "glob", "cont", "UNK"):
                    out.add(o)
                    out |= self.F[(o, n.attr)] if o.kind in ("ext", "glob", "cont") else set()
            return out
        if isinstance(n, ast.Subscript):
            b = self._pure_read(n.value, ctx)
            return None if b is None else self.elements(b)
        return set() if isinstance(n, ast.Constant) else None

    CTYPES = {"list": list, "listcomp": list, "sorted": list, "set": set, "setcomp": set, "tuple": tuple, "namedtuple": tuple, "dict": dict,
              "dictcomp": dict, "OrderedDict": dict, "defaultdict": dict, "Counter": dict, "frozenset": frozenset, "*args": tuple, "**kwargs": dict,
              "row": tuple, "starred": list}

    def pytype_of(self, o):
        """the python class of the value an abstract object stands for, when that is certain (else None)"""
        if o.kind == "inst":
            return o.py
        if o.kind == "cont" and isinstance(o.key, tuple):
            return self.CTYPES.get(o.key[-1])
        if o.kind == "NONE":
            return type(None)
        if o.kind == "cls":
            return type(o.py)
        if o.kind == "func":
            return types.FunctionType if (isinstance(o.py, Func) or isinstance(o.py, types.FunctionType)) else None
        if o.kind == "bound":
            return types.MethodType
        if o.kind == "mod":
            return types.ModuleType
        return None

    def source_model(self, kind, doc_classes=()):
        """What the caller's argument is (the documented input domain of the public function analysed):
        "ufo": a UFO font object or a list of them -- no object reachable from it is a designspace document;
        "designspace": a DesignSpaceDocument; the fonts hang off its source descriptors' `.font` attribute and are UFO
        font objects as above (a second source blob, SRC.font, stands for them and everything below them)."""
        if kind == "ufo":
            self.src_not[self.SRC] = tuple(doc_classes)
        elif kind == "designspace":
            self.SRCF = self.obj("SRC", "SRCF", label="SRC.font")
            self.src_not[self.SRCF] = tuple(doc_classes)

    def instance_verdict(self, o, classes):
        """True / False if `isinstance(value of o, classes)` is certain, None otherwise"""
        if o.kind in ("SRC", "GS"):
            ex = self.src_not.get(o, ())
            if ex and all(isinstance(c, type) and any(issubclass(c, e) for e in ex) for c in classes):
                return False
            return None
        t = self.pytype_of(o)
        if t is None:
            return None
        try:
            return bool(issubclass(t, tuple(classes)))
        except TypeError:
            return None

    def class_tuple(self, node, ctx):
        """the classes named by the second argument of isinstance (a class or a tuple display of classes), else None"""
        elts = node.elts if isinstance(node, ast.Tuple) else [node]
        out = []
        for e in elts:
            vs = self.ev(e, ctx)
            if len(vs) != 1:
                return None
            (c,) = vs
            if c.kind != "cls" or not isinstance(c.py, type):
                return None
            if isinstance(e, ast.Name) and self.lookup(e.id, ctx) is not None:
                return None  # a local variable holding a class: not a fixed name
            out.append(c.py)
        return out or None

    SCALAR_TYPES = (str, bytes, int, float, bool, complex)

    def classes_of(self, objs):
        out = set()
        for o in objs:
            if o.kind == "inst":
                out |= self.wrap_py(o.py)
            elif o.kind in ("SRC", "GS", "ext", "UNK", "cont", "glob"):
                out.add(self.obj("extcls", o.kind, None, f"class of {o.label}"))
        return out

    def elements(self, objs):
        out = set()
        cache, ver = self._ecache, self.version
        for o in objs:
            if o.kind in ("SRC", "GS", "UNK"):
                out.add(o)  # (the characters of a string, the numbers of a range: untracked values again)
                continue
            if o.kind in ("NONE", "cls", "mod", "func", "bound"):
                continue
            hit = cache.get(o)
            if hit is not None and hit[0] == ver:
                out |= hit[1]
                continue
            r = self._elements1(o)
            cache[o] = (self.version, r)  # (a pure read: valid until the next change of any points-to set)
            out |= r
        return out

    def _elements1(self, o):
        out = set()
        if True:
            if o.kind == "glob":
                out |= self.glob_elements(o) | self.F[(o, "[]")]
                for a in self.F.keyed_of(o):
                    out |= self.F[(o, a)]
            elif o.kind == "attrs":
                for oo in (o.py, o):
                    for a in self.F.attrs_of(oo):
                        out |= self.F[(oo, a)]
            else:
                # (an instance whose class implements the container protocol itself: also what __getitem__ /
                # __next__ return and what the iterator returned by __iter__ yields)
                out |= self.elements_unkeyed(o)
                for a in self.F.keyed_of(o):
                    out |= self.F[(o, a)]
        return out

    def e_Subscript(self, node, ctx):
        self.ev(node.slice, ctx) if not isinstance(node.slice, ast.Slice) else None
        base = self.ev(node.value, ctx)
        if isinstance(node.slice, ast.Slice):
            return self.new_cont(node, self.elements(base), "slice")
        keys = self.strs(node.slice, ctx, none_ok=True)
        if keys is not None:
            return self.keyed_read(base, keys)
        idx = node.slice.value if isinstance(node.slice, ast.Constant) and isinstance(node.slice.value, int) and not isinstance(node.slice.value, bool) else None
        if idx is not None and self.narrow and not self.deferred and isinstance(node.value, ast.Name) and isinstance(node.ctx, ast.Load) \
                and self.is_initial_read(ctx.func, node.value):
            r = self._subscript_const(base, idx)
            for ck, nm, f, until in self.narrow:
                if until is not None and (node.lineno, node.col_offset) >= until:
                    continue
                if ck == ctx.key and nm == node.value.id and f[0] == "sub" and f[1] == idx:
                    _, _, classes, positive = f
                    if positive and all(c in self.SCALAR_TYPES for c in classes):
                        return {self.UNK}
                    r = {o for o in r if self.instance_verdict(o, classes) in (None, positive)}
            return r
        if idx is not None:
            return self._subscript_const(base, idx)
        return self.elements(base)

    def _subscript_const(self, base, idx):
        if True:
            # t[i] of a tuple whose length is known (tuple display, zip row, *args of a call without starred
            # arguments, named tuple): tuples are immutable, so position i holds exactly what was put there
            out = set()
            for o in base:
                if o.kind == "cont" and isinstance(o.py, int) and not isinstance(o.py, bool):
                    j = idx if idx >= 0 else o.py + idx
                    if 0 <= j < o.py:
                        out |= self.F[(o, ("pos", j))]
                else:
                    out |= self.elements({o})
            return out
        return self.elements(base)

    def keyed_read(self, objs, keys):
        """o[k] for a string key k in `keys`: what was stored under that very key (field "k:<key>") or under an
        unknown key (field "[]"); entries stored under OTHER constant keys cannot be the result."""
        out = set()
        for o in objs:
            if o.kind in ("SRC", "GS", "UNK"):
                out.add(o)
            elif o.kind in ("NONE", "cls", "mod", "func", "bound"):
                continue
            elif o.kind == "glob":
                out |= self.F[(o, "[]")]
                for k in keys:
                    out |= self.F[(o, "k:" + k)]
                    if isinstance(o.py, dict):
                        if k in o.py:
                            out |= self.wrap_py(o.py[k], f"{o.label.split(' ', 2)[-1]}[{k!r}]")
                    else:
                        out |= self.glob_elements(o)
            elif o.kind == "attrs":
                out |= self.F[(o, "[]")] | self.F[(o.py, "*")]
                for k in keys:
                    out |= self.F[(o.py, k)] | self.F[(o, "k:" + k)]
            else:
                out |= self.elements_unkeyed(o)
                for k in keys:
                    out |= self.F[(o, "k:" + k)]
        return out

    def iter_elements(self, objs):
        """what ITERATING over the objects yields: their elements -- except for a value that certainly is a dict (or a
        subclass): iterating a dict yields its KEYS, which are kept in the field "keys" (strings and numbers are not
        objects, so for the usual name -> object dictionaries that field is empty)"""
        out = set()
        for o in objs:
            if o.kind in ("inst", "cont"):
                t = self.pytype_of(o)
                if t is not None and issubclass(t, dict):
                    out |= self.F[(o, "keys")]
                    continue
            if o.kind == "inst" and any("__iter__" in k.__dict__ for k in o.py.__mro__ if _modname(k).startswith(self.pkg)):
                # the class implements iteration itself (e.g. a Mapping yielding its keys): exactly what __iter__ gives
                out |= self.iter_protocol(o)
                continue
            out |= self.elements({o})
        return out

    def elements_unkeyed(self, o):
        """what a subscript / .get() / .values() of o can return (not what iterating it yields: iter_elements)"""
        out = set(self.F[(o, "[]")])
        if o.kind == "ext":
            # what a library object holds without analysed code having put it there (the glyph made by font.newGlyph(..),
            # the tables of a loaded TTFont, the values of a dict returned by a library function, ...) is represented by
            # ONE extra object per library object, its "contents"
            out.add(self.rep_of(o))
        if o.shadow_of is not None:
            # the containers of that field after their contents were replaced: everything that was put into them
            # except by statements that certainly ran before they escaped from their allocating function
            v, a = o.shadow_of
            for c in dict.get(self.F, (v, a), ()):
                if c is not o:
                    out |= self.F[(c, "[]")].np
        if o.kind == "inst":
            out |= self.F[(o, "dunder:__getitem__")] | self.F[(o, "dunder:__missing__")]
            if not hasattr(o.py, "__getitem__"):
                out |= self.iter_protocol(o)  # a plain iterable: its "elements" are what it yields
        return out

    def rep_of(self, o):
        """the representative of everything the library object o contains that analysed code did not put there itself. It is a
        library object of its own (so that what is later stored INTO such a contained object -- font.setGlyphOrder(names) on
        a TTFont taken out of a dict -- does not become an element of the container); its own contents are itself."""
        r = self._reps.get(o)
        if r is None:
            if isinstance(o.key, tuple) and o.key and o.key[-1] == "contents":
                r = o
            else:
                k = (o.key + ("contents",)) if isinstance(o.key, tuple) else (o.key, "contents")
                r = self.obj("ext", k, None, o.label + " (contents)")
            self._reps[o] = r
        return r

    def iter_protocol(self, o):
        out = set(self.F[(o, "dunder:__next__")])
        it = self.F[(o, "dunder:__iter__")]
        if it:
            out |= self.iter_elements({x for x in it if x is not o})
        return out

    def rows(self, node, columns, what):
        """Iterable of fixed-arity tuples (zip / enumerate / dict.items): one abstract row with positional
        columns, so that `for a, b in zip(xs, ys)` binds a and b to the right columns."""
        (z,) = self.new_cont(node, set(), what)
        row = self.obj("cont", (z.key, "row"), None, f"row of {z.label}")
        row.py = len(columns)
        for i, c in enumerate(columns):
            self.add(self.F[(row, ("pos", i))], c)
            self.add(self.F[(row, "[]")], c)
        self.add(self.F[(z, "[]")], {row})
        return {z}

    def new_cont(self, node, elems, what="cont"):
        o = self.obj("cont", (self.cur.key, getattr(node, "lineno", 0), getattr(node, "col_offset", 0), what), None, f"{what}@{self.site(node)[0]}:{node.lineno}")
        self.add(self.F[(o, "[]")], elems)
        return {o}

    def e_List(self, node, ctx, what="list"):
        el = set()
        for e in node.elts:
            if isinstance(e, ast.Starred):
                el |= self.iter_elements(self.ev(e.value, ctx))
            else:
                el |= self.ev(e, ctx)
        return self.new_cont(node, el, what)

    def e_Set(self, node, ctx):
        return self.e_List(node, ctx, "set")

    def e_Tuple(self, node, ctx):
        r = self.e_List(node, ctx, "tuple")
        if not any(isinstance(e, ast.Starred) for e in node.elts):
            (o,) = r
            o.py = len(node.elts)  # arity: positional fields are tracked
            for i, e in enumerate(node.elts):
                self.add(self.F[(o, ("pos", i))], self.ev(e, ctx))
        return r

    def e_Dict(self, node, ctx):
        el = set()
        keyed = []
        keyobjs = set()
        for k, v in zip(node.keys, node.values):
            if k is None:
                el |= self.elements(self.ev(v, ctx))
            else:
                keyobjs |= self.ev(k, ctx)  # keys are not elements (values); they are what iteration yields
                ks = self.strs(k, ctx)
                if ks:
                    vv = self.ev(v, ctx)
                    keyed.extend((kk, vv) for kk in ks)
                else:
                    el |= self.ev(v, ctx)
        r = self.new_cont(node, el, "dict")
        (o,) = r
        for kk, vs in keyed:
            self.add(self.F[(o, "k:" + kk)], vs)
        self.add(self.F[(o, "keys")], keyobjs)
        for k, v in zip(node.keys, node.values):
            if k is None:  # {**other}: its keys too
                for d in self.ev(v, ctx):
                    self.add(self.F[(o, "keys")], self.F[(d, "keys")] if d.kind in ("cont", "inst") else {d} if d.kind in ("SRC", "GS") else set())
        return r

    def comp(self, node, ctx, elts):
        for g in node.generators:
            it = self.ev(g.iter, ctx)
            self.assign(g.target, self.iter_elements(it), ctx, node, is_comp=True)
            for c in g.ifs:
                self.ev(c, ctx)
        el = set()
        for e in elts:
            el |= self.ev(e, ctx)
        return self.new_cont(node, el, {ast.ListComp: "listcomp", ast.SetComp: "setcomp", ast.DictComp: "dictcomp", ast.GeneratorExp: "genexp"}[type(node)])

    def e_ListComp(self, node, ctx):
        return self.comp(node, ctx, [node.elt])

    e_SetComp = e_ListComp

    def e_GeneratorExp(self, node, ctx):
        self.deferred += 1  # its body runs when it is consumed: narrowings of the defining point do not apply
        try:
            return self.comp(node, ctx, [node.elt])
        finally:
            self.deferred -= 1

    def e_DictComp(self, node, ctx):
        r = self.comp(node, ctx, [node.value])
        (o,) = r
        self.add(self.F[(o, "keys")], self.ev(node.key, ctx))
        return r

    def e_IfExp(self, node, ctx):
        c = self.const(node.test, ctx)
        self.ev(node.test, ctx)
        if c is ...:
            return self.ev(node.body, ctx) | self.ev(node.orelse, ctx)
        return self.ev(node.body if c else node.orelse, ctx)

    def e_BoolOp(self, node, ctx):
        out = set()
        for v in node.values:
            out |= self.ev(v, ctx)
        return out

    def e_BinOp(self, node, ctx):
        a = self.ev(node.left, ctx)
        b = self.ev(node.right, ctx)
        conts = {o for o in a | b if o.kind in ("cont", "SRC", "GS", "inst", "ext", "glob")}
        out = set()
        for o in a | b:
            if o.kind == "inst":  # operator implemented by the class: whatever its operator methods return
                for nm in self.F.attrs_of(o):
                    if isinstance(nm, str) and nm.startswith("dunder:") and nm[7:] in BINARY_DUNDERS:
                        out |= self.F[(o, nm)]
        if conts:
            return out | self.new_cont(node, self.elements(conts), "binop")
        return out | {self.UNK}  # arithmetic / string operators on untracked values

    def e_Compare(self, node, ctx):
        self.ev(node.left, ctx)
        for c in node.comparators:
            self.ev(c, ctx)
        out = {self.UNK}
        for o in self.ev(node.left, ctx) | {x for c in node.comparators for x in self.ev(c, ctx)}:
            if o.kind == "inst":  # a rich-comparison / __contains__ method of an analysed class: whatever it returns
                for nm in ("__eq__", "__ne__", "__lt__", "__le__", "__gt__", "__ge__", "__contains__"):
                    out |= self.F[(o, "dunder:" + nm)]
        return out

    def e_UnaryOp(self, node, ctx):
        v = self.ev(node.operand, ctx)
        out = {self.UNK}
        if not isinstance(node.op, ast.Not):
            # -x / +x / ~x: implemented by the operand's class; for a library or source object: a new library object
            lib = {o for o in v if o.kind in ("SRC", "GS", "ext", "glob", "cont")}
            if lib:
                out |= self.new_ext(node, lib, through=False)
            for o in v:
                if o.kind == "inst":
                    for nm in ("__neg__", "__pos__", "__invert__"):
                        out |= self.F[(o, "dunder:" + nm)]
        return out

    def e_JoinedStr(self, node, ctx):
        for v in node.values:  # the embedded expressions ARE evaluated (calls, allocations); the result is a str
            if isinstance(v, ast.FormattedValue):
                self.ev(v.value, ctx)
                if v.format_spec is not None:
                    self.ev(v.format_spec, ctx)
        return {self.UNK}

    def e_Lambda(self, node, ctx):
        return {self.closure(node, ctx)}

    def closure(self, node, ctx):
        k = (ctx.key, node.lineno, node.col_offset)
        o = self.obj("func", ("closure", k), None, f"closure@{node.lineno}")
        if o.py is None:
            f = Func.__new__(Func)
            f.py = None
            f.node = node
            f.module = ctx.func.module
            f.cls = None
            f.parent = ctx
            f.qual = f"{ctx.func.qual}.<{getattr(node, 'name', 'lambda')}@{node.lineno}>"
            f.file = ctx.func.file
            f.is_gen = (not isinstance(node, ast.Lambda)) and any(isinstance(n, (ast.Yield, ast.YieldFrom)) for n in ast.walk(node))
            f.branch_params = frozenset()
            o.py = f
        return o

    def e_Starred(self, node, ctx):
        return self.iter_elements(self.ev(node.value, ctx))

    def e_Await(self, node, ctx):
        return self.ev(node.value, ctx)

    def e_Yield(self, node, ctx):
        if node.value is not None:
            self.add(self.Y[ctx.key], self.ev(node.value, ctx))
        # the value of the yield expression: whatever is sent into the generator object of this context
        return set(self.F[(self.obj("cont", (ctx.key, "gen"), None, f"generator of {ctx.func.qual}"), "sent")])

    def e_YieldFrom(self, node, ctx):
        self.add(self.Y[ctx.key], self.elements(self.ev(node.value, ctx)))
        return set(self.F[(self.obj("cont", (ctx.key, "gen"), None, f"generator of {ctx.func.qual}"), "sent")])

    def e_NamedExpr(self, node, ctx):
        v = self.ev(node.value, ctx)
        self.assign(node.target, v, ctx, node)
        return v

    # ---- calls -------------------------------------------------------------------------------------------------
    def e_Call(self, node, ctx):
        r = self.e_Call_(node, ctx)
        st = self.site(node)
        if (st[0], st[1]) in self.cuts:
            # known finding: the value produced here is treated as a fresh object (the finding itself is
            # reported separately) so that violations that do NOT stem from it remain visible
            if any(o.kind == "SRC" for o in r | self.elements(r)):
                self.cut_hits.add((st[0], st[1]))
            return self.new_cont(node, set(), "cut")
        return r

    def e_Call_(self, node, ctx):
        f = node.func
        args = []
        for a in node.args:
            if isinstance(a, ast.Starred):
                tv = self.ev(a.value, ctx)
                ks = {o.py if (o.kind == "cont" and isinstance(o.py, int) and not isinstance(o.py, bool)) else None for o in tv}
                if len(ks) == 1 and None not in ks:
                    # f(*t) where t is certainly a tuple of known length (e.g. the *args of this context, forwarded):
                    # tuples are immutable, so position i of the call receives exactly what position i of t holds
                    (k,) = ks
                    for i in range(k):
                        vals = set()
                        for o in tv:
                            vals |= self.F[(o, ("pos", i))]
                        args.append((None, vals))
                else:
                    args.append(("*", self.iter_elements(tv)))
            else:
                args.append((a, self.ev(a, ctx)))
        kwargs = {}
        star_kw = set()
        for k in node.keywords:
            if k.arg is None:
                kv = self.ev(k.value, ctx)
                star_kw |= {o for o in kv if o.kind in ("attrs", "cont")}
                star_kw |= self.elements({o for o in kv if o.kind not in ("attrs", "cont")}) | {o for o in kv if o.kind in ("SRC", "GS")}
            else:
                kwargs[k.arg] = (k.value, self.ev(k.value, ctx))
        # method call on an object
        if isinstance(f, ast.Attribute) and f.attr not in self.assume:
            recv = self.ev(f.value, ctx)
            out = set()
            callees = set()
            for o in recv:
                r = self.method_call(o, f.attr, node, args, kwargs, star_kw, ctx, callees)
                if not r and o.kind in ("SRC", "GS", "ext", "cont", "glob"):
                    r = {self.UNK, self.NONE}  # a method of library code without tracked result: an untracked value or None
                out |= r
            out |= self.apply_all(callees, node, args, kwargs, star_kw, ctx)
            return out
        callees = self.ev(f, ctx)
        out = set()
        if isinstance(f, ast.Name) and not callees:
            if self.lookup(f.id, ctx) is not None:
                return set()  # a local variable that holds no callable (yet): nothing to call
            return self.lib_call(f.id, None, node, args, kwargs, star_kw, ctx)
        return out | self.apply_all(callees, node, args, kwargs, star_kw, ctx)

    def apply_all(self, callees, node, args, kwargs, star_kw, ctx):
        out = set()
        opaque = False
        for c in callees:
            if c.kind in ("SRC", "GS", "ext", "UNK"):
                if opaque:
                    continue  # calling an opaque value: the same effect and the same result object for each of them
                opaque = True
            out |= self.apply(c, node, args, kwargs, star_kw, ctx)
        return out

    def argsets(self, args):
        return [s for _, s in args]

    def all_args(self, args, kwargs, star_kw):
        out = set(star_kw)
        for _, s in args:
            out |= s
        for _, (_, s) in kwargs.items():
            out |= s
        return out

    def method_call(self, o, name, node, args, kwargs, star_kw, ctx, callees):
        A = self.all_args(args, kwargs, star_kw)
        if name in ARG_MUTATING_METHODS and o.kind in ("SRC", "GS", "ext", "cont", "glob") and args:
            self.mutate_through(args[0][1], node, f".{name}(target)")
        if name == "__init__" and o.kind == "inst":
            self.flag(node, "explicit call of __init__ on an existing object")
        if o.kind in ("SRC", "GS"):
            if name in GUARDED_MUTATORS and self.guard_established(ctx, node, *GUARDED_MUTATORS[name]):
                # discharged obligation: every element was checked to have the attribute set before this call can run
                self.sites.setdefault((self.site(node), f".{name}() [no element with {GUARDED_MUTATORS[name][1]} None]"), set()).add(o.label + " (guard established)")
                return {o}
            if name in MUTATORS:
                self.mutate({o}, node, f".{name}()")
                return {o}
            if name in PEN_GETTERS:
                return {o}
            if name in DRAW_METHODS or name in PEN_METHODS:
                for _, s in (args[:1] if name in DRAW_METHODS else args):
                    self.mutate_through(s, node, f".{name}(pen)")
                if name in PEN_METHODS:
                    self.mutate({o}, node, f".{name}()")
                return set()
            if name == "deepcopyExceptFonts":
                # a fresh designspace document whose sources are fresh descriptors that still reference the
                # ORIGINAL font objects through `.font` (fontTools.designspaceLib; assumed)
                return self.derived_doc(node, {o}, node.func.value if isinstance(node.func, ast.Attribute) else None, ctx)
            if name == "copy":
                return self.shallow_copy(node, {o})
            if name == "items":
                return self.rows(node, [{o}, {o}], "items")  # (keys of a source mapping may be tuples etc.: source values)
            if name in SHALLOW_FRESH_METHODS:
                # a NEW collection / record, but what it holds are the source's own objects
                return self.shallow_copy(node, {o})
            if name in FRESH_METHODS:
                return self.new_ext(node, {o} | A, through=False)
            if name == "get" or name == "__getitem__":
                r = {o}
                for _, s in args[1:]:
                    r |= s
                return r
            if name in ("findDefault",):
                return {o}
            # unknown method of a source object: result may alias the source
            return {o}
        if o.kind == "NONE":
            return set()
        if o.kind == "UNK":
            # a method of a str / bytes / number / ...: an untracked value, None, or a NEW list of untracked values
            # (split(), splitlines()) -- which is a container of its own that tracked objects can be put into later
            return {self.UNK, self.NONE} | self.new_cont(node, {self.UNK}, "of-untracked")
        if o.kind == "inst":
            k, v = self.class_attr(o.py, name)
            if k is not None and k.__module__.startswith(self.pkg):
                callees |= self.bind(v, o, k, name)
                return set()
            out = set()
            for c in self.F[(o, name)] | self.F[(o, "*")] | (self.F[(o, "dunder:__getattr__")] if k is None else set()):
                callees.add(c)
            if k is None and not self.F[(o, name)]:
                return set()
            # inherited from a builtin container (e.g. _GlyphSet(dict))
            return out | (self.cont_method(o, name, node, args, kwargs, A) or {self.UNK, self.NONE})
        if o.kind == "cont":
            return self.cont_method(o, name, node, args, kwargs, A)
        if o.kind == "glob":
            if isinstance(o.py, (dict, list, set, tuple, frozenset)):
                return self.cont_method(o, name, node, args, kwargs, A)
            if name in MUTATORS:
                self.mutate({o}, node, f".{name}()")
                self.add(self.F[(o, "[]")], A)
            # opaque module-level library object (logger, compiled regex, ...): like any library object
            return self.new_ext(node, {o} | A, through=False)
        if o.kind == "ext":
            if name in MUTATORS or name in PEN_METHODS:
                self.mutate({o}, node, f".{name}()")
                self.add(self.F[(o, "[]")], A)
                if name in CREATOR_METHODS:
                    return {o, self.rep_of(o)}  # the new child is one of the things o contains
                if name in ("update", "extend", "setdefault", "difference_update", "intersection_update", "symmetric_difference_update"):
                    # dict.update(mapping / pairs), list.extend(iterable), ...: what the ARGUMENT holds becomes held by o
                    # (what the arguments contribute is the same for every receiver of this call: computed once)
                    memo = self._upd_memo
                    if memo is None or memo[0] is not args or memo[1] != name:
                        tot = set()
                        for a_ in A:
                            el = self.elements({a_})
                            t_ = self.pytype_of(a_) if a_.kind in ("inst", "cont") else None
                            if name == "update" and not (t_ is not None and issubclass(t_, dict)):
                                el = el | self.pair_values(el)  # possibly an iterable of (key, value) pairs
                            tot |= el
                        memo = self._upd_memo = (args, name, tot)
                    self.add(self.F[(o, "[]")], memo[2])
                    for kk, (_, s_) in kwargs.items():
                        self.add(self.F[(o, "[]")], s_)
                return {o}
            if name in PEN_GETTERS:
                return self.new_ext(node, {o}, through=True, target={o})
            if name in DRAW_METHODS:
                for _, s in args[:1]:
                    self.mutate_through(s, node, f".{name}(pen)")
                return set()
            if name in ("values", "keys"):
                return self.new_cont(node, self.elements({o}), name)  # a collection OF the values
            if name in ("get", "__getitem__"):
                return self.elements({o}) | ({self.NONE} if name == "get" and len(args) < 2 else set()) | {x for _, s_ in args[1:] for x in s_}
            if name == "items":
                return self.rows(node, [{self.UNK, self.rep_of(o)}, self.elements({o})], "items")
            if name in ("findDefault", "getSourceByName") or name.startswith("find"):
                return {o}
            if name == "deepcopyExceptFonts":
                return self.derived_doc(node, {o}, node.func.value if isinstance(node.func, ast.Attribute) else None, ctx)
            if name == "copy":
                return self.shallow_copy(node, {o})
            # any other method of a library object returns a new library object; if `o` is an opaque view of
            # other objects (result of an unknown library function) so is what its methods return
            return self.new_ext(node, {o} | A, through=o.through, target=set(o.target) if o.through else None)
        if o.kind in ("cls", "mod", "super", "func", "bound", "extcls"):
            for c in self.getattr_objs({o}, name, node, ctx):
                callees.add(c)
            return set()
        return set()

    def mutate_through(self, objs, node, what):
        for o in objs:
            self.mutate({o}, node, what)  # wrapping pens forward to their target (Obj.through)

    def cont_method(self, o, name, node, args, kwargs, A):
        el = self.F[(o, "[]")]
        if name == "sort" and "key" in kwargs:
            self.invoke_callbacks(kwargs["key"][1] | {o}, node, self.cur)  # xs.sort(key=f) calls f on the elements
        keys = (self.strs(args[0][0], self.cur) or None) if args and args[0][0] not in (None, "*") and name in ("setdefault", "__setitem__", "get", "pop", "__getitem__") else None
        if name in ("setdefault", "__setitem__", "insert"):
            # first argument is a key / position, not an element
            self.mutate({o}, node, f".{name}()")
            if args and name != "insert":
                self.add(self.F[(o, "keys")], args[0][1])
            rest = set()
            for _, s_ in args[1:]:
                rest |= s_
            if keys is not None:
                for kk in keys:
                    self.add(self.F[(o, "k:" + kk)], rest)
                return self.keyed_read({o}, keys) if name == "setdefault" else set()
            self.add(el, rest)
            return self.elements({o}) if name == "setdefault" else set()
        if keys is not None and name in ("get", "pop", "__getitem__"):
            if name == "pop":
                self.mutate({o}, node, f".{name}()")
            r = self.keyed_read({o}, keys)
            for _, s_ in args[1:]:
                r |= s_
            r |= (kwargs.get("default") or (None, set()))[1]
            if name == "get" and len(args) < 2 and "default" not in kwargs:
                r = r | {self.NONE}
            return r
        if name in ("send", "throw") and o.kind == "cont" and o.key[-1] == "gen":
            self.add(self.F[(o, "sent")], A)
            return self.elements({o})
        if name in ("append", "add"):
            self.mutate({o}, node, f".{name}()")
            self.pre_add = self.is_prekill_add(node, self.cur)
            try:
                self.add(el, A)
            finally:
                self.pre_add = False
            if o.shadow_of is not None:  # the same concrete container is also reachable through the original field
                for c in dict.get(self.F, o.shadow_of, ()):
                    if c is not o:
                        self.add(self.F[(c, "[]")], A)
            return set()
        if name in ("extend", "update", "difference_update", "intersection_update", "symmetric_difference_update"):
            self.mutate({o}, node, f".{name}()")
            # (what the arguments contribute is the same for every receiver of this call: computed once per call)
            memo = self._upd_memo2
            if memo is None or memo[0] is not args or memo[1] != name:
                elA = self.elements(A)
                memo = self._upd_memo2 = (args, name, elA | {x for x in A if x.kind not in ("cont",)},
                                          self.pair_values(elA) if name == "update" else None, self.pair_keys(A) if name == "update" else None)
            self.add(el, memo[2])
            if name == "update":
                # dict.update(iterable of (key, value) pairs): the values are the new elements
                self.add(el, memo[3])
                self.add(self.F[(o, "keys")], memo[4])
            for _, (_, s) in kwargs.items():
                self.add(el, s)
            return set()
        if name in ("pop", "popitem", "remove", "clear", "sort", "reverse", "discard", "__delitem__"):
            self.mutate({o}, node, f".{name}()")
            return self.elements({o}) | ({x for _, s in args[1:] for x in s} if name == "pop" else set())
        if name in ("get",):
            r = self.elements({o})
            for _, s in args[1:]:
                r |= s
            if len(args) < 2 and "default" not in kwargs:
                r = r | {self.NONE}  # d.get(k) is None for a missing key
            return r
        if name == "items":
            return self.rows(node, [set(self.F[(o, "keys")]), self.elements({o})], "items")
        if name in ("keys", "__iter__") and o.kind in ("inst", "cont") and self.pytype_of(o) is not None and issubclass(self.pytype_of(o), dict):
            return self.new_cont(node, set(self.F[(o, "keys")]), name)  # the keys of a dict
        if name in ("values", "keys", "copy", "__iter__", "union", "difference", "intersection", "most_common", "elements"):
            extra = self.elements(A) if name in ("union",) else set()
            return self.new_cont(node, self.elements({o}) | extra, name)
        if name in ("index", "count", "isdisjoint", "issubset", "issuperset", "__contains__", "__len__", "join", "format"):
            return set()
        t = self.pytype_of(o) if o.kind in ("cont", "inst") else None
        if t in (list, dict, set, tuple, frozenset) and not hasattr(t, name):
            return set()  # no such method on a builtin container: AttributeError at run time
        return self.elements({o})

    def pair_keys(self, srcs):
        """keys contributed by the argument(s) of dict(...) / d.update(...): the keys of a mapping, or the first
        components of an iterable of pairs"""
        out = set()
        for d in srcs:
            if d.kind in ("SRC", "GS"):
                out.add(d)
                continue
            if d.kind in ("cont", "inst"):
                out |= self.F[(d, "keys")]
                t = self.pytype_of(d)
                if t is not None and issubclass(t, dict):
                    continue
            rest = set()
            for p_ in self.elements({d}):
                if p_.kind == "cont" and isinstance(p_.py, int) and p_.py >= 1:
                    out |= self.F[(p_, ("pos", 0))]
                elif p_.kind in ("SRC", "GS"):
                    out.add(p_)
                else:
                    rest.add(p_)
            if rest:
                out |= self.elements(rest)
        return out

    def pair_values(self, objs):
        """values of (key, value) pairs: the second position of 2-tuples, every element of anything else"""
        out = set()
        rest = set()
        for o in objs:
            if o.kind == "cont" and o.py == 2:
                out |= self.F[(o, ("pos", 1))]
            elif o.kind in ("SRC", "GS"):
                out.add(o)
            else:
                rest.add(o)
        if rest:
            out |= self.elements(rest)
        return out

    def shallow_copy(self, node, origs, what="copy"):
        """copy.copy(x) / x.copy() of a library or source object: a NEW object whose attributes and elements
        are the SAME objects as the original's (writes to the copy itself are harmless, writes to what it
        holds reach the original's children)."""
        r = self.new_ext(node, set(), through=False)
        (e,) = r
        for x in origs:
            if x.kind == "inst":
                r = r | self.copy_inst(node, x)
        for x in origs:
            if x.kind in ("SRC", "GS"):
                self.add(self.F[(e, "*")], {x})
                self.add(self.F[(e, "[]")], {x})
            elif x.kind == "glob":
                self.add(self.F[(e, "[]")], self.elements({x}))
            elif x.kind in ("inst", "cont", "ext", "attrs"):
                for a in self.F.attrs_of(x):
                    self.add(self.F[(e, a)], self.F[(x, a)])
                if x.kind == "ext" and x.through:
                    # an opaque view of something: what it exposes is not known by name
                    self.add(self.F[(e, "*")], x.target)
                    self.add(self.F[(e, "[]")], x.target)
        return r

    def copy_inst(self, node, x):
        """copy.copy / copy.deepcopy / pickle round trip of an instance of an analysed class: a NEW instance of the
        SAME class (so its methods are the class's and are analysed), allocated at the copying call. Its fields hold
        what the original's fields hold -- exact for a shallow copy, an over-approximation for a deep one (whose
        contents are copies in turn). A class that customises copying (__copy__, __deepcopy__, __reduce__, ...) has
        those methods analysed like every special method; what they return is a possible result as well."""
        o = self.obj("inst", (x.py.__module__ + "." + x.py.__qualname__, self.cur.key[0], getattr(node, "lineno", 0), getattr(node, "col_offset", 0), "copy"), x.py,
                     f"copy of {x.py.__name__}@{self.site(node)[0]}:{getattr(node, 'lineno', 0)}")
        for a in self.F.attrs_of(x):
            self.add(self.F[(o, a)], self.F[(x, a)])
        self.implicit_dunders(o, node, self.cur)
        out = {o}
        for nm in ("__copy__", "__deepcopy__", "__reduce__", "__reduce_ex__", "__getstate__"):
            out |= self.F[(x, "dunder:" + nm)]
        return out

    def derived_doc(self, node, docs, src_expr=None, ctx=None, shallow=False):
        """A fresh designspace-like object derived from `docs`: its own attributes/elements are fresh (itself),
        but the attributes stored on the originals (in particular `.font`) are still reachable through it.
        The copy is a SNAPSHOT: what analysed code stores into an attribute of the original only AFTER the copy was
        taken is not in the copy (see stored_after)."""
        r = self.new_ext(node, set(), through=False)
        (e,) = r
        self.add(self.F[(e, "[]")], {e})
        for d in docs:
            if d.kind in ("SRC", "GS"):
                self.add(self.F[(e, "font")], {self.SRCF if (d is self.SRC and self.SRCF is not None) else d})
                if shallow:
                    # split.py builds the sub-document from NEW descriptors but hands most of their field values over
                    # by reference (subDoc.lib = doc.lib, labelNames, mutedGlyphNames, rule.subs, vf.lib, ...)
                    self.add(self.F[(e, "*")], {d})
            elif d.kind == "ext":
                for a in self.F.attrs_of(d):
                    # deepcopyExceptFonts deep-copies everything but `.font`; the split functions create new source /
                    # axis / instance descriptors (and lists of them) and share the other values
                    if (a == "font" or (shallow and a not in ("[]", "keys", "sources", "instances", "axes"))) and isinstance(a, str):
                        vals = self.F[(d, a)]
                        late = self.stored_after(node, src_expr, ctx, d, a) if vals else set()
                        if late:
                            vals = vals - late
                            self.snapshots.add((self.site(node), a))
                        self.add(self.F[(e, a)], vals)
        return r

    # ---- a library copy is a snapshot: stores to the original that come later do not reach it --------------------------
    def stored_after(self, node, src_expr, ctx, d, attr):
        """the values of d.<attr> that can only have been put there by attribute stores which run AFTER the copy `node`
        (a call in the body of function f, context ctx) is taken. Conditions: the copied object is f's parameter p (read
        before any rebinding); every contributing store is a statement T of f itself that lies textually after the
        top-level statement containing the copy and shares no loop with it -- so within ONE activation of f, T runs
        after the copy; and an EARLIER activation of f cannot have stored into this activation's object, because
        (a) f is entered from a single call statement C that passes a variable whose only reaching definition is an
        assignment of an object freshly allocated by that assignment, in the same loop nest as C -- every activation
        of f gets an object that did not exist before the previous activation of f (if any) had returned, and
        (b) f is not recursive. Stores from any other function, or of unknown origin, are always included."""
        if ctx is None or src_expr is None or not isinstance(src_expr, ast.Name) or isinstance(ctx.func.node, ast.Lambda):
            return set()
        f = ctx.func
        ps = dict.get(self.F, (d, attr))
        if type(ps) is not ProvSet or not ps.stores or not self.is_initial_read(f, src_expr):
            return set()
        pm = self._parents(f)

        def loops_of(n):
            out = []
            while pm.get(n) is not None and pm[n] is not f.node:
                n = pm[n]
                if isinstance(n, (ast.For, ast.AsyncFor, ast.While)):
                    out.append(n)
                if isinstance(n, (ast.FunctionDef, ast.AsyncFunctionDef, ast.Lambda, ast.GeneratorExp, ast.ListComp, ast.SetComp, ast.DictComp)) and n is not f.node:
                    out.append(n)  # deferred / repeated evaluation: treat like a loop
            return out

        top = node
        while pm.get(top) is not None and pm[top] is not f.node:
            top = pm[top]
        if pm.get(top) is not f.node:
            return set()
        s_end = (top.end_lineno, top.end_col_offset)
        s_loops = set(map(id, loops_of(node)))
        late = set()
        for v, origins in ps.stores.items():
            ok = bool(origins) and v not in ps.other
            for og in origins:
                if not ok or og[0] != ctx.key:
                    ok = False
                    break
                tnode = og[1]
                if (tnode.lineno, tnode.col_offset) <= s_end or (set(map(id, loops_of(tnode))) & s_loops) or any(
                        isinstance(x, (ast.FunctionDef, ast.AsyncFunctionDef, ast.Lambda)) for x in self._ancestors(pm, tnode, f.node)):
                    ok = False
                    break
            if ok:
                late.add(v)
        if not late:
            return set()
        if not self.activation_fresh(ctx, src_expr.id) or self.is_recursive(ctx):
            return set()
        return late

    @staticmethod
    def _ancestors(pm, n, stop):
        while pm.get(n) is not None and pm[n] is not stop:
            n = pm[n]
            yield n

    def activation_fresh(self, ctx, pname):
        edges = self.call_edges.get(ctx.key, set())
        if len(edges) != 1:
            return False
        ((cctx_key, nid),) = edges
        info = self._edge_info.get((ctx.key, cctx_key, nid))
        if info is None:
            return False
        cctx, cnode, argmap = info
        if cctx is None or cnode is None or isinstance(cctx.func.node, ast.Lambda):
            return False
        an = argmap.get(pname)
        if not isinstance(an, ast.Name):
            return False
        g = cctx.func
        r = self.reach_of(g, an)
        if not r or len(r) != 1:
            return False
        (dsite,) = r
        if not (isinstance(dsite, tuple) and len(dsite) == 2):
            return False
        dstmt = None
        for n in ast.walk(g.node):
            if isinstance(n, ast.Assign) and len(n.targets) == 1 and isinstance(n.targets[0], ast.Name) and (n.targets[0].lineno, n.targets[0].col_offset) == dsite:
                dstmt = n
        if dstmt is None:
            return False
        pm = self._parents(g)

        def loop_ids(n):
            return [id(x) for x in self._ancestors(pm, n, g.node) if isinstance(x, (ast.For, ast.AsyncFor, ast.While, ast.ListComp, ast.SetComp, ast.DictComp, ast.GeneratorExp, ast.Lambda, ast.FunctionDef))]

        if loop_ids(dstmt) != loop_ids(cnode):
            return False
        vals = self.V.get((cctx.key, f"{an.id}@{dsite[0]}.{dsite[1]}"), set())
        if not vals:
            return False
        lo, hi = (dstmt.lineno, dstmt.col_offset), (dstmt.end_lineno, dstmt.end_col_offset)
        for o in vals:
            # every value of that assignment is an object allocated by an expression inside the assignment itself
            if o.kind not in ("ext", "cont") or not isinstance(o.key, tuple) or len(o.key) < 3 or o.key[0] != cctx.key:
                return False
            if not (lo <= (o.key[1], o.key[2]) <= hi):
                return False
        return True

    def is_recursive(self, ctx):
        seen = set()
        todo = [ctx.key]
        while todo:
            k = todo.pop()
            for (ck, _nid) in self.call_edges.get(k, ()):
                if ck is None:
                    continue
                if ck == ctx.key:
                    return True
                if ck not in seen:
                    seen.add(ck)
                    todo.append(ck)
        return False

    def new_ext(self, node, wraps, through, target=None):
        o = self.obj("ext", (self.cur.key, getattr(node, "lineno", 0), getattr(node, "col_offset", 0)), None, f"lib-object@{self.site(node)[0]}:{node.lineno}")
        n0 = len(o.wraps) + len(o.target)
        ok = lambda w: w.kind not in ("NONE", "cls", "mod", "func", "bound", "extcls", "glob")  # noqa: E731
        o.wraps |= {w for w in wraps if ok(w)}
        if through:
            o.target |= {w for w in (target if target is not None else wraps) if ok(w)}
        if len(o.wraps) + len(o.target) != n0:
            self.changed = True
        o.through = o.through or through
        return {o}

    def apply(self, c, node, args, kwargs, star_kw, ctx):
        if c.kind == "func":
            if isinstance(c.py, Func):
                return self.call_func(c.py, self.argsets(args), {k: v for k, (_, v) in kwargs.items()}, node, ctx, args, kwargs, star_kw)
            fn = self.func_of(c.py) if c.py is not None else None
            if fn is not None:
                return self.call_func(fn, self.argsets(args), {k: v for k, (_, v) in kwargs.items()}, node, ctx, args, kwargs, star_kw)
            py = c.py
            import functools as _ft

            if isinstance(py, _ft.partial) and not py.args:
                # partial(f, **only_keywords): same data flow as f (zip_strict = partial(zip, strict=True))
                py = py.func
            return self.lib_call(getattr(py, "__name__", "?"), py, node, args, kwargs, star_kw, ctx)
        if c.kind == "bound":
            fn = self.func_of(c.py) if isinstance(c.py, (types.FunctionType, classmethod, staticmethod)) else None
            selfset = {c.self_}
            if fn is not None:
                return self.call_func(fn, [selfset] + self.argsets(args), {k: v for k, (_, v) in kwargs.items()}, node, ctx, [(None, selfset)] + args, kwargs, star_kw)
            if c.key[0] == "srcmethod":
                # f = glyph.appendAnchor; f(...): the method call itself. With a computed name (getattr(glyph, expr)(...))
                # it may be any method of the source object, also one that modifies it
                if c.key[2] is None:
                    self.mutate({c.self_}, node, "call of a method of the source with a computed name")
                    return {c.self_}
                return self.method_call(c.self_, c.key[2], node, args, kwargs, star_kw, ctx, set())
            if c.key[-1] == "builtin":
                nm = getattr(c.py, "__name__", "?")
                A = self.all_args(args, kwargs, star_kw)
                if nm == "__init__":
                    # dict.__init__(pairs) / list.__init__(iterable) / Exception.__init__(*args): the elements
                    el = self.elements(A)
                    self.add(self.F[(c.self_, "[]")], el | self.pair_values(el) | {x for x in A if x.kind in ("SRC", "GS")})
                    self.add(self.F[(c.self_, "keys")], self.pair_keys(A))
                    for kk, (_, s_) in kwargs.items():
                        self.add(self.F[(c.self_, "[]")], s_)
                    return set()
                return self.cont_method(c.self_, nm, node, args, kwargs, A) or {self.UNK, self.NONE}
            return set()
        if c.kind == "cls":
            return self.instantiate(c, node, args, kwargs, star_kw, ctx)
        if c.kind == "extcls":
            return self.new_ext(node, self.all_args(args, kwargs, star_kw), through=False)
        if c.kind == "inst":
            k, v = self.class_attr(c.py, "__call__")
            out = set()
            if k is not None:
                for b in self.bind(v, c, k, "__call__"):
                    out |= self.apply(b, node, args, kwargs, star_kw, ctx)
            return out
        if c.kind in ("SRC", "GS", "ext", "UNK"):
            # calling something obtained from a library/source object (e.g. a class stored on it)
            self.invoke_callbacks(self.all_args(args, kwargs, star_kw), node, ctx)
            return self.new_ext(node, self.all_args(args, kwargs, star_kw), through=False)
        if c.kind == "cont" and c.key[-1] == "partial":
            bound = set(self.F[(c, "[]")])
            pos = set(bound)
            for an, s_ in args:
                pos |= s_
            kw2 = dict(kwargs)
            for a in self.F.attrs_of(c):
                if isinstance(a, str) and a.startswith("k:") and a[2:] not in kw2:
                    kw2[a[2:]] = (None, self.F[(c, a)])
            out = set()
            for f in self.F[(c, "f")]:
                out |= self.apply(f, node, [("*", pos)] if pos else [], kw2, star_kw, ctx)
            return out
        return set()

    def instantiate(self, c, node, args, kwargs, star_kw, ctx):
        pycls = c.py
        mod = _modname(pycls)
        A = self.all_args(args, kwargs, star_kw)
        if pycls is super:
            return self.lib_call("super", None, node, args, kwargs, star_kw, ctx)
        if not mod.startswith(self.pkg):
            name = pycls.__name__
            if issubclass(pycls, BaseException):
                # a library exception object carries its arguments (e.args)
                r = self.new_ext(node, A, through=False)
                (e,) = r
                self.add(self.F[(e, "[]")], A)
                return r
            if pycls in (int, float, str, bool, bytes, type, object):
                if pycls is type and len(args) == 1:
                    return self.classes_of(args[0][1])
                return {self.UNK}
            # (assumption: a library CONSTRUCTOR may call functions / bound methods / partials it is given, but
            # does not call other callable instances -- e.g. filter objects kept in a namespace)
            cb_results = self.invoke_callbacks(A, node, ctx, include_inst=name in ITER_BUILTINS or mod == "itertools")
            if name in COPYING_BUILTINS or pycls in (list, tuple, set, frozenset, dict):
                pos_el = set()
                for _, s_ in args:
                    pos_el |= (self.elements(s_) if (isinstance(pycls, type) and issubclass(pycls, dict)) else self.iter_elements(s_))
                if isinstance(pycls, type) and issubclass(pycls, dict):
                    if name == "defaultdict":
                        # defaultdict(factory): a missing key is filled with factory(): those values are
                        # elements too (one abstract object per defaultdict site)
                        pos_el = set()
                        for an, s_ in args[:1]:
                            for fo in s_:
                                pos_el |= self.apply(fo, node, [], {}, set(), ctx)
                        for _, s_ in args[1:]:
                            pos_el |= self.pair_values(self.elements(s_))
                    else:
                        # dict(iterable of (key, value) pairs): the VALUES are the elements
                        pos_el = self.pair_values(pos_el) | {x for _, s_ in args for x in s_ if x.kind in ("SRC", "GS")}
                r = self.new_cont(node, pos_el | self.elements(star_kw), name)
                (o,) = r
                if isinstance(pycls, type) and issubclass(pycls, dict):
                    if name == "Counter":
                        self.add(self.F[(o, "keys")], {x for _, s_ in args for x in self.iter_elements(s_)})
                    else:
                        self.add(self.F[(o, "keys")], self.pair_keys({x for _, s_ in (args[1:] if name == "defaultdict" else args) for x in s_}))
                for kk, (_, s_) in kwargs.items():
                    self.add(self.F[(o, "k:" + kk)], s_)
                for _, s_ in args:  # dict(other): keyed entries are copied
                    for src in s_:
                        if src.kind == "cont":
                            for a in self.F.attrs_of(src):
                                if isinstance(a, str) and a.startswith("k:"):
                                    self.add(self.F[(o, a)], self.F[(src, a)])
                return r
            if name in ("zip", "zip_longest"):
                fill = ((kwargs.get("fillvalue") or (None, {self.NONE}))[1]) if name == "zip_longest" else set()
                return self.rows(node, [self.iter_elements(s_) | fill for _, s_ in args], name)
            if name == "partial":
                return self.new_partial(node, args, kwargs)
            if name == "enumerate":
                return self.rows(node, [{self.UNK}, self.iter_elements(args[0][1]) if args else set()], name)
            if name in ITER_BUILTINS or mod == "itertools":
                return self.new_cont(node, self.iter_elements(A) | cb_results | {x for x in A if x.kind == "func"}, name)
            # library object: may keep references to its arguments; a pen forwards what is drawn into it to
            # its FIRST argument (the output pen) only
            pen_like = name.endswith("Pen") or "Pen" in name
            # wrapping pens forward to their first argument (the output pen); stand-alone pens (hash, bounds,
            # recording, glyph-building pens) keep what is drawn to themselves
            wrapping = pen_like and any(w in name for w in ("Transform", "Reverse", "Cu2Qu", "Filter", "Rounding", "Decomposing", "Segment", "Guess", "Tee", "Dashed", "Explicit"))
            r = self.new_ext(node, A, through=wrapping, target=(args[0][1] if args else set()) if wrapping else None)
            (o,) = r
            for kk, (_, sv) in kwargs.items():
                self.add(self.F[(o, kk)], sv)
            return r
        if issubclass(pycls, tuple) and hasattr(pycls, "_fields") and "__init__" not in pycls.__dict__:
            # named tuple: an immutable tuple whose positions also have names
            fields = list(pycls._fields)
            r = self.new_cont(node, set(), "namedtuple")
            (t,) = r
            t.py = len(fields)
            vals = {}
            for f_, (an, s_) in zip(fields, args):
                if an == "*":
                    for g in fields:
                        vals.setdefault(g, set()).update(s_)
                    break
                vals.setdefault(f_, set()).update(s_)
            for kk, (_, s_) in kwargs.items():
                vals.setdefault(kk, set()).update(s_)
            for g in fields:
                if star_kw:
                    vals.setdefault(g, set()).update(self.elements(star_kw) | {x for x in star_kw if x.kind not in ("cont", "attrs")})
                if g not in vals and g in getattr(pycls, "_field_defaults", {}):
                    vals[g] = self.wrap_py(pycls._field_defaults[g], g)
            for i, g in enumerate(fields):
                v_ = vals.get(g, set())
                self.add(self.F[(t, g)], v_)
                self.add(self.F[(t, ("pos", i))], v_)
                self.add(self.F[(t, "[]")], v_)
            return r
        o = self.obj("inst", (pycls.__module__ + "." + pycls.__qualname__, self.cur.key[0], getattr(node, "lineno", 0), getattr(node, "col_offset", 0)), pycls, f"{pycls.__name__}@{self.site(node)[0]}:{getattr(node, 'lineno', 0)}")
        k, init = self.class_attr(pycls, "__init__")
        fn = self.func_of(init) if init is not None else None
        if fn is not None and k.__module__.startswith(self.pkg):
            self.call_func(fn, [{o}] + self.argsets(args), {kk: v for kk, (_, v) in kwargs.items()}, node, ctx, [(None, {o})] + args, kwargs, star_kw)
        elif hasattr(pycls, "__dataclass_fields__"):
            import dataclasses as _dc0

            # positional arguments bind the fields that take part in __init__, in declaration order
            names = [f_.name for f_ in _dc0.fields(pycls) if f_.init]
            for i_, (an_, s) in enumerate(args):
                if an_ == "*":
                    for n in names[i_:]:  # a starred argument: any of the remaining fields
                        self.add(self.F[(o, n)], s)
                    break
                if i_ < len(names):
                    self.add(self.F[(o, names[i_])], s)
            for kk, (_, s) in kwargs.items():
                self.add(self.F[(o, kk)], s)
            for n in names:
                # **mapping: the VALUES stored in the mapping (under this key, or under an unknown key) may bind
                # the field -- never the mapping object itself
                for d in star_kw:
                    if d.kind == "cont":
                        self.add(self.F[(o, n)], self.F[(d, "[]")] | self.F[(d, "k:" + n)])
                    elif d.kind == "attrs":
                        self.add(self.F[(o, n)], self.F[(d.py, n)] | self.F[(d, "k:" + n)])
                    else:
                        self.add(self.F[(o, n)], {d} | self.elements({d}))
            import dataclasses as _dc

            passed = set(names[: len(args)]) | set(kwargs)
            for fld in _dc.fields(pycls):
                if fld.name in passed and not star_kw and not any(an == "*" for an, _ in args):
                    continue
                if fld.default is not _dc.MISSING:
                    self.add(self.F[(o, fld.name)], self.wrap_py(fld.default, f"{pycls.__name__}.{fld.name}"))
                elif fld.default_factory is not _dc.MISSING:
                    fac = fld.default_factory
                    if fac in (list, dict, set, tuple, frozenset):
                        # one fresh container per instance
                        self.add(self.F[(o, fld.name)], {self.obj("cont", (o.key, "field", fld.name), None, f"{fac.__name__}@{o.label}.{fld.name}")})
                    else:
                        for fo in self.wrap_py(fac, fld.name):
                            self.add(self.F[(o, fld.name)], self.apply(fo, node, [], {}, set(), ctx))
            pi = getattr(pycls, "__post_init__", None)
            fn2 = self.func_of(pi) if pi else None
            if fn2 is not None:
                self.call_func(fn2, [{o}], {}, node, ctx)
        else:
            # builtin-derived repo class (dict/list subclass): constructor argument supplies the elements
            el = self.elements(A)
            if issubclass(pycls, dict):
                self.add(self.F[(o, "[]")], self.pair_values(el) | {x for x in A if x.kind in ("SRC", "GS")})
                self.add(self.F[(o, "keys")], self.pair_keys(A))
                for kk, (_, s_) in kwargs.items():
                    self.add(self.F[(o, "[]")], s_)
            else:
                self.add(self.F[(o, "[]")], el | {x for x in A if x.kind in ("SRC", "GS")})
        self.implicit_dunders(o, node, ctx)
        return {o}

    def implicit_dunders(self, o, node, ctx):
        """Python and library code invoke special methods without a visible call (str()/format/logging ->
        __str__/__repr__, sorting and == -> comparisons, len(), iteration, subscripts, `with`, hashing, ...).
        Instead of finding every such place, every special method that the class of a NEW instance defines in
        analysed code is analysed right away, once per instance, with `self` = the instance, the other operand
        of a binary method = any instance whose class defines the same method, and other parameters unknown
        scalars.  Its effects are thus accounted for whether or not it is ever invoked, and what it returns is
        kept on the instance (field "dunder:<name>") for the constructs that consume it (subscript, iteration,
        `with`, operators, attribute fallback).  Special methods this scheme cannot express are flagged."""
        seen = set()
        for k in o.py.__mro__:
            if not _modname(k).startswith(self.pkg):
                continue
            if type(k).__module__.startswith(self.pkg):
                self.flag(node, f"metaclass {type(k).__name__}")
            for nm, v in list(k.__dict__.items()):
                if not (nm.startswith("__") and nm.endswith("__")) or nm in seen or nm in EXPLICIT_DUNDERS:
                    continue
                if isinstance(v, (staticmethod, classmethod)):
                    v = v.__func__
                if not isinstance(v, types.FunctionType):
                    continue
                seen.add(nm)
                if not (getattr(v, "__module__", None) or "").startswith(self.pkg):
                    continue  # inherited machinery of a library base class (Enum.__new__, ...)
                if v.__code__.co_filename.startswith("<"):
                    continue  # synthesised by dataclasses / namedtuple: reads and compares fields only
                if nm in UNSUPPORTED_DUNDERS:
                    self.flag(node, f"class {k.__name__} defines {nm}")
                    continue
                fn = self.func_of(v)
                if fn is None:
                    continue
                if nm in BINARY_DUNDERS:
                    self.dunder_insts[nm].add(o)
                if fn.qual not in self.has_dunders.setdefault(o, {}):
                    self.has_dunders[o][fn.qual] = nm
                    self.changed = True
                a = fn.node.args
                npos = len(a.posonlyargs + a.args)
                other = set(self.dunder_insts[nm]) if nm in BINARY_DUNDERS else set()
                r = self.call_func(fn, [{o}] + [other] * max(0, npos - 1), {}, node, ctx)
                self.add(self.F[(o, "dunder:" + nm)], r)

    def lib_call(self, name, py, node, args, kwargs, star_kw, ctx):
        r = self.lib_call_(name, py, node, args, kwargs, star_kw, ctx)
        if not r and name != "super":
            # no tracked result: an untracked value (len, int, str, ...) or None (print, setattr, warn, ...)
            return {self.UNK} if (name in PURE_BUILTINS and name != "print") else {self.UNK, self.NONE}
        return r

    def lib_call_(self, name, py, node, args, kwargs, star_kw, ctx):
        A = self.all_args(args, kwargs, star_kw)
        if name in ("exec", "eval", "globals", "locals", "__import__", "__build_class__"):
            self.flag(node, f"{name}()")
            return set()
        if name == "hasattr" and len(args) == 2 and args[1][0] not in (None, "*"):
            nms = self.strs(args[1][0], ctx)
            if nms is not None:
                for nm in nms:
                    self.getattr_objs({o for o in args[0][1] if o.kind == "inst"}, nm, node, ctx)  # runs an analysed property getter
            else:
                self.getattr_any({o for o in args[0][1] if o.kind == "inst"}, node, ctx)
            return set()
        if name in PURE_BUILTINS:
            return set()  # catalogue: these neither keep, return, mutate nor CALL their arguments
        if name in ("min", "max"):
            self.invoke_callbacks(A, node, ctx)
            # one of the arguments, or one of the elements of the (single) iterable argument
            out = set()
            for _, s_ in args:
                out |= self.iter_elements(s_) | {x for x in s_ if x.kind not in ("cont", "func", "bound")}
            out |= (kwargs.get("default") or (None, set()))[1]
            return out
        if name == "sum":
            el = set()
            for _, s_ in args:
                el |= self.elements(self.iter_elements(s_)) | self.iter_elements(s_)
            return self.new_cont(node, el, "sum")
        if name == "cast" and len(args) == 2:
            return set(args[1][1])
        if py is not None and _modname(py).startswith("booleanOperations"):
            # union(contours, outPen) & co draw their result into the pen given as second argument
            if len(args) > 1:
                self.mutate_through(args[1][1], node, f"{name}(…, pen)")
            return set()
        if name in ("union", "difference", "intersection", "issubset", "issuperset", "isdisjoint") and (py is None or getattr(py, "__objclass__", None) in (set, frozenset)):
            return self.new_cont(node, self.elements(A), name)
        if name in DOC_SPLITTERS:
            r = self.derived_doc(node, A, args[0][0] if args and args[0][0] not in (None, "*") else None, ctx, shallow=True)
            return self.rows(node, [set(), r], name)
        if name in MUTATING_FUNCS:
            deep = set(args[0][1]) if args else set()  # the first positional argument is what gets modified
            for _ in range(MUTATING_FUNCS[name]):
                deep |= self.elements(deep)
            self.mutate(deep, node, f"{name}(…)")
            return self.new_ext(node, set(), through=False)
        if name in FRESH_FUNCS:
            self.trusted_fresh.add(name)  # catalogue: new object; arguments neither kept, mutated nor called
            return self.new_ext(node, set(), through=False)
        # analysed callables handed to any other library code (key=, map(f, ..), callbacks) may be invoked by it,
        # with anything reachable from the other arguments; what they return may end up in the library's result
        cb_results = self.invoke_callbacks(A, node, ctx)
        if name == "deepcopy":
            r = self.new_cont(node, set(), "deepcopy")
            (dc,) = r
            top = set(args[0][1]) if args else set()
            for x in top:
                if x.kind == "inst":
                    r = r | self.copy_inst(node, x)
            # instances of analysed classes held by a copied container (up to three levels down) are copied with it: the
            # copy holds copies of them (positions / keys are not kept: they are elements of the one result object)
            deep = set(top)
            for _ in range(3):
                deep |= self.elements(deep)
            for x in deep - top:
                if x.kind == "inst":
                    self.add(self.F[(dc, "[]")], self.copy_inst(node, x))
                elif x.kind in ("cont", "ext", "glob"):
                    self.add(self.F[(dc, "[]")], {dc})  # nested containers: the one result object stands for their copies too
            return r
        if name == "copy" and py is not None and getattr(py, "__module__", "") == "copy":
            return self.shallow_copy(node, A)
        if name in COPYING_BUILTINS:
            el = self.elements(A) if name in ("dict", "OrderedDict", "defaultdict", "Counter") else self.iter_elements(A)
            if name in ("dict", "OrderedDict", "defaultdict", "Counter"):
                r = self.new_cont(node, self.pair_values(el) | el, name)
                (o,) = r
                self.add(self.F[(o, "keys")], self.pair_keys(A) | (self.iter_elements(A) if name == "Counter" else set()))
                return r
            return self.new_cont(node, el, name)
        if name in ("zip", "zip_strict", "zip_longest"):
            fill = ((kwargs.get("fillvalue") or (None, {self.NONE}))[1]) if name == "zip_longest" else set()
            return self.rows(node, [self.iter_elements(s_) | fill for _, s_ in args], name)
        if name == "enumerate":
            return self.rows(node, [{self.UNK}, self.iter_elements(args[0][1]) if args else set()], name)
        if name == "partial":
            return self.new_partial(node, args, kwargs)
        if name in ITER_BUILTINS:
            return self.new_cont(node, self.iter_elements(A) | cb_results | {x for x in A if x.kind in ("func", "bound")}, name)
        if name == "next":
            return self.elements(args[0][1]) | (args[1][1] if len(args) > 1 else set()) if args else set()
        if name in ("__setattr__", "__getattribute__", "__delattr__") and py is not None and getattr(py, "__objclass__", None) is object and args:
            # object.__setattr__(obj, name, value) & co (frozen dataclasses): the plain builtins on `obj`
            return self.lib_call({"__setattr__": "setattr", "__getattribute__": "getattr", "__delattr__": "delattr"}[name], None, node, args, kwargs, star_kw, ctx)
        if name == "getattr":
            out = set()
            names = self.strs(args[1][0], ctx, none_ok=True) if len(args) >= 2 and args[1][0] not in (None, "*") else None
            pat = self.name_pattern(args[1][0]) if names is None and len(args) >= 2 and args[1][0] not in (None, "*") else None
            if names is not None:
                for nm in names:
                    out |= self.getattr_objs(args[0][1], nm, node, ctx)
            elif args:
                out |= self.getattr_any(args[0][1], node, ctx, pat)
            if len(args) > 2:
                out |= args[2][1]
            return out
        if name == "setattr":
            if args:
                self.mutate(args[0][1], node, "setattr()")
                val = args[2][1] if len(args) > 2 else set()
                names = (self.strs(args[1][0], ctx) or None) if len(args) >= 2 and args[1][0] not in (None, "*") else None
                for o in args[0][1]:
                    if o.kind in ("SRC", "GS", "NONE", "UNK"):
                        continue
                    if names is not None:
                        for nm in names:
                            self.note_attr_store(o, nm)
                            self.add(self.F[(o, nm)], val)
                    else:
                        self.note_attr_store(o, None)
                        self.add(self.F[(o, "*")], val)  # read back by EVERY attribute read of o
            return set()
        if name == "delattr":
            if args:
                self.mutate(args[0][1], node, "delattr()")
            return set()
        if name == "super":
            c = ctx
            while c is not None and c.func.cls is None:
                c = c.func.parent
            if c is None:
                return set()
            a0 = c.func.node.args
            first = (a0.posonlyargs + a0.args)[0].arg if (a0.posonlyargs + a0.args) else None
            selfs = self.V[(c.key, first)] if first else set()
            out = set()
            for s in selfs:
                out.add(self.obj("super", (c.func.cls.__qualname__, s.key, s.kind), (c.func.cls, s), f"super({c.func.cls.__name__})"))
            return out
        if name in ("vars",):
            return args[0][1] if args else set()
        if name == "type" and len(args) == 1:
            return self.classes_of(args[0][1])
        if name in ("isinstance",):
            return set()
        # unknown library function: the result may reference (and, if mutated, alias) its arguments
        self.unknown_calls.add(name)
        r = self.new_ext(node, A | cb_results, through=True, target=A | cb_results)
        return r

    def is_analysed_callable(self, a):
        if a.kind in ("func", "bound"):
            return isinstance(a.py, Func) or (a.py is not None and self.func_of(a.py) is not None)
        if a.kind == "inst":
            k, _ = self.class_attr(a.py, "__call__")
            return k is not None and k.__module__.startswith(self.pkg)
        return a.kind == "cont" and a.key[-1] == "partial"

    def invoke_callbacks(self, A, node, ctx, include_inst=True):
        cbs = [a for a in A if self.is_analysed_callable(a) and (include_inst or a.kind != "inst")]
        if not cbs:
            return set()
        data = {a for a in A if a not in cbs}
        U = set(data)
        for _ in range(2):
            U |= self.elements(U)
        out = set()
        for cb in cbs:
            out |= self.apply(cb, node, [("*", U)], {}, set(), ctx)
        return out

    def new_partial(self, node, args, kwargs):
        """functools.partial(f, *bound, **kw): a callable object; calling it calls f with the bound arguments
        followed by the call's own (positions are not tracked: every parameter may receive any of them)."""
        r = self.new_cont(node, set(), "partial")
        (o,) = r
        for i, (_, s_) in enumerate(args):
            self.add(self.F[(o, "f" if i == 0 else "[]")], s_)
        for kk, (_, s_) in kwargs.items():
            self.add(self.F[(o, "k:" + kk)], s_)
        return r

    # ---- constant folding of class-level reflection ---------------------------------------------------------------
    # e.g. `sys.modules[cls.__module__]`, `getattr(module, cls.__name__[:-6] + "IFilter", None)`: code that maps a class
    # object to another class object by name. Strings are not tracked, so abstractly this is "any attribute of any
    # module". But when every argument of the call is ONE concrete class / module object, and the function's text
    # is nothing but local assignments, if / return, attribute and subscript READS, string formatting / slicing /
    # comparison and calls of getattr / hasattr / isinstance / issubclass / type / len / str and of str methods, then
    #  * it writes nothing (so no effect is lost by not analysing its body), and
    #  * its result depends only on its arguments and on attributes of classes / modules / sys.modules, which are the
    #    same objects at analysis time and at run time -- ASSUMPTION (listed in the evidence): class- and module-level
    #    state at the time of the call is the state after import (analysed code that would change it is reported by
    #    the global-state obligations; other code is outside the model); class attributes read are plain values
    #    (the classes involved have no metaclass of their own).
    # Hence evaluating the real function on the real class objects now yields the value it yields at run time.
    FOLD_BUILTINS = {"getattr", "hasattr", "isinstance", "issubclass", "type", "len", "str"}
    FOLD_STR_METHODS = {"endswith", "startswith", "lower", "upper", "replace", "strip", "lstrip", "rstrip", "split", "rsplit", "join", "format", "title",
                        "capitalize", "removeprefix", "removesuffix"}

    def class_pure(self, fn):
        if hasattr(fn, "_pure"):
            return fn._pure
        ok = fn.py is not None and isinstance(fn.node, ast.FunctionDef) and not fn.is_gen
        if ok:
            a = fn.node.args
            local = {x.arg for x in a.posonlyargs + a.args + a.kwonlyargs}
            ok = not a.vararg and not a.kwarg

            def expr(e):
                if isinstance(e, ast.Constant):
                    return True
                if isinstance(e, ast.Name):
                    if not isinstance(e.ctx, ast.Load):
                        return False
                    if e.id in local:
                        return True
                    g = fn.module.__dict__.get(e.id, self)
                    return isinstance(g, types.ModuleType) or (e.id in self.FOLD_BUILTINS and g is self)
                if isinstance(e, ast.Attribute):
                    return isinstance(e.ctx, ast.Load) and expr(e.value)
                if isinstance(e, ast.Subscript):
                    sl = e.slice
                    parts = [sl.lower, sl.upper, sl.step] if isinstance(sl, ast.Slice) else [sl]
                    return isinstance(e.ctx, ast.Load) and expr(e.value) and all(p is None or expr(p) for p in parts)
                if isinstance(e, ast.JoinedStr):
                    return all(expr(v) for v in e.values)
                if isinstance(e, ast.FormattedValue):
                    return expr(e.value) and (e.format_spec is None or expr(e.format_spec))
                if isinstance(e, ast.Compare):
                    return expr(e.left) and all(expr(c) for c in e.comparators)
                if isinstance(e, ast.BoolOp):
                    return all(expr(v) for v in e.values)
                if isinstance(e, ast.UnaryOp):
                    return expr(e.operand)
                if isinstance(e, ast.BinOp):
                    return isinstance(e.op, (ast.Add, ast.Mod)) and expr(e.left) and expr(e.right)
                if isinstance(e, ast.IfExp):
                    return expr(e.test) and expr(e.body) and expr(e.orelse)
                if isinstance(e, ast.Call):
                    if e.keywords or any(isinstance(x, ast.Starred) for x in e.args) or not all(expr(x) for x in e.args):
                        return False
                    if isinstance(e.func, ast.Name):
                        return e.func.id in self.FOLD_BUILTINS and e.func.id not in local and e.func.id not in fn.module.__dict__
                    return isinstance(e.func, ast.Attribute) and e.func.attr in self.FOLD_STR_METHODS and expr(e.func.value)
                return False

            def block(stmts):
                for st in stmts:
                    if isinstance(st, ast.Expr):
                        if not (isinstance(st.value, ast.Constant) and isinstance(st.value.value, str)):
                            return False
                    elif isinstance(st, ast.Assign):
                        if not (len(st.targets) == 1 and isinstance(st.targets[0], ast.Name) and expr(st.value)):
                            return False
                        local.add(st.targets[0].id)
                    elif isinstance(st, ast.If):
                        if not (expr(st.test) and block(st.body) and block(st.orelse)):
                            return False
                    elif isinstance(st, ast.Return):
                        if st.value is not None and not expr(st.value):
                            return False
                    elif not isinstance(st, ast.Pass):
                        return False
                return True

            # names assigned anywhere in the body are locals from the start (python scoping)
            for n in ast.walk(fn.node):
                if isinstance(n, ast.Name) and isinstance(n.ctx, ast.Store):
                    local.add(n.id)
            ok = ok and block(fn.node.body)
        fn._pure = ok
        return ok

    def fold(self, fn, pos, kw, star_kw):
        """-> the abstract result of calling the class-pure `fn` on concrete class / module arguments, or None"""
        if kw or star_kw or not pos or not self.class_pure(fn):
            return None
        a = fn.node.args
        if len(pos) != len(a.posonlyargs + a.args):
            return None
        conc = []
        for s_ in pos:
            if len(s_) != 1:
                return None
            (o,) = s_
            if o.kind == "cls" and isinstance(o.py, type) and type(o.py).__module__ in ("builtins", "abc"):
                conc.append(o.py)
            elif o.kind == "mod":
                conc.append(o.py)
            else:
                return None
        key = (id(fn.py), tuple(id(c) for c in conc))
        if key not in self._folded:
            try:
                self._folded[key] = (True, fn.py(*conc))
            except Exception:
                self._folded[key] = (False, None)
        okv, val = self._folded[key]
        if not okv:
            return None
        if val is None or isinstance(val, (type, types.ModuleType)) or self.is_scalar(val):
            self.folded_calls.add(fn.qual)
            return self.wrap_py(val, "folded")
        return None

    def call_func(self, fn, pos, kw, node, ctx, args=None, kwargs=None, star_kw=frozenset()):
        fv = self.fold(fn, pos, kw, star_kw)
        if fv is not None:
            return fv
        if fn.qual.startswith("ufo2ft.util:prune_unknown_kwargs@") and pos:
            return set(pos[0])  # returns the subset of its first argument that the callables accept
        if fn.qual.startswith("ufo2ft.filters:getFilterClass@"):
            # filters named in the UFO lib are resolved dynamically: any filter class shipped in ufo2ft.filters
            out = set()
            for mn, m in list(sys.modules.items()):
                if m is not None and mn.startswith(self.pkg + ".filters"):
                    for v in vars(m).values():
                        if isinstance(v, type) and v.__module__.startswith(self.pkg + ".filters") and v.__name__.endswith("Filter") and not v.__name__.endswith("IFilter"):
                            out |= self.wrap_py(v)
            return out
        if fn.qual.startswith("ufo2ft.util:zip_strict@") and node is not None:
            return self.rows(node, [self.iter_elements(s_) for s_ in pos], "zip_strict")
        fnode = fn.node
        if ctx is not None and node is not None and hasattr(node, "lineno"):
            rk = (ctx.key, node.lineno, getattr(node, "col_offset", 0))
            if rk not in self.repo_calls:
                self.repo_calls.add(rk)
                self.changed = True
        a = fnode.args
        params = [x.arg for x in a.posonlyargs + a.args]
        kwonly = [x.arg for x in a.kwonlyargs]
        # constants of branching parameters select the callee context; so do string constants (attribute names,
        # keys) and literal collections of strings. This is plain cloning of the callee per constant argument:
        # inside a clone the parameter has that value until it is rebound (is_initial_read).
        consts = {}
        multi = {}  # parameter -> several possible strings: one clone per string
        if args is not None and ctx is not None:
            bound_args = []
            for p, (an, _s) in zip(params, args):
                if an == "*":
                    break  # positions after a starred argument are not known
                bound_args.append((p, an))
            bound_args += [(k, an) for k, (an, _s) in (kwargs or {}).items() if k in params or k in kwonly]
            for p, an in bound_args:
                if an is None:
                    continue
                if p in fn.branch_params:
                    v = self.const(an, ctx)
                    if v is not ... and (v is None or isinstance(v, bool)):
                        consts[p] = v
                        continue
                sv = self.strs(an, ctx)
                if sv is not None and len(sv) == 1:
                    consts[p] = ("s", next(iter(sv)))
                elif sv is not None and 2 <= len(sv) <= self.MAX_STRS:
                    multi[p] = sorted(sv)
                else:
                    cv = self.str_collection(an, ctx)
                    if cv is not None and len(cv) <= 4 * self.MAX_STRS:
                        consts[p] = ("S", tuple(sorted(cv)))
            # defaults of branching parameters that are not passed
            if not star_kw:
                dflt = dict(zip(params[len(params) - len(a.defaults):], a.defaults)) if a.defaults else {}
                for ko, d in zip(a.kwonlyargs, a.kw_defaults):
                    if d is not None:
                        dflt[ko.arg] = d
                passed = set(params[: len(args)]) | set((kwargs or {}).keys())
                has_star = any(an == "*" for an, _ in args)
                for p in fn.branch_params:
                    if p not in passed and p in dflt and not has_star and isinstance(dflt[p], ast.Constant) and (dflt[p].value is None or isinstance(dflt[p].value, bool)):
                        consts[p] = dflt[p].value
        if getattr(fn.node, "name", None) in ("__init__", "__post_init__") and fn.cls is not None and pos and len(pos[0]) == 1:
            # one clone of a constructor per allocation site of the object it initialises (plain cloning)
            (so,) = pos[0]
            if so.kind == "inst" and so.alias_of is None:
                consts["*self"] = ("obj", so.key)
        if a.vararg and args is not None and not any(an == "*" for an, _ in args):
            # a call without starred arguments passes a known number of extra positional arguments: one clone of
            # the callee per (number, call site) -- in it *args is a tuple of exactly that length
            consts["*n"] = ("n", max(0, len(args) - len(params)))
            if ctx is not None and node is not None:
                consts["*site"] = ("at", ctx.func.qual, getattr(node, "lineno", 0), getattr(node, "col_offset", 0))
        if multi:
            # several possible strings for one parameter (a loop over a literal): analyse the call once per string
            # (only the first such parameter is split, the others stay unknown)
            p0 = sorted(multi)[0]
            out = set()
            for sval in multi[p0]:
                out |= self._call_ctx(fn, dict(consts, **{p0: ("s", sval)}), pos, kw, node, ctx, args, kwargs, star_kw)
            return out
        return self._call_ctx(fn, consts, pos, kw, node, ctx, args, kwargs, star_kw)

    def _call_ctx(self, fn, consts, pos, kw, node, ctx, args, kwargs, star_kw):
        a = fn.node.args
        params = [x.arg for x in a.posonlyargs + a.args]
        kwonly = [x.arg for x in a.kwonlyargs]
        ckey = (fn.qual, tuple(sorted(consts.items(), key=lambda kv: kv[0])))
        if ckey not in self.ctxs:
            c = Ctx(fn, tuple(sorted(consts.items(), key=lambda kv: kv[0])))
            self.ctxs[ckey] = c
            self.changed = True
        callee = self.ctxs[ckey]
        # who enters this context, from which call expression, and with which argument expression per parameter
        ek = (ctx.key if ctx is not None else None, id(node) if node is not None else None)
        if ek not in self.call_edges[callee.key]:
            self.call_edges[callee.key].add(ek)
            argmap = {}
            if args is not None:
                for p_, (an_, _s) in zip(params, args):
                    if an_ == "*":
                        break
                    if an_ is not None:
                        argmap[p_] = an_
                for k_, (an_, _s) in (kwargs or {}).items():
                    argmap[k_] = an_
            self._edge_info[(callee.key,) + ek] = (ctx, node, argmap)

        def bindp(p, vals):
            # the call-time binding is kept apart (name@in) for reads that certainly see it (is_initial_read)
            self.add(self.V[(callee.key, p)], vals)
            self.add(self.V[(callee.key, p + "@in")], vals)

        extra = set()
        for i, s in enumerate(pos):
            if i < len(params):
                bindp(params[i], s)
            else:
                extra |= s
        if args is not None:
            for i, (an, s) in enumerate(args):
                if an == "*":
                    # *iterable at position i can only bind parameters from position i on
                    for p in params[i:]:
                        bindp(p, s)
                    extra |= s
        if a.vararg:
            vo = self.obj("cont", (callee.key, "*args"), None, f"*args of {fn.qual}")
            self.add(self.F[(vo, "[]")], extra)
            nfix = dict(callee.consts).get("*n")
            if nfix is not None and args is not None:
                vo.py = nfix[1]  # arity: positions are tracked (tuples are immutable)
                for i, (an, s_) in enumerate(args[len(params):]):
                    self.add(self.F[(vo, ("pos", i))], s_)
            bindp(a.vararg.arg, {vo})
        kextra = set()
        for k, s in kw.items():
            if k in params or k in kwonly:
                bindp(k, s)
            else:
                kextra |= s
        if star_kw:
            views = {o for o in star_kw if o.kind == "attrs"}
            dicts = {o for o in star_kw if o.kind == "cont"}
            plain = set(star_kw) - views - dicts
            for d in dicts:
                plain |= self.F[(d, "[]")]  # entries under unknown keys may bind any parameter
            npos = len(pos)
            for p in params[npos:] + kwonly:
                if p in kw:
                    continue
                bindp(p, plain)
                for d in dicts:
                    bindp(p, self.F[(d, "k:" + p)])
                for v in views:
                    bindp(p, self.F[(v.py, p)] | self.F[(v, "k:" + p)])
                    k_, cv = self.class_attr(v.py.py, p)
                    if k_ is not None and not self.F[(v.py, p)]:
                        bindp(p, self.bind(cv, v.py, k_, p) if not isinstance(cv, (types.FunctionType, property)) else set())
            kextra |= plain | self.elements(views) | self.elements(dicts)
        if a.kwarg:
            ko = self.obj("cont", (callee.key, "**kwargs"), None, f"**kwargs of {fn.qual}")
            self.add(self.F[(ko, "[]")], kextra)
            bindp(a.kwarg.arg, {ko})
        # defaults: the default expression was evaluated ONCE, when the `def` statement ran, in the scope that
        # contains the def (a mutable default is therefore one object shared by all calls). It binds the
        # parameter whenever the call does not certainly pass it.
        defaults = list(zip(params[len(params) - len(a.defaults):], a.defaults)) if a.defaults else []
        defaults += [(ko.arg, d) for ko, d in zip(a.kwonlyargs, a.kw_defaults) if d is not None]
        certainly_passed = set(params[: len(pos)]) | set(kw)
        for p, d in defaults:
            if p not in certainly_passed:
                bindp(p, self.default_value(fn, d))
        if fn.is_gen:
            g = self.obj("cont", (callee.key, "gen"), None, f"generator of {fn.qual}")
            self.add(self.F[(g, "[]")], self.Y[callee.key])
            return {g}
        return set(self.R[callee.key])

    def def_ctx(self, fn):
        """The context in which the `def` of `fn` is executed: the enclosing function's context for a closure, a
        per-module pseudo context (names resolve to the module's globals) otherwise."""
        if fn.parent is not None:
            return fn.parent
        k = fn.module.__name__
        c = self._modctx.get(k)
        if c is None:
            f = Func.__new__(Func)
            f.py = None
            f.node = ast.parse("def _module_(): pass").body[0]
            f.module = fn.module
            f.cls = None
            f.parent = None
            f.qual = f"{k}:<module>"
            f.file = fn.file
            f.is_gen = False
            f.branch_params = frozenset()
            c = self._modctx[k] = Ctx(f, ())
        return c

    def default_value(self, fn, d):
        if isinstance(d, ast.Constant):
            return {self.NONE} if d.value is None else {self.UNK}
        dctx = self.def_ctx(fn)
        saved = self.cur
        self.cur = dctx
        try:
            return self.ev(d, dctx)
        finally:
            self.cur = saved

    # ---- statements -----------------------------------------------------------------------------------------------
    def assign(self, target, val, ctx, node, is_comp=False):
        if isinstance(target, ast.Name):
            if target.id in self.assume:
                return
            strong_end = node.end_lineno if isinstance(node, (ast.Assign, ast.AnnAssign)) and not is_comp else None
            self.add(self.V[self.vkey(ctx, target.id, getattr(target, "lineno", 0), strong_end)], val)
            if not is_comp and hasattr(target, "lineno"):
                # the value bound at THIS binding site, for the reads it reaches (read_local)
                self.add(self.V[(ctx.key, f"{target.id}@{target.lineno}.{target.col_offset}")], val)
        elif isinstance(target, (ast.Tuple, ast.List)):
            n = len(target.elts)
            for i, t in enumerate(target.elts):
                if isinstance(t, ast.Starred):
                    self.assign(t.value, self.new_cont(node, self.iter_elements(val), "starred"), ctx, node)
                    continue
                tv = set()
                for o in val:
                    if o.kind == "cont" and o.py == n:
                        tv |= self.F[(o, ("pos", i))]  # tuple display of the same arity: position-wise
                    elif o.kind in ("cont", "ext"):
                        tv |= self.iter_elements({o})
                    else:
                        # pairs are not modelled for items()/zip()/enumerate(): they are flattened, so the
                        # object itself is what gets unpacked
                        tv.add(o)
                self.assign(t, tv, ctx, node)
        elif isinstance(target, ast.Attribute):
            if target.attr in self.assume:
                return
            base = self.ev(target.value, ctx)
            self.mutate(base, target, f".{target.attr} = …")
            if target.attr in ("__class__", "__dict__", "__bases__", "__slots__") and any(o.kind in ("inst", "cls") for o in base):
                self.flag(target, f"assignment to {target.attr}")
            for o in base:
                if o.kind == "inst":
                    # a property with an analysed setter: the store RUNS the setter
                    k_, pv_ = self.class_attr(o.py, target.attr)
                    if isinstance(pv_, property) and pv_.fset is not None:
                        sfn = self.func_of(pv_.fset)
                        if sfn is not None:
                            self.call_func(sfn, [{o}, set(val)], {}, target, ctx)
                            continue
                if o.kind not in ("SRC", "GS", "NONE", "UNK"):
                    v2 = val
                    if o.kind == "inst":
                        v2 = self.ctor_versioned(o, target, val, ctx, node)
                    if o.kind == "ext" and self.cur is ctx and isinstance(node, (ast.Assign, ast.AnnAssign)):
                        self.store_origin = (ctx.key, node)
                    try:
                        self.add(self.F[(o, target.attr)], v2)
                    finally:
                        self.store_origin = None
        elif isinstance(target, ast.Subscript):
            base = self.ev(target.value, ctx)
            self.ev(target.slice, ctx) if not isinstance(target.slice, ast.Slice) else None
            self.mutate({o for o in base if o.kind != "attrs"}, target, "[…] = …")
            keys = (self.strs(target.slice, ctx) or None) if not isinstance(target.slice, ast.Slice) else None
            keyobjs = self.ev(target.slice, ctx) if not isinstance(target.slice, ast.Slice) else set()
            if isinstance(target.slice, ast.Slice):
                val = self.elements(val)  # x[i:j] = iterable stores the ELEMENTS of the iterable
            for o in base:
                if o.kind in ("SRC", "GS", "NONE", "UNK"):
                    continue
                if keyobjs and o.kind in ("cont", "inst", "ext", "glob"):
                    self.add(self.F[(o, "keys")], keyobjs)
                if o.kind == "attrs":
                    # x.__dict__[k] = v IS x.k = v
                    self.mutate({o.py}, target, "__dict__[…] = …")
                    if keys is not None:
                        for kk in keys:
                            self.note_attr_store(o.py, kk)
                            self.add(self.F[(o.py, kk)], val)
                    else:
                        self.note_attr_store(o.py, None)
                        self.add(self.F[(o.py, "*")], val)
                elif keys is not None:
                    for kk in keys:
                        self.add(self.F[(o, "k:" + kk)], val)
                else:
                    self.add(self.F[(o, "[]")], val)
        elif isinstance(target, ast.Starred):
            self.assign(target.value, val, ctx, node)

    def run_body(self, stmts, ctx):
        """Analyse a block; returns True when the block certainly does not complete normally (its last reachable
        statement is a return / raise / continue / break, or an `if` all of whose live branches end that way):
        the statements after such a statement can never execute and are skipped."""
        ended = False
        depth = len(self.narrow)
        for i, s in enumerate(stmts):
            if isinstance(s, ast.If):
                c = self.const(s.test, ctx)
                self.ev(s.test, ctx)
                e1 = e2 = True
                if c is ... or c:
                    e1 = self.run_narrowed(s.test, True, s.body, ctx)
                if c is ... or not c:
                    e2 = self.run_narrowed(s.test, False, s.orelse, ctx)
                if e1 and e2:
                    ended = True
                    break
                # one branch never falls through: whoever reaches the next statement came through the other one
                rest = stmts[i + 1:]
                if e1 != e2 and rest:
                    # (the variable must not be rebound in the branch that was passed through either)
                    self.narrow.extend(self.narrowings(s.test, ctx, positive=e2, region=rest + (s.body if e2 else s.orelse)))
            elif self.stmt(s, ctx):
                ended = True
                break
        del self.narrow[depth:]
        return ended

    def run_narrowed(self, test, positive, body, ctx):
        depth = len(self.narrow)
        self.narrow.extend(self.narrowings(test, ctx, positive, body))
        try:
            return self.run_body(body, ctx)
        finally:
            del self.narrow[depth:]

    # ---- narrowing of a local variable by the test that guards a region -----------------------------------------------
    # In the statements guarded by `isinstance(x, C)`, `x is None`, `x` (and their negations), where x is a local
    # variable that is not rebound anywhere inside the guarded statements, every read of x (in this function's own
    # scope, not in a lambda / generator expression, which run later) yields a value that passed the test. The
    # filter only drops abstract objects that CERTAINLY fail it (class of the object known). A value that is an
    # instance of str / bytes / int / float / bool / complex is an immutable scalar: it has nothing that could be
    # written to, so it is dropped altogether.
    def narrowings(self, test, ctx, positive, region):
        out = []
        self._narrowings(test, ctx, positive, out)
        res = []
        for name, f in out:
            if name in self.locals_of(ctx.func) and name not in self._bindings(ctx.func)[1]:
                # valid up to the first statement of the guarded region that rebinds the variable
                until = None
                for st in region:
                    if self._binds_in([st], name):
                        until = (st.lineno, st.col_offset)
                        break
                if until is not None and (not region or until <= (region[0].lineno, region[0].col_offset)):
                    continue
                res.append((ctx.key, name, f, until))
        return res

    def _narrowings(self, t, ctx, positive, out):
        if isinstance(t, ast.UnaryOp) and isinstance(t.op, ast.Not):
            self._narrowings(t.operand, ctx, not positive, out)
        elif isinstance(t, ast.BoolOp) and ((isinstance(t.op, ast.And) and positive) or (isinstance(t.op, ast.Or) and not positive)):
            for v in t.values:
                self._narrowings(v, ctx, positive, out)
        elif isinstance(t, ast.Call) and isinstance(t.func, ast.Name) and t.func.id == "isinstance" and len(t.args) == 2 and not t.keywords \
                and isinstance(t.args[0], ast.Name) and self.lookup("isinstance", ctx) is None and "isinstance" not in ctx.func.module.__dict__:
            classes = self.class_tuple(t.args[1], ctx)
            if classes:
                out.append((t.args[0].id, ("isinstance", tuple(classes), positive)))
        elif isinstance(t, ast.Call) and isinstance(t.func, ast.Name) and t.func.id == "isinstance" and len(t.args) == 2 and not t.keywords \
                and isinstance(t.args[0], ast.Subscript) and isinstance(t.args[0].value, ast.Name) and isinstance(t.args[0].slice, ast.Constant) \
                and isinstance(t.args[0].slice.value, int) and not isinstance(t.args[0].slice.value, bool) \
                and self.lookup("isinstance", ctx) is None and "isinstance" not in ctx.func.module.__dict__:
            # isinstance(args[i], C) where args is the *args tuple of this function (read before any rebinding): a tuple
            # is immutable, so args[i] is the same object wherever `args` still has that binding
            x = t.args[0].value
            va = getattr(ctx.func.node.args, "vararg", None)
            classes = self.class_tuple(t.args[1], ctx)
            if classes and va is not None and va.arg == x.id and self.is_initial_read(ctx.func, x):
                out.append((x.id, ("sub", t.args[0].slice.value, tuple(classes), positive)))
        elif isinstance(t, ast.Compare) and len(t.ops) == 1 and isinstance(t.ops[0], (ast.Is, ast.IsNot)) and isinstance(t.left, ast.Name) \
                and isinstance(t.comparators[0], ast.Constant) and t.comparators[0].value is None:
            out.append((t.left.id, ("none", isinstance(t.ops[0], ast.Is) == positive)))
        elif isinstance(t, ast.Name) and positive:
            out.append((t.id, ("none", False)))  # a truthy value is not None

    _binds_cache = {}

    @classmethod
    def _binds_in(cls, stmts, name):
        out = False
        for st in stmts:
            k = (id(st), name)
            r = cls._binds_cache.get(k)
            if r is None or r[0] is not st:
                r = (st, cls._binds_in1([st], name))
                cls._binds_cache[k] = r  # (the node is kept alive by the entry, so its id cannot be reused)
            if r[1]:
                out = True
                break
        return out

    @staticmethod
    def _binds_in1(stmts, name):
        for st in stmts:
            for n in ast.walk(st):
                if isinstance(n, ast.Name) and n.id == name and isinstance(n.ctx, (ast.Store, ast.Del)):
                    return True
                if isinstance(n, (ast.FunctionDef, ast.AsyncFunctionDef, ast.ClassDef)) and n.name == name:
                    return True
                if isinstance(n, ast.ExceptHandler) and n.name == name:
                    return True
                if isinstance(n, (ast.Import, ast.ImportFrom)) and any((al.asname or al.name).split(".")[0] == name for al in n.names):
                    return True
                if isinstance(n, (ast.MatchAs, ast.MatchStar)) and n.name == name:
                    return True
                if isinstance(n, ast.MatchMapping) and n.rest == name:
                    return True
        return False

    def apply_narrow(self, vals, ctx, name, node=None):
        for ck, nm, f, until in self.narrow:
            if nm != name or ck != ctx.key or f[0] == "sub":
                continue
            if until is not None and (node is None or (node.lineno, node.col_offset) >= until):
                continue
            if f[0] == "isinstance":
                _, classes, positive = f
                if positive and all(c in self.SCALAR_TYPES for c in classes):
                    return {self.UNK}
                keep = set()
                for o in vals:
                    v = self.instance_verdict(o, classes)
                    if v is None or v == positive:
                        keep.add(o)
                vals = keep
            elif f[0] == "none":
                if f[1]:
                    vals = {self.NONE} if any(o is self.NONE or o.kind not in DEFINITE_KINDS for o in vals) else set()
                else:
                    vals = {o for o in vals if o is not self.NONE}
        return vals

    def stmt(self, s, ctx):
        """-> True iff control certainly does not continue with the next statement of the same block"""
        if isinstance(s, (ast.Return, ast.Raise, ast.Continue, ast.Break)):
            self.stmt_(s, ctx)
            return True
        if isinstance(s, ast.If):
            return self.run_body([s], ctx)
        self.stmt_(s, ctx)
        return False

    def stmt_(self, s, ctx):
        if isinstance(s, ast.Expr):
            self.ev(s.value, ctx)
        elif isinstance(s, ast.Assign):
            v = self.ev(s.value, ctx)
            st = self.site(s)
            if (st[0], st[1]) in self.cuts and not isinstance(s.value, ast.Call):
                # cut point (see e_Call): the value assigned here is treated as not aliasing the sources
                if any(o.kind == "SRC" for o in v | self.elements(v)):
                    self.cut_hits.add((st[0], st[1]))
                v = self.new_cont(s, set(), "cut")
            for t in s.targets:
                self.assign(t, v, ctx, s)
        elif isinstance(s, ast.AnnAssign):
            if s.value is not None:
                self.assign(s.target, self.ev(s.value, ctx), ctx, s)
        elif isinstance(s, ast.AugAssign):
            v = self.ev(s.value, ctx)
            if isinstance(s.target, ast.Name):
                cur = self.ev(s.target, ctx)
                conts = {o for o in cur if o.kind in ("cont", "SRC", "GS", "ext", "inst", "glob")}
                rhs_container = isinstance(s.value, (ast.List, ast.Set, ast.Dict, ast.ListComp, ast.SetComp, ast.DictComp, ast.Tuple)) or (
                    isinstance(s.value, ast.Call) and isinstance(s.value.func, ast.Name) and s.value.func.id in COPYING_BUILTINS
                ) or any(o.kind == "cont" for o in v)
                if conts and isinstance(s.op, (ast.Add, ast.BitOr, ast.BitAnd, ast.Sub, ast.BitXor)):
                    # `x += y` mutates x in place when x is a list/set/dict; numbers and strings are rebound.
                    # Without types the right-hand side decides: a container-valued RHS means a container update.
                    if rhs_container:
                        self.mutate(conts, s, "augmented assignment")
                        for o in conts:
                            if o.kind == "cont":
                                self.add(self.F[(o, "[]")], self.elements(v))
            else:
                # `o.f += rhs` / `o[k] += rhs`: the object currently stored there is updated IN PLACE when it is a
                # container (list += iterable, set |= ..., dict |= ...), and the result is stored back
                load = ast.copy_location(ast.Attribute(value=s.target.value, attr=s.target.attr, ctx=ast.Load()), s.target) if isinstance(s.target, ast.Attribute) \
                    else ast.copy_location(ast.Subscript(value=s.target.value, slice=s.target.slice, ctx=ast.Load()), s.target) if isinstance(s.target, ast.Subscript) else None
                cur = self.ev(load, ctx) if load is not None else set()
                conts = {o for o in cur if o.kind in ("cont", "SRC", "GS", "ext", "inst", "glob")}
                if conts and isinstance(s.op, (ast.Add, ast.BitOr, ast.BitAnd, ast.Sub, ast.BitXor, ast.Mult)):
                    if v or isinstance(s.value, (ast.List, ast.Set, ast.Dict, ast.ListComp, ast.SetComp, ast.DictComp, ast.Tuple)):
                        self.mutate(conts, s, "augmented assignment")
                        for o in conts:
                            if o.kind in ("cont", "inst", "ext", "glob"):
                                self.add(self.F[(o, "[]")], self.elements(v))
                self.assign(s.target, cur | v | self.elements(v), ctx, s)
        elif isinstance(s, ast.Delete):
            for t in s.targets:
                if isinstance(t, ast.Attribute):
                    if t.attr not in self.assume:
                        self.mutate(self.ev(t.value, ctx), t, f"del .{t.attr}")
                elif isinstance(t, ast.Subscript):
                    self.mutate(self.ev(t.value, ctx), t, "del […]")
        elif isinstance(s, ast.Return):
            if s.value is not None:
                self.add(self.R[ctx.key], self.ev(s.value, ctx))
            else:
                self.add(self.R[ctx.key], {self.NONE})
        elif isinstance(s, (ast.For, ast.AsyncFor)):
            it = self.ev(s.iter, ctx)
            self.assign(s.target, self.iter_elements(it), ctx, s)
            self.run_body(s.body, ctx)
            self.run_body(s.orelse, ctx)
        elif isinstance(s, ast.While):
            self.ev(s.test, ctx)
            self.run_body(s.body, ctx)
            self.run_body(s.orelse, ctx)
        elif isinstance(s, (ast.With, ast.AsyncWith)):
            for it in s.items:
                v = self.ev(it.context_expr, ctx)
                if it.optional_vars is not None:
                    # library context managers: themselves or what they hold; analysed ones: what __enter__
                    # returned (__enter__ / __exit__ run as implicit dunders of the instance)
                    bound = {o for o in v if o.kind != "inst"}
                    bound |= self.elements(bound)
                    for o in v:
                        if o.kind == "inst":
                            bound |= self.F[(o, "dunder:__enter__")] | self.F[(o, "dunder:__aenter__")]
                            if not any(hasattr(o.py, m) for m in ("__enter__", "__aenter__")):
                                bound.add(o)
                    self.assign(it.optional_vars, bound, ctx, s)
            self.run_body(s.body, ctx)
        elif isinstance(s, ast.Try):
            self.run_body(s.body, ctx)
            for h in s.handlers:
                if h.name:
                    # any exception object raised anywhere in analysed code may arrive here (exceptions raised
                    # by library code carry no analysed objects: assumption)
                    self.add(self.V[(ctx.key, h.name)], self.F[(self.EXC, "[]")])
                self.run_body(h.body, ctx)
            self.run_body(s.orelse, ctx)
            self.run_body(s.finalbody, ctx)
        elif isinstance(s, (ast.FunctionDef, ast.AsyncFunctionDef)):
            fo = {self.closure(s, ctx)}
            for d in s.decorator_list:
                # name = decorator(function): what the decorator returns is what the name is bound to
                dv = self.ev(d, ctx)
                res = set()
                for dc in dv:
                    res |= self.apply(dc, d, [(None, set(fo))], {}, set(), ctx)
                fo = fo | res  # (keeping the undecorated function as a possible value is an over-approximation)
            self.add(self.V[(ctx.key, s.name)], fo)
        elif isinstance(s, ast.ClassDef):
            # the class object does not exist at analysis time: its methods would silently stay unanalysed
            self.flag(s, "class defined inside a function")
        elif isinstance(s, (ast.Global, ast.Nonlocal)):
            self.flag(s, "global/nonlocal rebinding")
        elif isinstance(s, ast.Import):
            for al in s.names:
                try:
                    m = importlib.import_module(al.name if al.asname else al.name.split(".")[0])
                    self.add(self.V[(ctx.key, (al.asname or al.name).split(".")[0])], self.wrap_py(m))
                except Exception:
                    pass
        elif isinstance(s, ast.ImportFrom):
            try:
                modname = s.module if s.level == 0 else importlib.util.resolve_name("." * s.level + (s.module or ""), ctx.func.module.__package__)
                m = importlib.import_module(modname)
                for al in s.names:
                    if hasattr(m, al.name):
                        self.add(self.V[(ctx.key, al.asname or al.name)], self.wrap_py(getattr(m, al.name), al.name))
            except Exception:
                pass
        elif isinstance(s, (ast.Raise, ast.Assert)):
            for c in ast.iter_child_nodes(s):
                if isinstance(c, ast.expr):
                    v = self.ev(c, ctx)
                    if isinstance(s, ast.Raise):
                        # `raise Cls` instantiates the class without arguments
                        for o in list(v):
                            if o.kind == "cls" and _modname(o.py).startswith(self.pkg):
                                v = v | self.instantiate(o, s, [], {}, set(), ctx)
                        self.add(self.F[(self.EXC, "[]")], {o for o in v if o.kind in ("inst", "ext", "SRC", "GS", "cont")})
        elif isinstance(s, ast.Match):
            subj = self.ev(s.subject, ctx)
            for c in s.cases:
                # names captured by the pattern: the subject, or something taken out of it by the sub-patterns (an
                # element, a mapping value, an attribute) -- one level per level of pattern nesting; a class pattern
                # reads attributes (which may run analysed properties)
                depth = 0
                stack = [(c.pattern, 0)]
                caps = []
                while stack:
                    pt, d_ = stack.pop()
                    depth = max(depth, d_)
                    if isinstance(pt, (ast.MatchAs, ast.MatchStar)) and pt.name:
                        caps.append(pt)
                    if isinstance(pt, ast.MatchMapping) and pt.rest:
                        caps.append(pt)
                    for ch in ast.iter_child_nodes(pt):
                        if isinstance(ch, ast.pattern):
                            stack.append((ch, d_ + (0 if isinstance(pt, (ast.MatchAs, ast.MatchOr)) else 1)))
                        elif isinstance(ch, ast.expr):
                            self.ev(ch, ctx)
                reach = set(subj)
                for _ in range(depth):
                    reach |= self.elements(reach) | self.getattr_any(reach, s, ctx)
                for pt in caps:
                    if isinstance(pt, ast.MatchAs):
                        self.assign(ast.copy_location(ast.Name(id=pt.name, ctx=ast.Store()), pt), reach, ctx, pt)
                    else:
                        nm = pt.name if isinstance(pt, ast.MatchStar) else pt.rest
                        self.assign(ast.copy_location(ast.Name(id=nm, ctx=ast.Store()), pt), self.new_cont(pt, reach, "starred" if isinstance(pt, ast.MatchStar) else "dict"), ctx, pt)
                if c.guard is not None:
                    self.ev(c.guard, ctx)
                self.run_body(c.body, ctx)

    # ---- driver ---------------------------------------------------------------------------------------------------------
    def add_root(self, pyfunc, pos=(), kw=None, selfobj=None):
        fn = self.func_of(pyfunc)
        if fn is None:
            raise RuntimeError(f"root {pyfunc} not found among repo functions")
        self.roots.append((fn, list(pos), dict(kw or {})))

    def new_instance(self, pycls, label=None):
        return self.obj("inst", (pycls.__module__ + "." + pycls.__qualname__, "root"), pycls, label or f"{pycls.__name__}@root")

    def _reset(self):
        self.V.clear(); self.F.clear(); self.R.clear(); self.Y.clear()
        rooted = {id(o) for _fn, pos, kw in self.roots for s_ in list(pos) + list(kw.values()) for o in s_}
        # (objects handed to a root keep their identity, so that a root argument obtained from an earlier run -- e.g. the
        # instance returned by a factory root -- IS the object the next run allocates at the same site)
        keep = {k: v for k, v in self.objs.items() if k[0] in ("SRC", "GS", "NONE", "UNK") or k == ("cont", "EXC") or id(v) in rooted
                or (k[0] == "inst" and isinstance(k[1], tuple) and k[1][-1] == "root")}
        self.objs = keep
        self.ctxs.clear(); self.alarms.clear(); self.sites.clear(); self.globals_mut.clear()
        self.unknown_calls.clear(); self.cut_hits.clear(); self.repo_calls.clear(); self.strong_reads.clear()
        self.unsupported.clear()
        self.dunder_insts.clear(); self.has_dunders.clear(); self._fwd = None
        self.assumed_const_globs.clear()
        self.mutated_globs.clear()
        self.used_inv.clear()
        self.used_kill.clear()
        self.call_edges.clear()
        self._edge_info.clear()
        self._reps.clear()
        self._ecache.clear()
        self.version += 1
        self.snapshots.clear()
        self.changed = True

    def flag(self, node, reason):
        """Record a construct that is reachable but not modelled (sound fallback: the run is no proof)."""
        k = (self.site(node) if node is not None and self.cur is not None else ("?", 0, 0), reason)
        if k not in self.unsupported:
            self.unsupported[k] = self.cur.key[0] if self.cur is not None else "?"

    def solve(self, max_rounds=60, max_restarts=8):
        """Fixpoint, then decide `x is None` tests from the final points-to sets and restart with the dead
        branches removed, until the set of decided tests is stable and re-validated by the last run."""
        for restart in range(max_restarts):
            self._fix(max_rounds)
            # decide tests in the final state (no state change is kept from this pass)
            self.deciding = True
            self.new_decided = {}
            snap = (dict(self.alarms), dict(self.sites), dict(self.globals_mut))
            self.changed = False
            for ckey in list(self.ctxs):
                c = self.ctxs[ckey]
                self.cur = c
                for n in ast.walk(c.func.node):
                    if isinstance(n, (ast.If, ast.IfExp)):
                        self.const(n.test, c)
            self.deciding = False
            self.alarms, self.sites, self.globals_mut = snap
            nd = dict(self.new_decided)
            validated = all(nd.get(k) == v for k, v in self.decided.items())
            if validated and (nd == self.decided or restart == max_restarts - 1):
                # the fixpoint computed under `decided` re-derives every decision it was pruned with: by
                # induction over the concrete execution no pruned branch is ever taken (optimistic analysis)
                self.restarts = restart + 1
                self.validated = True
                return self.rounds
            if validated:
                self.decided = nd  # more tests became decidable: prune further, validate again
            else:
                self.decided = {k: v for k, v in self.decided.items() if nd.get(k) == v}
        # no self-validating set found within the budget: fall back to no pruning at all (sound)
        self.decided = {}
        self._fix(max_rounds)
        self.restarts = max_restarts + 1
        self.validated = False
        return self.rounds

    def _fix(self, max_rounds):
        """one fixpoint under the current decisions; repeated while a module-level collection whose contents were
        taken as constant (strs) turns out to be mutated by analysed code (it is then treated as unknown)"""
        while True:
            self._reset()
            self.solve_once(max_rounds)
            bad = (self.assumed_const_globs & self.mutated_globs) - self.open_globs
            broke = {x for x in self.broken_inv if x not in self._broken_seen}
            if not bad and not broke:
                return
            self.open_globs |= bad
            self._broken_seen |= broke

    def solve_once(self, max_rounds=60):
        rf = Func.__new__(Func)
        rf.qual = "<root>"
        root_ctx = Ctx(rf, ())
        root_ctx.func.file = "<root>"
        root_ctx.func.module = importlib.import_module(self.pkg)
        root_ctx.func.parent = None
        root_ctx.func.cls = None
        root_ctx.func.branch_params = frozenset()
        root_ctx.func.node = ast.parse("def root(): pass").body[0]
        root_ctx.key = ("<root>", ())
        rounds = 0
        while self.changed and rounds < max_rounds:
            self.changed = False
            rounds += 1
            self.cur = root_ctx
            for fn, pos, kw in self.roots:
                self.call_func(fn, pos, kw, None, None)
                for s_ in pos:
                    for o in s_:
                        if o.kind == "inst":
                            self.implicit_dunders(o, None, None)
            for ckey in list(self.ctxs):
                c = self.ctxs[ckey]
                self.cur = c
                node = c.func.node
                if isinstance(node, ast.Lambda):
                    self.add(self.R[c.key], self.ev(node.body, c))
                else:
                    ended = self.run_body(node.body, c)
                    if not ended and not getattr(c.func, "is_gen", False):
                        # control may reach the end of the body: the call returns None
                        self.add(self.R[c.key], {self.NONE})
            for o in [x for x in self.objs.values() if x.shadow_of is not None]:
                own = dict.get(self.F, (o, "[]"))
                if own:
                    for c in list(dict.get(self.F, o.shadow_of, ())):
                        if c is not o:
                            self.add(self.F[(c, "[]")], own)
        self.rounds = rounds
        # the loop may also stop because the budget is exhausted: then the state is NOT a fixpoint and nothing
        # may be concluded from it
        self.converged = not self.changed
        return rounds
