"""Loops (invariant cut / unrolling), try, with, and the per-function driver."""
from __future__ import annotations

import ast

import z3

from . import api, ops
from . import ty as T
from .core import PYOBJ, ContractMisfit, Outcome, State, Unsupported, Val, coerce, fresh, fresh_name, lift
from .exprs import z_and, z_not
from .ops import is_const, z3bool
from .stmts import IterInfo, assigned_names, header_text, rebound_names

TIMER_NAMES = {"Timer", "timer"}


class LoopMixin:
    # ---- helpers ---------------------------------------------------------------------------------------------
    def loop_spec(self, node):
        """Contract of a loop: keyed by header text, or `header#n` for the n-th loop (1-based, source order,
        counted over the whole function) with that header text when the text occurs more than once."""
        h = header_text(node)
        if not self.c:
            return None, h
        occ = None
        if self.src is not None:
            same = [n for n in ast.walk(self.src.fdef) if isinstance(n, (ast.For, ast.While)) and header_text(n) == h]
            same.sort(key=lambda n: (n.lineno, n.col_offset))
            for k, n in enumerate(same):
                if n.lineno == node.lineno and n.col_offset == node.col_offset:
                    occ = k + 1
        for key in ([f"{h}#{occ}"] if occ else []) + [h]:
            spec = self.c.loops.get(key)
            if spec is not None:
                self._loops_seen.add(key)
                return spec, key
        return None, h

    def inv_items(self, spec):
        inv = spec.invariants
        if isinstance(inv, dict):
            return list(inv.items())
        return [(f"i{k}", s) for k, s in enumerate(inv)]

    def havoc(self, st, names, fields, spec, node, alloc=False):
        h = st.copy()
        if alloc:
            self.advance_clock(h)  # objects are never deallocated: the clock only moves forward
        rb = rebound_names(node.body) if hasattr(node, "body") else set()
        for n in names:
            v = st.env.get(n)
            if n not in rb and n not in st.rebound and v is not None and self.is_mutable_container(v):
                h.mutated.add(n)  # mutated in place by the loop body (caller-visible if it is a parameter)
        for n in sorted(names):
            v = st.env.get(n)
            if v is None:
                h.env.pop(n, None)
                continue
            t = (spec.locals.get(n) if spec else None) or (self.c.locals.get(n) if self.c else None) or (self.c.ghost_vars[n][0] if self.c and n in self.c.ghost_vars else None)
            if t is None:
                t = v.ty
            if t is PYOBJ:
                if v.is_py and isinstance(v.py, Closure_types()):
                    continue
                raise ContractMisfit(f"loop at line {node.lineno} modifies '{n}' whose type must be declared in the contract (locals)")
            h.env[n] = Val(t, fresh(t, n))
            self.assume_allocated(h, h.env[n])
        for k in sorted(self.havoc_keys(st, fields)):
            if k in st.heap:
                srt = st.heap[k].sort()
            else:
                # a field that is first touched INSIDE the loop has no array in the state yet: it must be havocked
                # all the same (otherwise the state after the loop would read the initial heap)
                ft = api.CLASSES[k[0]].fields.get(k[1]) if k[0] in api.CLASSES else None
                if ft is None:
                    continue
                srt = z3.ArraySort(T.RefSort, ft.sort())
            h.heap[k] = z3.Const(fresh_name(f"H_{k[0]}_{k[1]}"), srt)
            h.ghost[("wline", k)] = getattr(node, "lineno", None)
        return h

    def havoc_keys(self, st, fields):
        """heap arrays denoted by a loop's field set: entries are field NAMES (any class), (class, field) pairs,
        or "*" (every field)."""
        keys = set()
        for k in st.heap:
            if field_hit(k, fields):
                keys.add(k)
        for f in fields:
            if isinstance(f, tuple):
                keys.add(f)
            else:
                for cs in api.CLASSES.values():
                    for fn in cs.fields:
                        if f == "*" or fn == f:
                            keys.add((cs.name, fn))
        return keys

    def check_havoc_complete(self, before: State, after: State, names, fields, node, collect=None):
        """Everything the body changed must have been havocked.  With `collect` (discovery pass) the
        missing names / heap fields are gathered instead of being an internal error."""
        for k, v in after.env.items():
            if k in names or k.startswith("_ghost"):
                continue
            b = before.env.get(k)
            if b is None:
                continue  # loop-local variable
            if v is b:
                continue
            if v is not None and not v.is_py and not b.is_py and z3.eq(v.term, b.term):
                continue
            if v is not None and is_const(v) and is_const(b) and v.py == b.py:
                continue
            if v is not None and v.is_py and b.is_py and v.py is b.py:
                continue
            if collect is not None:
                collect[0].add(k)
                continue
            raise ContractMisfit(f"internal: loop at line {node.lineno} changes '{k}' which was not havocked")
        for k, arr in after.heap.items():
            b = before.heap.get(k)
            if b is not None and z3.eq(arr, b):
                continue
            if b is None and arr.decl().name().startswith("H0_"):
                continue
            if collect is not None and len(collect) > 3:
                collect[3].add(k)  # every heap array the body actually writes (for narrowing the havoc set)
            if field_hit(k, fields):
                continue
            if collect is not None:
                collect[1].add(k)
                continue
            raise ContractMisfit(f"internal: loop at line {node.lineno} writes heap field {k} which was not havocked")
        if after.alloc is not None and (before.alloc is None or not z3.eq(after.alloc, before.alloc)):
            if collect is not None:
                collect[2].add("alloc")

    def discover_mods(self, run_body, names, fields):
        """Discovery passes: execute the body from a havocked state with all obligations discarded, until
        the set of modified variables / heap fields is stable (constructors and model methods write fields
        that no syntactic scan sees)."""
        for _ in range(6):
            n_ob = len(self.obligations)
            names_snapshot = dict(self._names)
            pend = self.pending
            found = (set(), set(), set(), set())
            try:
                run_body(found)
            finally:
                del self.obligations[n_ob:]
                self._names = names_snapshot
                self.pending = pend
            new_n = found[0] - names
            new_f = found[1] - fields
            if not new_n and not new_f:
                self.last_written = found[3]
                return bool(found[2])
            names |= new_n
            fields |= new_f
        raise ContractMisfit("loop modification set did not stabilise")

    def narrow_fields(self, fields):
        """After discovery: the loop's havoc set becomes exactly the heap arrays (class, field) that the body was
        SEEN to write on some path (field names from the syntactic scan denote that field in every class, which
        forgets far too much).  Sound: the final pass re-checks that every array the body changes is in the set."""
        if "*" in fields:
            return set(fields)
        return set(self.last_written)

    def mark_item_aliases(self, target, st):
        """`for xs in d.values(): xs.append(..)`: the loop variable is the very container stored in the iterated container; the
        engine binds a COPY (value semantics), so mutating it in place would lose the write: refused (unless `alias_ok`)."""
        for n in ast.walk(target):
            if isinstance(n, ast.Name) and n.id not in getattr(self.c, "alias_ok", ()):
                v = st.env.get(n.id)
                if v is not None and self.is_mutable_container(v):
                    st.escaped.add(n.id)

    def drop_linked_names(self, names, body, st, node):
        """a local that is a LINK to a heap field (it aliases the field's container) is not a loop variable of its own: its
        value lives in the heap (havocked there).  Re-binding it inside the loop would make the link depend on the iteration."""
        rb = rebound_names(body)
        for k_ in [k_ for k_ in st.ghost if isinstance(k_, tuple) and k_[0] == "link"]:
            if k_[1] in rb:
                raise Unsupported(f"the local '{k_[1]}' aliases a heap container and is re-bound inside the loop", node)
            names.discard(k_[1])

    def drop_object_names(self, names, body, st, extra=()):
        """`obj[k] = v` / `obj.append(x)` on a local that holds an OBJECT reference does not rebind the local: the
        effect is a heap write (found by the discovery pass), the reference itself survives the loop."""
        rb = rebound_names(body) | set(extra)
        for n in list(names):
            v = st.env.get(n)
            if n not in rb and v is not None and not v.is_py and isinstance(v.ty, T.Ref):
                names.discard(n)

    def ghost_assigned(self, body):
        out = set()
        if not (self.c and self.c.ghost):
            return out
        for top in body:
            for n in ast.walk(top):
                if isinstance(n, ast.stmt):
                    g = self.c.ghost.get(ast.unparse(n).split("\n")[0])
                    if g:
                        for src in g:
                            out |= assigned_names(ast.parse(src).body)[0]
        return out

    def callee_effects(self, calls, st):
        """names/fields modified through contract calls inside a loop body."""
        names, fields = set(), set()
        for c in calls:
            key = None
            implicit = 0
            f = c.func
            try:
                if isinstance(f, ast.Name) and f.id not in st.env:
                    fv = self.resolve_global(f.id, f, st)
                    from .symex import FuncRef

                    if fv.is_py and isinstance(fv.py, FuncRef) and fv.py.obj is not None:
                        key = f"{getattr(fv.py.obj, '__module__', '?')}:{getattr(fv.py.obj, '__qualname__', '?')}"
                elif isinstance(f, ast.Attribute) and isinstance(f.value, ast.Name) and f.value.id in st.env:
                    rv = st.env[f.value.id]
                    if rv is not None and isinstance(rv.ty, T.Ref):
                        m, kind = self.find_method_ex(self.class_of(rv.ty), f.attr)
                        if isinstance(m, str):
                            key = m
                            # (a callable key registered by hand in `methods=` routes the call itself: no offset)
                            implicit = 0 if (kind == "static" or callable(m)) else 1
                        elif m is not None:
                            eff = getattr(m, "modifies", None)
                            if eff:
                                fields |= set(x.split(".")[1] for x in eff)
            except (Unsupported, ContractMisfit):
                continue
            cc = api.CONTRACTS.get(self.c.calls.get(key, key)) if key else None
            if cc is not None:
                for m in cc.modifies:
                    if "." in m:
                        fields.add(m.split(".")[1])
                    else:
                        # container argument modified in place
                        from .extract import load_function

                        src = load_function(cc.target)
                        pn = [x.arg for x in src.fdef.args.posonlyargs + src.fdef.args.args][implicit:]
                        an = None
                        if m in pn and pn.index(m) < len(c.args):
                            an = c.args[pn.index(m)]
                        for kw in c.keywords:
                            if kw.arg == m:
                                an = kw.value
                        while isinstance(an, (ast.Subscript, ast.Attribute)):
                            if isinstance(an, ast.Attribute):
                                fields.add(an.attr)
                                break
                            an = an.value
                        if isinstance(an, ast.Name):
                            names.add(an.id)
        return names, fields

    # ---- for ---------------------------------------------------------------------------------------------------
    def s_For(self, node, st):
        res = []
        pre = st.copy()
        save = self.pending
        self.pending = []
        try:
            itv = self.eval(node.iter, st)
            pend = self.pending
        finally:
            self.pending = save
        for cond, exc, n, snap in pend:
            s2 = snap  # the state in which the exception is raised (facts and effects up to that point)
            s2.assume(cond)
            res.append((s2, Outcome("raise", exc=exc, line=getattr(n, "lineno", None))))
            st.assume(z3.Not(cond))
        spec, htxt = self.loop_spec(node)
        auto = False
        if itv.is_py and isinstance(itv.py, (set, frozenset)) and len(itv.py) > 1 and not (spec is not None and (spec.unroll or spec.invariants)) and isinstance(node.target, ast.Name):
            # the loop variable names an attribute (`getattr(obj, attr)` / `setattr` / `hasattr`) and ranges over a LITERAL set of
            # names: only unrolling can execute the body (attribute names must be concrete)
            for n_ in ast.walk(ast.Module(body=node.body, type_ignores=[])):
                if (isinstance(n_, ast.Call) and isinstance(n_.func, ast.Name) and n_.func.id in ("getattr", "setattr", "hasattr", "delattr")
                        and len(n_.args) >= 2 and isinstance(n_.args[1], ast.Name) and n_.args[1].id == node.target.id):
                    auto = True
                    break
        if auto or (spec is not None and spec.unroll and itv.is_py and isinstance(itv.py, (set, frozenset))):
            # literal set unrolled in sorted order at the contract's request: the body's independence of the
            # iteration order is then an assumption of this contract (recorded)
            self._unroll_sets = True
            self.assumptions_used.add(f"iteration order of the literal set at line {node.lineno} taken as sorted (order-independence of the loop body not proved)")
        try:
            info = self.iter_info(itv, st, node)
        finally:
            self._unroll_sets = False
        if info.kind == "concrete" and (spec is None or spec.unroll or auto):
            return res + self.unroll(node, info.items, st)
        if spec is None:
            spec = api.Loop()
        names, fields, calls = assigned_names(node.body)
        names |= self.ghost_assigned(node.body)
        tn, _, _ = assigned_names([ast.Assign(targets=[node.target], value=ast.Constant(0))])
        cn, cf = self.callee_effects(calls, st)
        names |= cn
        fields |= cf
        # iterating a container that the body mutates in place has different semantics in Python
        root = node.iter
        if isinstance(root, ast.Name) and root.id in names:
            raise Unsupported(f"loop iterates '{root.id}' while mutating it", node)
        if isinstance(root, ast.Attribute) and root.attr in fields:
            raise Unsupported(f"loop iterates field '{root.attr}' while mutating it", node)
        self.drop_object_names(names, node.body, st, tn)
        self.drop_linked_names(names, node.body, st, node)
        ix = spec.index or f"_ghost_i{node.lineno}"
        dn = spec.done or f"_ghost_done{node.lineno}"
        for g in (spec.index, spec.done, spec.seq):
            if g and g in st.env:
                raise ContractMisfit(f"ghost name '{g}' clashes with a program variable")
        if info.kind == "concrete":
            # concrete items but an invariant was supplied: treat as indexed over a lifted list
            lv = Val(PYOBJ, None, list(info.items), True)
            et = info.items[0].ty if info.items else T.INT
            s = lift(lv, T.List(et))
            info = IterInfo("indexed", n=z3.Length(s), item=lambda i: Val(et, s[i]), seqval=Val(T.List(et), s))
        ghosts = {}
        if info.kind == "indexed":
            ghosts[ix] = Val.const(0)
            if spec.seq and info.seqval is not None:
                ghosts[spec.seq] = info.seqval
        else:
            ghosts[dn] = Val(T.Set(info.elem), z3.K(info.elem.sort(), z3.BoolVal(False)))
        # 1. establish
        st.env.update(ghosts)
        for nm, src in self.inv_items(spec):
            self.oblige(st, self.clause(src, st), "inv.init", f"{nm}@L{node.lineno}", node, info={"clause": src})
        # 2. arbitrary iteration
        exits = []
        alloc_changes = [False]

        def iteration(collect=None):
            h = self.havoc(st, names - tn, fields, spec, node, alloc=alloc_changes[0])
            if info.kind == "indexed":
                i = z3.Int(fresh_name(ix))
                h.assume(z3.And(i >= 0, i < info.n))
                h.env[ix] = Val(T.INT, i)
                item = info.item(i)
                for f in info.facts(i):
                    h.assume(f)
            else:
                d = fresh(T.Set(info.elem), dn)
                x = fresh(info.elem, "elem")
                h.env[dn] = Val(T.Set(info.elem), d)
                h.assume(z3.IsSubset(d, info.set_term))
                h.assume(z3.Select(info.set_term, x))
                h.assume(z3.Not(z3.Select(d, x)))
                item = Val(info.elem, x)
            for nm, src in self.inv_items(spec):
                h.assume(z3bool(self.clause(src, h)))
            self.assume_allocated(h, item)
            hb = h.copy()
            self.bind_target(node.target, item, hb, node)
            self.mark_item_aliases(node.target, hb)
            body_in = hb.copy()
            out_res = []
            for s2, o in self.exec_block(node.body, hb):
                if o.kind in ("normal", "continue"):
                    self.check_havoc_complete(body_in, s2, names | tn | set(ghosts), fields, node, collect)
                    if collect is not None:
                        continue
                    if info.kind == "indexed":
                        s2.env[ix] = Val(T.INT, i + 1)
                    else:
                        s2.env[dn] = Val(T.Set(info.elem), z3.Store(d, x, z3.BoolVal(True)))
                    for nm, src in self.inv_items(spec):
                        self.oblige(s2, self.clause(src, s2), "inv.step", f"{nm}@L{node.lineno}", node, info={"clause": src})
                elif o.kind == "break":
                    self.check_havoc_complete(body_in, s2, names | tn | set(ghosts), fields, node, collect)
                    if collect is None:
                        exits.append(s2)
                elif collect is None:
                    out_res.append((s2, o))
            return out_res

        alloc_changes[0] = self.discover_mods(iteration, names, fields)
        fields = self.narrow_fields(fields)
        res += iteration()
        # 3. exit by exhaustion
        e = self.havoc(st, names - tn, fields, spec, node, alloc=alloc_changes[0])
        if info.kind == "indexed":
            e.env[ix] = Val(T.INT, info.n)
        else:
            e.env[dn] = Val(T.Set(info.elem), info.set_term)
        for nm, src in self.inv_items(spec):
            e.assume(z3bool(self.clause(src, e)))
        # loop target after the loop: last element if any; conservatively unbound
        for n in tn:
            if n not in st.env:
                e.env[n] = None
        outs = self.exec_block(node.orelse, e) if node.orelse else [(e, Outcome("normal"))]
        for s2 in exits:
            outs.append((s2, Outcome("normal")))
        for s2, o in outs:
            for g in ghosts:
                pass  # ghosts stay visible to later clauses (post may mention them? no: removed)
        return res + outs

    def unroll(self, node, items, st):
        res = []
        live = [st]
        if len(items) > 64:
            raise Unsupported("unrolling more than 64 iterations", node)
        for it in items:
            nxt = []
            for cur in live:
                self.bind_target(node.target, it, cur, node)
                self.mark_item_aliases(node.target, cur)
                base = len(cur.pc)
                ends = []
                for s2, o in self.exec_block(node.body, cur):
                    if o.kind in ("normal", "continue"):
                        ends.append(s2)
                    elif o.kind == "break":
                        res.append((s2, Outcome("normal")))
                    else:
                        res.append((s2, o))
                # join the paths of this iteration (they share the path condition up to `base`), as the `if` join does
                if len(ends) > 1 and getattr(self.c, "merge_branches", True):
                    merged = []
                    for s2 in ends:
                        for k, m0 in enumerate(merged):
                            if len(m0.pc) > base and len(s2.pc) > base:
                                m = self.merge(m0, s2, base)
                                if m is not None:
                                    merged[k] = m
                                    break
                        else:
                            merged.append(s2)
                    ends = merged
                nxt.extend(ends)
            live = nxt
            if len(live) > 64:
                raise Unsupported("path explosion while unrolling", node)
        for cur in live:
            if node.orelse:
                res.extend(self.exec_block(node.orelse, cur))
            else:
                res.append((cur, Outcome("normal")))
        return res

    # ---- while -------------------------------------------------------------------------------------------------
    def s_While(self, node, st):
        spec, htxt = self.loop_spec(node)
        if spec is None:
            spec = api.Loop()
        names, fields, calls = assigned_names(node.body)
        names |= self.ghost_assigned(node.body)
        cn, cf = self.callee_effects(calls, st)
        names |= cn
        fields |= cf
        self.drop_object_names(names, node.body, st)
        self.drop_linked_names(names, node.body, st, node)
        for nm, src in self.inv_items(spec):
            self.oblige(st, self.clause(src, st), "inv.init", f"{nm}@L{node.lineno}", node, info={"clause": src})
        res = []
        exits = []
        alloc_changes = [False]
        state = {}

        def iteration(collect=None):
            h = self.havoc(st, names, fields, spec, node, alloc=alloc_changes[0])
            for nm, src in self.inv_items(spec):
                h.assume(z3bool(self.clause(src, h)))
            out_res = []
            pre = h.copy()
            save = self.pending
            self.pending = []
            try:
                c = self.cond(node.test, h)
                pend = self.pending
            finally:
                self.pending = save
            for cond, exc, n, snap in pend:
                s2 = snap  # the state in which the exception is raised (facts and effects up to that point)
                s2.assume(cond)
                if collect is None:
                    out_res.append((s2, Outcome("raise", exc=exc, line=getattr(n, "lineno", None))))
                h.assume(z3.Not(cond))
            state["c"], state["h"] = c, h
            if c is not False:
                hb = h.copy()
                hb.assume(z3bool(c))
                body_in = hb.copy()
                for s2, o in self.exec_block(node.body, hb):
                    if o.kind in ("normal", "continue"):
                        self.check_havoc_complete(body_in, s2, names, fields, node, collect)
                        if collect is not None:
                            continue
                        for nm, src in self.inv_items(spec):
                            self.oblige(s2, self.clause(src, s2), "inv.step", f"{nm}@L{node.lineno}", node, info={"clause": src})
                    elif o.kind == "break":
                        self.check_havoc_complete(body_in, s2, names, fields, node, collect)
                        if collect is None:
                            exits.append(s2)
                    elif collect is None:
                        out_res.append((s2, o))
            return out_res

        alloc_changes[0] = self.discover_mods(iteration, names, fields)
        fields = self.narrow_fields(fields)
        res += iteration()
        c, h = state["c"], state["h"]
        outs = []
        if c is not True:
            e = h.copy()
            e.assume(z3bool(z_not(c)))
            outs = self.exec_block(node.orelse, e) if node.orelse else [(e, Outcome("normal"))]
        for s2 in exits:
            outs.append((s2, Outcome("normal")))
        return res + outs

    # ---- try / with ------------------------------------------------------------------------------------------------
    def handler_names(self, h):
        if h.type is None:
            return None
        ts = h.type.elts if isinstance(h.type, ast.Tuple) else [h.type]
        out = set()
        for t in ts:
            if isinstance(t, ast.Name):
                out.add(t.id)
            elif isinstance(t, ast.Attribute):
                out.add(t.attr)
            else:
                raise Unsupported("exception handler type", h)
        return out

    def s_Try(self, node, st):
        caught = []
        for h in node.handlers:
            caught.append(self.handler_names(h))
        allc = None if any(c is None for c in caught) else set().union(*caught) if caught else set()
        self.try_stack.append(allc)
        try:
            outs = self.exec_block(node.body, st)
        finally:
            self.try_stack.pop()
        res = []
        for s2, o in outs:
            if o.kind == "raise":
                handled = False
                for h, names in zip(node.handlers, caught):
                    if self.exc_matches(o.exc, names):
                        if h.name:
                            from .symex import ExcVal

                            s2.env[h.name] = Val.obj(ExcVal(o.exc))
                        save = getattr(self, "_current_exc", None)
                        self._current_exc = o.exc
                        try:
                            res.extend(self.exec_block(h.body, s2))
                        finally:
                            self._current_exc = save
                        handled = True
                        break
                if not handled:
                    res.append((s2, o))
            elif o.kind == "normal" and node.orelse:
                res.extend(self.exec_block(node.orelse, s2))
            else:
                res.append((s2, o))
        if node.finalbody:
            fin = []
            for s2, o in res:
                for s3, o3 in self.exec_block(node.finalbody, s2):
                    fin.append((s3, o if o3.kind == "normal" else o3))
            res = fin
        return res

    def s_With(self, node, st):
        for item in node.items:
            ce = item.context_expr
            ok = False
            if isinstance(ce, ast.Call):
                f = ce.func
                nm = f.id if isinstance(f, ast.Name) else f.attr if isinstance(f, ast.Attribute) else None
                if nm in TIMER_NAMES:
                    ok = True
            if not ok:
                raise Unsupported("with statement (only timer wrappers are dropped)", node)
            self.dropped.append(f"L{node.lineno}: with {ast.unparse(ce)[:50]} (body kept)")
        return self.exec_block(node.body, st)

    # ---- function driver ---------------------------------------------------------------------------------------------
    def run(self):
        """Generate all obligations of this function against its contract."""
        c = self.c
        fdef = self.src.fdef
        self._loops_seen = set()
        st = State()
        a = fdef.args
        pnames = [x.arg for x in a.posonlyargs + a.args + a.kwonlyargs]
        for n in c.params:
            if n not in pnames:
                raise ContractMisfit(f"{c.key}: contract parameter '{n}' is not a parameter of the function")
        defaults = dict(zip([x.arg for x in a.posonlyargs + a.args][-len(a.defaults):] if a.defaults else [], a.defaults))
        for ko, d in zip(a.kwonlyargs, a.kw_defaults):
            if d is not None:
                defaults[ko.arg] = d
        for n in pnames:
            t = c.params.get(n)
            if t is None:
                if n in defaults:
                    # unspecified parameter: fixed to its default value (stated in the evidence)
                    st.env[n] = self.eval(defaults[n], st)
                    self.param_defaults.append(n)
                    continue
                raise ContractMisfit(f"{c.key}: parameter '{n}' has no type in the contract")
            if isinstance(t, api.Const):
                st.env[n] = Val.const(t.value) if isinstance(t.value, ops._CT) else Val.obj(t.value)
            else:
                st.env[n] = Val(t, z3.Const(n, t.sort()))
                self.assume_allocated(st, st.env[n])
        init_env = dict(st.env)
        self.spec_mode = False
        self.is_generator = is_generator_def(fdef)
        if self.is_generator:
            # a generator function: `yield e` appends e to the hidden list `__yield__`; the "return value" the contract
            # speaks about is the list of all yielded values (exact for consumers that exhaust the generator at once)
            if not isinstance(c.returns, T.List):
                raise ContractMisfit(f"{c.key}: a generator function needs returns=List(<yielded type>)")
            if c.modifies:
                raise Unsupported("generator function with `modifies`: its effects would interleave with the consumer")
            c.locals = {**c.locals, "__yield__": c.returns}
            st.env["__yield__"] = coerce(Val(PYOBJ, None, [], True), c.returns)
        for r in c.requires:
            st.assume(z3bool(self.clause(r, st)))
        # vacuity guard: the precondition must be satisfiable
        self.oblige(st, z3.BoolVal(False), "cover", "requires-satisfiable", fdef, expect_fail=True)
        self._ghost_seen = set()
        self._hints_seen = set()
        for gname, (gty, ginit) in c.ghost_vars.items():
            if gname in st.env or gname in pnames:
                raise ContractMisfit(f"ghost variable '{gname}' clashes with a program variable")
            self.spec_mode = True
            st.env[gname] = coerce(self.eval(ast.parse(ginit, mode="eval").body, st), gty)
            self.spec_mode = False
        old = st.copy()
        self.old_state = None
        self.entry_state = old
        # (a parameter listed in `modifies` may be re-bound in the body, e.g. `if visited is None: visited = set()`:
        # on such a path the caller sees the value the parameter had when it was re-bound, see assign_target)
        self._params = set(pnames)
        outs = self.exec_block(fdef.body, st)
        n_ret = 0
        for s2, o in outs:
            ln = o.line or getattr(fdef, "end_lineno", 0)
            if o.kind in ("break", "continue"):
                raise Unsupported("break/continue outside loop")
            # parameters that alias a heap field (`obj.field = param`): the caller's object is what the field holds now
            for n in pnames:
                lk = s2.ghost.get(("link", n))
                if lk is not None and n in s2.env and n not in s2.rebound:
                    s2.env[n] = self.read_field(s2, lk[0], lk[2])
                    del s2.ghost[("link", n)]
            if o.kind in ("normal", "return"):
                self.check_frame(s2, old, init_env, ln)
            penv = dict(s2.env)
            for n in pnames:
                if n not in c.modifies and n in init_env:
                    penv[n] = init_env[n]
                elif n in c.modifies and n in s2.rebound:
                    # re-bound on this path: what the caller's object looks like is its value at the re-binding
                    penv[n] = s2.ghost.get(("param_final", n), init_env.get(n))
            s2.env = penv
            self.old_state = old
            if o.kind in ("normal", "return"):
                n_ret += 1
                rv = o.value if o.value is not None else Val.const(None)
                if self.is_generator:
                    rv = s2.env["__yield__"]
                if c.returns is not None and not isinstance(c.returns, T.Union):
                    rv = self.resolve_union(rv, s2)  # a Union value whose alternative the path fixes is returned at that alternative
                if c.returns is not None and not isinstance(c.returns, T.Opt) and isinstance(rv.ty, T.Opt) and not rv.is_py:
                    rv = self.deopt(rv, s2, None)  # the contract promises a value: "the returned value is not None" is an obligation
                if c.returns is not None:
                    try:
                        rv = coerce(rv, c.returns)
                    except (ContractMisfit, Unsupported) as e:
                        raise ContractMisfit(f"{c.key}: return value at line {ln}: {e}")
                self.result = rv
                s2.env["result"] = rv
                for nm, e in c.ensures.items():
                    self.oblige(s2, self.clause(e, s2), "post", f"{nm}@L{ln}", None, info={"clause": e})
                for exc, cnd in c.raises.items():
                    o_ = old.copy()
                    o_.pc = s2.pc
                    self.oblige(s2, z_not(self.clause(cnd, o_)), "raises", f"no-{exc}@L{ln}", None, info={"clause": cnd})
                for nm, e in c.canaries.items():
                    self.oblige(s2, self.clause(e, s2), "canary", f"{nm}@L{ln}", None, expect_fail=True, info={"clause": e})
            elif o.kind == "raise":
                if o.exc not in c.raises:
                    self.oblige(s2, z3.BoolVal(False), "raises", f"unexpected-{o.exc}@L{ln}", None)
                else:
                    o_ = old.copy()
                    o_.pc = s2.pc
                    self.oblige(s2, self.clause(c.raises[o.exc], o_), "raises", f"{o.exc}@L{ln}", None, info={"clause": c.raises[o.exc]})
            self.old_state = None
        for hkey in c.hints:
            if hkey not in self._hints_seen:
                raise ContractMisfit(f"{c.key}: hint is attached to a statement that does not occur: '{hkey}'")
        for g in c.ghost:
            if g not in self._ghost_seen:
                raise ContractMisfit(f"{c.key}: ghost update is attached to a statement that no longer exists: '{g}'")
        for h in c.loops:
            if h not in self._loops_seen:
                raise ContractMisfit(f"{c.key}: loop contract '{h}' matches no loop in the function")
        return self.obligations

    def check_frame(self, s2, old, init_env, ln):
        """`modifies` is what callers rely on: (a) every heap array the body changed without declaring it in
        `modifies` must be unchanged on every object that existed at entry (stores to objects the function
        allocated itself are invisible to callers); (b) a container parameter that is not listed must not have been
        mutated in place (`State.mutated`, see assign_target)."""
        c = self.c
        import os

        if os.environ.get("PYVC_CHECK_MODIFIES", "1") == "0":
            return
        t0 = old.alloc if old.alloc is not None else z3.Int("now0")
        from .symex import BIRTH

        for k in sorted(s2.heap):
            arr = s2.heap[k]
            ent = old.heap.get(k)
            if ent is None:
                ent = z3.Const(f"H0_{k[0]}_{k[1]}", arr.sort())
            if z3.eq(arr, ent) or f"{k[0]}.{k[1]}" in c.modifies:
                continue
            r = z3.Const(fresh_name("fr"), T.RefSort)
            # "<param>.field" entries: that object is exempt
            exempt = [lift(init_env[p]) for p, pt in c.params.items()
                      if isinstance(pt, T.Ref) and pt.cls == k[0] and f"{p}.{k[1]}" in c.modifies and p in init_env and not init_env[p].is_py]
            goal = z3.ForAll([r], z3.Implies(z3.And(BIRTH(r) < t0, *[r != e for e in exempt]), z3.Select(arr, r) == z3.Select(ent, r)))
            w = s2.ghost.get(("wline", k))
            self.oblige(s2, goal, "modifies", f"{k[0]}.{k[1]}-unchanged.written-L{w}@L{ln}", None,
                        info={"clause": f"{c.key}: heap field {k[0]}.{k[1]} is written (last store / call / loop at line {w}) but not listed in modifies: it must be unchanged on every object that existed at entry. Add \"{k[0]}.{k[1]}\" (or \"<param>.{k[1]}\" if only that object is written) to modifies."})
        for n in sorted(getattr(s2, "mutated", ())):
            if n in init_env and n not in c.modifies:
                v0, v1 = init_env[n], s2.env.get(n)
                if v1 is None or v1 is v0 or (not v0.is_py and not v1.is_py and z3.eq(v0.term, v1.term)):
                    continue
                try:
                    same = ops.equal(v1, v0)
                except (Unsupported, ContractMisfit):
                    same = False
                self.oblige(s2, same, "modifies", f"{n}-unchanged@L{ln}", None,
                            info={"clause": f"{c.key}: parameter {n} is mutated in place but not listed in modifies: its final value must equal the initial one. Add \"{n}\" to modifies."})

    def param_is_rebound(self, fdef, name):
        for n in ast.walk(fdef):
            if isinstance(n, ast.Assign):
                for t in n.targets:
                    if isinstance(t, ast.Name) and t.id == name:
                        return True
            if isinstance(n, ast.AugAssign) and isinstance(n.target, ast.Name) and n.target.id == name:
                return True
        return False


def is_generator_def(fdef):
    """does the function body (not nested defs / lambdas) contain a yield?"""
    todo = list(fdef.body)
    while todo:
        n = todo.pop()
        if isinstance(n, (ast.Yield, ast.YieldFrom)):
            return True
        if isinstance(n, (ast.FunctionDef, ast.AsyncFunctionDef, ast.Lambda, ast.ClassDef)):
            continue
        todo.extend(ast.iter_child_nodes(n))
    return False


def field_hit(k, fields):
    return k in fields or k[1] in fields or "*" in fields


def Closure_types():
    from .exprs import Closure
    from .symex import FuncRef

    return (Closure, FuncRef)


def _load(t):
    import copy

    t2 = copy.deepcopy(t)
    for n in ast.walk(t2):
        if hasattr(n, "ctx"):
            n.ctx = ast.Load()
    return t2
