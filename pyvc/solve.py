"""Discharge obligations: SMT-LIB2 files + external solver processes (portfolio, pool)."""
from __future__ import annotations

import ast
import concurrent.futures as cf
import inspect
import os
import re
import subprocess
import textwrap
import time
from dataclasses import dataclass, field

import z3

from . import api
from . import ty as T
from .core import Obligation, State, Val

SOLVERS = {
    "z3-5.1": ["z3-new", "-smt2"],
    "z3-5.1/ematch": ["z3-new", "-smt2", "smt.mbqi=false", "smt.random_seed=7"],
    # without the array extensionality axioms: a strictly weaker prover, so its `unsat` is as good as any other; its
    # `sat` may be spurious and is ignored.  Proves set-valued-dict obligations in milliseconds that the others lose.
    "z3-5.1/noext": ["z3-new", "-smt2", "smt.array.extensional=false"],
    "z3-5.1/arith2": ["z3-new", "-smt2", "smt.arith.solver=2"],
    "z3-4.8": ["/usr/bin/z3", "-smt2"],
    "z3-4.8/ematch": ["/usr/bin/z3", "-smt2", "smt.mbqi=false"],
    "cvc5": ["/usr/bin/cvc5", "--lang=smt2", "--strings-exp", "--arrays-exp"],
}
PORTFOLIO = ("z3-5.1", "cvc5", "z3-5.1/noext", "z3-5.1/ematch", "z3-4.8", "z3-5.1/arith2", "z3-4.8/ematch")

# Confirmation step.  z3 (both installed versions) has answered `unsat` on satisfiable files that combine the dict
# well-formedness quantifier, a datatype and seq.extract (selftest/solver_regress/z3_seq_extract.smt2: E-matching
# bug).  Every `unsat` on a file with quantifiers + sequences/datatypes is therefore re-run with configurations whose
# quantifier machinery differs (E-matching off, model-based instantiation on; cvc5).  A `sat` from any of them means
# the obligation is NOT discharged (verdict `disagree`); unsat answers are recorded in `confirmed_by`.
CONFIRM = {
    "z3-5.1/noematch": ["z3-new", "-smt2", "smt.ematching=false", "smt.mbqi=true"],
    "z3-4.8/noematch": ["/usr/bin/z3", "-smt2", "smt.ematching=false", "smt.mbqi=true"],
    "cvc5/confirm": ["/usr/bin/cvc5", "--lang=smt2", "--strings-exp", "--arrays-exp", "--produce-models"],
}
SOLVERS.update(CONFIRM)


@dataclass
class Result:
    name: str
    kind: str
    status: str  # proved | refuted | unknown | error
    solver: str | None = None
    time_s: float = 0.0
    smt_file: str | None = None
    model: str | None = None
    expect_fail: bool = False
    attempts: list = field(default_factory=list)
    line: int | None = None
    info: dict = field(default_factory=dict)
    confirmed_by: list = field(default_factory=list)  # every configuration that answered unsat (the prover first)
    disagree: dict | None = None  # {"solver":, "model":} when a confirmation run answered sat (status == "disagree")
    confirm_attempts: list = field(default_factory=list)
    risky_pattern: bool = False  # the file combines seq.extract with quantifiers (z3 has answered `unsat` wrongly on such files)
    second_opinion: bool = False  # some configuration other than the prover also answered unsat
    vacuity_probe: str | None = None  # answer of the proving configuration on the HYPOTHESES ONLY (no negated goal): sat / unknown / timeout / unsat
    vacuous: bool = False  # the hypotheses alone are `unsat` for the prover and cvc5 certified neither the proof nor the infeasibility => status unknown
    seq_string: bool = False  # the file has sequences of strings `(Seq String)` under quantifiers: z3 has answered `unsat` wrongly on such files with NO configuration contradicting it (selftest/solver_regress/uncaught_*); for the evidence: proofs on such files that only z3 found

    @property
    def ok(self):
        if self.expect_fail:
            return self.status in ("refuted", "unknown")
        return self.status == "proved"


# ---- spec function unfolding ---------------------------------------------------------------------------


_spec_apps_cache: dict = {}  # id of a top-level term -> (term kept alive, [spec applications in it])


def _spec_apps_of(t0):
    hit = _spec_apps_cache.get(t0.get_id())
    if hit is not None:
        return hit[1]
    seen = set()
    out = []
    stack = [t0]
    while stack:
        t = stack.pop()
        tid = t.get_id()
        if tid in seen:
            continue
        seen.add(tid)
        if z3.is_quantifier(t):
            stack.append(t.body())
            continue
        if z3.is_app(t):
            nm = t.decl().name()
            if nm.startswith("spec_") and nm[5:] in api.SPECFNS:
                out.append(t)
            stack.extend(t.children())
    if len(_spec_apps_cache) > 100000:
        _spec_apps_cache.clear()
    _spec_apps_cache[t0.get_id()] = (t0, out)
    return out


def _spec_apps(terms):
    """the applications of spec functions inside `terms`.  The hypotheses of one path are shared (as the same term objects) by
    all of its obligations, so the walk is memoised per top-level term."""
    seen = set()
    out = []
    for t0 in reversed(list(terms)):  # (the order of the former single depth-first walk: it decides the order of the axioms)
        for a in _spec_apps_of(t0):
            if a.get_id() not in seen:
                seen.add(a.get_id())
                out.append(a)
    return out


def _has_bound_var(t):
    """does the term contain a de Bruijn variable that is bound OUTSIDE of it?  (variables of quantifiers that lie inside the
    term are not free in it)"""
    stack = [(t, 0)]
    seen = set()
    while stack:
        x, depth = stack.pop()
        key = (x.get_id(), depth)
        if key in seen:
            continue
        seen.add(key)
        if z3.is_var(x):
            if z3.get_var_index(x) >= depth:
                return True
        elif z3.is_quantifier(x):
            stack.append((x.body(), depth + x.num_vars()))
        elif z3.is_app(x):
            stack.extend((c_, depth) for c_ in x.children())
    return False


_specsrc: dict = {}


def _spec_fdef(sf):
    if sf.name not in _specsrc:
        src = textwrap.dedent(inspect.getsource(sf.fn))
        tree = ast.parse(src)
        fdef = tree.body[0]
        fdef.decorator_list = []
        if fdef.body and isinstance(fdef.body[0], ast.Expr) and isinstance(fdef.body[0].value, ast.Constant):
            fdef.body = fdef.body[1:]
        _specsrc[sf.name] = fdef
    return _specsrc[sf.name]


def unfold_axioms(terms, extra_fuel=0):
    """Definitional instances of the spec functions applied in `terms` (ground, fuel-bounded)."""
    from .symex import Executor

    axioms = []
    done = {}
    frontier = [(a, 0) for a in _spec_apps(terms)]
    while frontier:
        frontier.sort(key=lambda p: -p[1])  # shallowest last -> popped first
        app, depth = frontier.pop()
        sf = api.SPECFNS[app.decl().name()[5:]]
        if sf.opaque or depth > sf.fuel + extra_fuel - 1:
            continue
        if app.get_id() in done:
            continue
        if _has_bound_var(app):
            continue
        done[app.get_id()] = app
        fdef = _spec_fdef(sf)
        dummy = api.FnContract(target="spec:" + sf.name, props=[], params={})
        ex = Executor(dummy, None)
        ex.spec_mode = True
        ex.fn_name = "spec." + sf.name
        import sys

        ex.module = sys.modules[sf.fn.__module__]
        st = State()
        for (pn, pt), a in zip(sf.params, app.children()):
            st.env[pn] = Val(pt, a)
        outs = ex.exec_block(fdef.body, st)
        new_terms = []
        for s2, o in outs:
            if o.kind != "return":
                raise RuntimeError(f"spec function {sf.name}: path without return")
            from .core import lift

            # facts the engine assumed while executing the body because they hold of every real value (dict
            # well-formedness with its Skolem functions, ..) are asserted on their own; only the branch conditions guard
            # the defining equation
            thm = s2.ghost.get("__theorems__", frozenset())
            guards = [f for f in s2.pc if f.get_id() not in thm]
            for f in s2.pc:
                if f.get_id() in thm:
                    axioms.append(f)
            ax = z3.Implies(z3.And(*guards) if guards else z3.BoolVal(True), app == lift(o.value, sf.ret))
            axioms.append(ax)
            new_terms.append(ax)
        for a2 in _spec_apps(new_terms):
            frontier.append((a2, depth + 1))
    return axioms


# ---- SMT-LIB emission ------------------------------------------------------------------------------------------


_canon_cache: dict = {}


def canon_binders(t, depth=0):
    """The same formula with CANONICAL names for bound variables (`b<depth>_<k>`): z3 keeps binder names in the AST, and the
    engine draws them from a global counter, so two evaluations of one clause are different ASTs (also as sub-formulas) and
    the solvers have to re-derive a formula from its alpha-variant.  After renaming, alpha-equivalent (sub)formulas are the
    identical hash-consed term.  Done at emission only; the engine's own terms keep their unique binder constants."""
    key = (t.get_id(), depth)
    hit = _canon_cache.get(key)
    if hit is not None:
        return hit[1]
    if z3.is_quantifier(t):
        n = t.num_vars()
        consts = [z3.Const(f"b{depth}_{k}", t.var_sort(k)) for k in range(n)]
        inst = lambda e: z3.substitute_vars(e, *reversed(consts))  # noqa: E731  (var index 0 = the LAST bound variable)
        body = canon_binders(inst(t.body()), depth + 1)
        if t.is_lambda():
            r = z3.Lambda(consts, body)
        else:
            pats = []
            for i in range(t.num_patterns()):
                pats.append(z3.MultiPattern(*[canon_binders(inst(c), depth + 1) for c in t.pattern(i).children()]))
            nopats = [canon_binders(inst(t.no_pattern(i)), depth + 1) for i in range(t.num_no_patterns())]
            mk = z3.ForAll if t.is_forall() else z3.Exists
            r = mk(consts, body, weight=t.weight(), patterns=pats, no_patterns=nopats)
    elif z3.is_app(t) and t.num_args() > 0:
        # replace the maximal quantified sub-terms (those not below another binder)
        subs, stack, seen = [], [t], set()
        while stack:
            x = stack.pop()
            if x.get_id() in seen:
                continue
            seen.add(x.get_id())
            if z3.is_quantifier(x):
                y = canon_binders(x, depth)
                if not y.eq(x):
                    subs.append((x, y))
            elif z3.is_app(x):
                stack.extend(x.children())
        r = z3.substitute(t, *subs) if subs else t
    else:
        r = t
    if len(_canon_cache) > 300000:
        _canon_cache.clear()
    _canon_cache[key] = (t, r)
    return r


def to_smt2(ob: Obligation, extra_fuel=0) -> str:
    s = z3.Solver()
    hyps = list(ob.hyps)
    ax = unfold_axioms(hyps + [ob.goal], extra_fuel)
    # opt-in (per contract `canon_binders=True`, or PYVC_CANON_BINDERS=1): sharing alpha-equivalent sub-formulas makes some
    # obligations trivial and others (C03 setupTable_cmap.post.full-subtable-2) unprovable for every configuration
    canon = os.environ.get("PYVC_CANON_BINDERS", "0") == "1" or bool(ob.info.get("canon_binders"))
    for h in hyps + ax:
        s.add(canon_binders(h) if canon else h)
    s.add(z3.Not(canon_binders(ob.goal) if canon else ob.goal))
    txt = s.to_smt2()
    return reorder_datatypes(txt)


def _to_smt2_uncanon(ob: Obligation, extra_fuel=0) -> str:
    s = z3.Solver()
    hyps = list(ob.hyps)
    ax = unfold_axioms(hyps + [ob.goal], extra_fuel)
    for h in hyps + ax:
        s.add(h)
    s.add(z3.Not(ob.goal))
    txt = s.to_smt2()
    return reorder_datatypes(txt)


def reorder_datatypes(txt: str) -> str:
    """z3's printer may emit a datatype before one it mentions inside Seq/Array: sort topologically."""
    lines = txt.split("\n")
    idx = [i for i, l in enumerate(lines) if l.startswith("(declare-datatypes")]
    if idx:
        # uninterpreted sorts must be declared before any datatype that mentions them
        sorts = [i for i, l in enumerate(lines) if l.startswith("(declare-sort") and i > idx[0]]
        if sorts:
            moved = [lines[i] for i in sorts]
            lines = [l for i, l in enumerate(lines) if i not in set(sorts)]
            lines[idx[0]:idx[0]] = moved
            txt = "\n".join(lines)
            idx = [i for i, l in enumerate(lines) if l.startswith("(declare-datatypes")]
    if len(idx) < 2:
        return txt
    decls = [lines[i] for i in idx]
    names = [re.match(r"\(declare-datatypes \(\((\S+) ", d).group(1) for d in decls]
    deps = {n: {m for m in names if m != n and re.search(r"[ (]" + re.escape(m) + r"[ )]", d)} for n, d in zip(names, decls)}
    order, placed = [], set()
    while len(order) < len(names):
        progress = False
        for n, d in zip(names, decls):
            if n not in placed and deps[n] <= placed:
                order.append(d)
                placed.add(n)
                progress = True
        if not progress:
            return txt
    first = idx[0]
    rest = [l for i, l in enumerate(lines) if i not in set(idx)]
    return "\n".join(rest[:first] + order + rest[first:])


def write_smt2(ob: Obligation, outdir: str, extra_fuel=0) -> str:
    os.makedirs(outdir, exist_ok=True)
    fn = re.sub(r"[^A-Za-z0-9_.@#-]", "_", ob.name) + ".smt2"
    p = os.path.join(outdir, fn)
    txt = to_smt2(ob, extra_fuel)
    if any(tok in txt for tok in ("setminus", "(lambda ", "(union ", "(intersection ", "(_ map", "(subset ", "as union", "as intersection", "as setminus")):
        _no_cvc5.add(p)
    with open(p, "w") as f:
        f.write(f"; obligation {ob.name} kind={ob.kind} line={ob.line}\n")
        if ob.info.get("clause"):
            f.write("; clause: " + ob.info["clause"].replace("\n", " ") + "\n")
        f.write(txt)
        f.write("(get-model)\n")
    return p


_no_cvc5: set = set()


_CVC5_KEYWORDS = ("include",)  # symbols that cvc5's parser takes for commands: written as quoted symbols (same SMT-LIB symbol)
_SYM = r"\w|!.@#$%^&*~+\-/<>=?"


def cvc5_text(txt: str) -> str:
    for kw in _CVC5_KEYWORDS:
        txt = re.sub(rf"(?<![{_SYM}]){kw}(?![{_SYM}])", f"|{kw}|", txt)
    return ("" if "(set-logic" in txt else "(set-logic ALL)\n") + txt


def run_solver(solver: str, path: str, timeout: float):
    cmd = list(SOLVERS[solver])
    if solver.startswith("z3"):
        if timeout != int(timeout):
            # a fractional budget (the vacuity probe): soft limit in ms, hard limit rounded up (`-T:0` would mean no limit)
            cmd += [f"-t:{max(1, int(timeout * 1000))}", f"-T:{int(timeout) + 1}", path]
        else:
            cmd += [f"-T:{max(1, int(timeout))}", path]
    else:
        cmd += [f"--tlimit={int(timeout * 1000)}", _cvc5_file(path, ".cvc5.smt2")]
    t0 = time.time()
    try:
        r = subprocess.run(cmd, capture_output=True, text=True, timeout=timeout + 10)
        out = r.stdout
    except subprocess.TimeoutExpired:
        return "timeout", "", time.time() - t0
    dt = time.time() - t0
    first = out.strip().split("\n", 1)[0].strip() if out.strip() else ""
    if first in ("sat", "unsat", "unknown"):
        rest = out.strip().split("\n", 1)[1] if "\n" in out.strip() else ""
        return first, rest, dt
    if "timeout" in out:
        return "timeout", out, dt
    return "error", (out + r.stderr)[:2000], dt


_cvc5_done: dict = {}  # path of the cvc5 variant -> (mtime_ns, size) of the source it was made from


def _cvc5_file(path: str, suffix: str) -> str:
    """the cvc5 variant of an SMT-LIB file (explicit logic, quoted keywords): written once per source file version, not once
    per solver round"""
    p2 = path[:-5] + suffix
    try:
        stt = os.stat(path)
        sig = (stt.st_mtime_ns, stt.st_size)
    except OSError:
        sig = None
    if sig is not None and _cvc5_done.get(p2) == sig and os.path.exists(p2):
        return p2
    with open(path) as f:
        txt = f.read()
    with open(p2, "w") as f:
        f.write(cvc5_text(txt))
    if sig is not None:
        _cvc5_done[p2] = sig
    return p2


def needs_confirmation(path: str) -> bool:
    try:
        with open(path) as f:
            txt = f.read()
    except OSError:
        return False
    return "(forall " in txt and ("seq." in txt or "(declare-datatypes" in txt)


def risky_file(path: str) -> bool:
    """seq.extract together with quantifiers: the shape of two of the three known wrong `unsat` answers of z3"""
    try:
        with open(path) as f:
            txt = f.read()
    except OSError:
        return False
    return "seq.extract" in txt and "(forall " in txt


_probe_cache: dict = {}
_probe_lock = None


def hyps_only_text(txt: str):
    """the SMT-LIB text without its LAST assertion (the negated goal; write order of to_smt2), or None"""
    end = txt.rfind("(check-sat)")
    i = txt.rfind("\n(assert", 0, end if end >= 0 else len(txt))
    if i < 0 or end < 0:
        return None
    return txt[:i] + "\n" + txt[end:]


def vacuity_probe(path: str, prover: str, timeout: float, proof_time: float | None = None):
    """Run `prover` (and cvc5 when it says unsat) on the hypotheses of the file alone.
    -> (answer of the prover, answer of cvc5 or None).  Results are cached per hypotheses text (all the postconditions of one
    path share their hypotheses)."""
    import hashlib
    import threading

    global _probe_lock
    if _probe_lock is None:
        _probe_lock = threading.Lock()
    try:
        with open(path) as f:
            txt = f.read()
    except OSError:
        return None, None
    body = "\n".join(l for l in txt.split("\n") if not l.startswith(";"))
    hy = hyps_only_text(body)
    if hy is None:
        return None, None
    key = (hashlib.md5(hy.encode()).hexdigest(), prover)
    # Budget: a prover that finds the hypotheses contradictory does so by the derivation that "proved" the goal, i.e. within
    # about the time of the proof (measured on C05 quick: the 9 `unsat` answers among 465 probes came within 0.07 s; 328 probes
    # ran into the 2 s limit on satisfiable hypotheses and made up half of the wall time of the property).  So the probe gets
    # max(0.5 s, 4 x proof time), at most the tier budget.
    if proof_time is not None and os.environ.get("PYVC_PROBE_FULL", "0") != "1":
        timeout = min(timeout, max(0.5, round(4 * proof_time, 1)))
    while True:
        with _probe_lock:
            hit = _probe_cache.get(key)
            if hit is not None and not isinstance(hit, threading.Event) and (hit[0] in ("sat", "unsat") or hit[2] >= timeout):
                return hit[0], hit[1]  # (an open answer is only reused when it had at least this budget)
            if not isinstance(hit, threading.Event):
                ev = _probe_cache[key] = threading.Event()  # another obligation with the same hypotheses waits for this run
                break
        hit.wait(timeout + 20)
    a1 = a2 = None
    try:
        hp = path[:-5] + ".hyps.smt2"
        with open(hp, "w") as f:
            f.write(hy)
        if path in _no_cvc5:
            _no_cvc5.add(hp)
        a1 = run_solver(prover, hp, timeout)[0]
        if a1 == "unsat" and hp not in _no_cvc5:
            a2 = run_solver("cvc5", hp, max(timeout, 5.0))[0]
    finally:
        with _probe_lock:
            _probe_cache[key] = (a1, a2, timeout)
        ev.set()
    return a1, a2


def strict_seq(path: str) -> bool:
    """files on which z3's `unsat` has been seen to be wrong WITHOUT any configuration contradicting it (sequences of strings
    `(Seq String)` under quantifiers, selftest/solver_regress/uncaught_*.smt2).  With PYVC_STRICT_SEQ=1 an
    `unsat` on such a file counts only if a non-z3 solver (cvc5) answered `unsat` too."""
    if os.environ.get("PYVC_STRICT_SEQ", "0") != "1":
        return False
    try:
        with open(path) as f:
            txt = f.read()
    except OSError:
        return False
    return "(Seq String)" in txt and "(forall " in txt


def _solver_cmd(solver: str, path: str, timeout: float):
    cmd = list(SOLVERS[solver])
    if solver.startswith("z3"):
        if timeout != int(timeout):
            return cmd + [f"-t:{max(1, int(timeout * 1000))}", f"-T:{int(timeout) + 1}", path]
        return cmd + [f"-T:{max(1, int(timeout))}", path]
    return cmd + [f"--tlimit={int(timeout * 1000)}", _cvc5_file(path, ".cvc5c.smt2")]


def confirm(path: str, prover: str, timeout: float, z3_cap: float = 15.0):
    """Run the confirmation configurations concurrently.  -> (disagree | None, [configs that said unsat], attempts)
    The z3 noematch configurations rarely answer at all after the first seconds, so they are capped at `z3_cap` seconds; only
    cvc5 (a different code base, worth waiting for) gets the full budget of the thorough tier."""
    procs = {}
    limits = {}
    for name in CONFIRM:
        if name == prover or (name.startswith("cvc5") and (path in _no_cvc5 or prover == "cvc5")):
            continue
        limits[name] = timeout if name.startswith("cvc5") else min(timeout, z3_cap)
        try:
            procs[name] = (subprocess.Popen(_solver_cmd(name, path, limits[name]), stdout=subprocess.PIPE, stderr=subprocess.DEVNULL, text=True), time.time())
        except OSError:
            continue
    unsat, attempts, dis = [], [], None
    start = time.time()
    deadline = start + max(limits.values(), default=timeout) + 5
    pending = dict(procs)
    while pending:
        # one independent `unsat` is a confirmation: stop waiting for the others (after a short grace period in which a
        # quick `sat` — the wrong answers seen so far were contradicted within 0.1 s — would still be caught)
        enough = bool(unsat) and time.time() - start > 0.5
        for name, (p, t0) in list(pending.items()):
            if p.poll() is None and time.time() < deadline and dis is None and not enough:
                continue
            if p.poll() is None:
                p.kill()
                out = ""
            else:
                out = p.stdout.read() if p.stdout else ""
            del pending[name]
            first = out.strip().split("\n", 1)[0].strip() if out.strip() else ("stopped" if enough else "timeout")
            if first not in ("sat", "unsat", "unknown", "stopped"):
                first = "timeout" if "timeout" in out or not out.strip() else "error"
            attempts.append({"solver": name, "status": first, "time_s": round(time.time() - t0, 3), "limit_s": limits.get(name, timeout)})
            if first == "unsat":
                unsat.append(name)
            elif first == "sat" and dis is None:
                dis = {"solver": name, "model": out.split("\n", 1)[1][:6000] if "\n" in out else ""}
        if pending:
            time.sleep(0.02)
    return dis, unsat, attempts


def discharge_one(ob: Obligation, outdir: str, timeout: float, portfolio, extra_fuel=0) -> Result:
    try:
        path = write_smt2(ob, outdir, extra_fuel)
    except Exception as e:  # noqa
        return Result(ob.name, ob.kind, "error", model=f"emission failed: {e!r}", expect_fail=ob.expect_fail, line=ob.line, info=ob.info)
    res = Result(ob.name, ob.kind, "unknown", smt_file=path, expect_fail=ob.expect_fail, line=ob.line, info=ob.info)
    for solver in portfolio:
        st, out, dt = run_solver(solver, path, timeout)
        res.attempts.append({"solver": solver, "status": st, "time_s": round(dt, 3)})
        res.time_s += dt
        if st == "unsat":
            res.status, res.solver = "proved", solver
            return res
        if st == "sat":
            res.status, res.solver, res.model = "refuted", solver, out[:6000]
            return res
    return res


def solve_file(res: Result, timeout=10.0, portfolio=PORTFOLIO, confirm_unsat=True, rounds=None) -> Result:
    """Decide one SMT-LIB2 file (res.smt_file): portfolio with escalating budgets, then the confirmation step."""
    path = res.smt_file
    # escalating budgets: most proofs take milliseconds in some configuration; the long last round only runs
    # for what is still open, so that a busy machine does not flip a verdict to "unknown"
    if rounds is None or res.expect_fail:
        rounds = [min(timeout, 4.0)] if res.expect_fail else [3.0, timeout, max(60.0, 3 * timeout)]
    decided = False
    for rnd, tmo in enumerate(rounds):
        for solver in (portfolio[:2] if res.expect_fail else portfolio):
            if solver == "cvc5" and path in _no_cvc5:
                continue
            if rnd > 0 and any(a["solver"] == solver and a["status"] in ("unknown", "error") for a in res.attempts):
                continue  # a definite 'unknown' will not change with more time
            st, out, dt = run_solver(solver, path, tmo)
            if st == "sat" and solver.endswith("/noext"):
                st = "unknown"  # a model found without extensionality proves nothing
            res.attempts.append({"solver": solver, "status": st, "time_s": round(dt, 3), "limit_s": tmo})
            res.time_s += dt
            if st == "unsat":
                res.status, res.solver = "proved", solver
                res.confirmed_by = [solver]
                decided = True
                break
            if st == "sat":
                res.status, res.solver, res.model = "refuted", solver, out[:6000]
                decided = True
                break
        if decided:
            break
    # (an `unsat` of the old z3 4.8.12 is always re-examined: it has also been seen to answer unsat on a satisfiable
    # quantifier-free seq/array file, notes/C13.requests.md item 9)
    res.risky_pattern = (not res.expect_fail) and risky_file(path)
    try:
        with open(path) as f_:
            txt_ = f_.read()
        res.seq_string = "(Seq String)" in txt_ and "(forall " in txt_
    except OSError:
        pass
    if res.status == "proved" and not res.expect_fail and confirm_unsat and (needs_confirmation(path) or res.risky_pattern or str(res.solver).startswith("z3-4.8")):
        # thorough tier: a long budget, so that fewer proofs rest on z3 alone.  Quick tier: 3 s; the z3 noematch configurations
        # get 1.5 s unless the verdict depends on their answer (risky file: strict rule below).  Measured on C05 quick at load
        # 25: every confirmation that came at all came within 0.8 s (and the contradictions seen so far within 0.1 s), while 130
        # obligations waited the full 3 s for two processes that never answer.
        quick_cap = 15.0 if (timeout > 10 or res.risky_pattern or os.environ.get("PYVC_CONFIRM_FULL", "0") == "1") else 1.5
        dis, agree, att = confirm(path, res.solver, 3.0 if timeout <= 10 else 60.0, quick_cap)
        res.confirm_attempts = att
        res.confirmed_by += agree
        res.time_s += max([a["time_s"] for a in att], default=0.0)
        res.second_opinion = len(res.confirmed_by) > 1
        if dis is None and res.seq_string and str(res.solver).startswith("z3") and os.environ.get("PYVC_VACUITY_PROBE", "1") != "0":
            # VACUITY PROBE: does the prover call the hypotheses ALONE unsatisfiable?  Then the "proof" says nothing about the
            # goal: either the path is genuinely infeasible or it is z3's wrong `unsat` on (Seq String) quantifiers.  It only
            # stands when cvc5 certifies the proof itself or the infeasibility of the hypotheses.
            pt_ = max([a["time_s"] for a in res.attempts if a["solver"] == res.solver and a["status"] == "unsat"], default=None)
            a1, a2 = vacuity_probe(path, res.solver, 2.0 if timeout <= 10 else 5.0, pt_)
            res.vacuity_probe = a1
            if a1 == "unsat" and a2 != "unsat" and not any(str(c_).startswith("cvc5") for c_ in res.confirmed_by):
                res.vacuous = True
                res.info = dict(res.info, vacuous=f"{res.solver} finds the hypotheses alone unsat and cvc5 certifies neither the proof nor the infeasibility")
                # Measured on the quick tier: this also hits genuinely infeasible paths whose infeasibility needs quantifier
                # reasoning (the in-process pruner is quantifier-free) on files cvc5 cannot read (lambdas): 64 obligations of C05
                # getKerningGroups#own alone.  So the verdict only changes with PYVC_VACUITY_STRICT=1; by default the flag is
                # REPORTED (Result.vacuous) for the evidence.
                # .. except for contracts with seq_bridge=True: their positional bridge facts over ite-valued sequences have made
                # z3's E-matching call FEASIBLE hypotheses unsat (selftest/solver_regress/z3_seq_bridge_ite_core.smt2, found by
                # this probe on C06 colorGraph), so there the flag decides
                if os.environ.get("PYVC_VACUITY_STRICT", "0") == "1" or (res.info or {}).get("seq_bridge"):
                    res.status = "unknown"
        if (dis is None and res.risky_pattern and str(res.solver).startswith("z3") and not res.second_opinion
                and os.environ.get("PYVC_STRICT_RISKY", "1") != "0"):
            # strict rule (on by default): on a risky file a z3 `unsat` needs a second opinion (cvc5 or a noematch configuration)
            res.status = "unknown"
            res.info = dict(res.info, unconfirmed="z3-only unsat on a file with seq.extract under quantifiers (PYVC_STRICT_RISKY)")
        if dis is None and strict_seq(path) and not any(str(c_).startswith("cvc5") for c_ in res.confirmed_by):
            res.status = "unknown"  # only z3 says unsat on a file of the kind z3 is known to get wrong
            res.info = dict(res.info, unconfirmed="z3-only unsat on (Seq String)+seq.extract+quantifiers (PYVC_STRICT_SEQ=1)")
        if dis is not None:
            # two solver configurations contradict each other on this file: nothing is established
            res.status, res.disagree, res.model = "disagree", dis, dis["model"]
            try:
                with open(path[:-5] + ".disagree.txt", "w") as f:
                    f.write(f"; {res.solver} answered unsat, {dis['solver']} answered sat on {os.path.basename(path)}\n; command: {' '.join(SOLVERS[dis['solver']])}\n{dis['model']}\n")
            except OSError:
                pass
    if (res.status == "proved" and not res.expect_fail and confirm_unsat and res.vacuity_probe is None
            and os.environ.get("PYVC_PROBE_ALL", "0") == "1" and os.environ.get("PYVC_VACUITY_PROBE", "1") != "0"):
        # PROBE ALL (lead, after the engine freeze): the same hypotheses-only probe for EVERY discharged obligation, whatever the
        # theory mix of the file -- it also exposes an inconsistent symbolic state produced by the engine itself (seen once:
        # a guarded dict.update under merged branches, notes/C20.requests.md item 9), not only solver defects.
        pt_ = max([a["time_s"] for a in res.attempts if a["solver"] == res.solver and a["status"] == "unsat"], default=None)
        a1, a2 = vacuity_probe(path, res.solver, 2.0 if timeout <= 10 else 5.0, pt_)
        res.vacuity_probe = a1
        if a1 == "unsat" and a2 != "unsat" and not any(str(c_).startswith("cvc5") for c_ in res.confirmed_by):
            res.vacuous = True
            res.info = dict(res.info, vacuous=f"{res.solver} finds the hypotheses alone unsat and cvc5 certifies neither the proof nor the infeasibility")
            if os.environ.get("PYVC_VACUITY_STRICT", "0") == "1":
                res.status = "unknown"
    return res


def ordered_portfolio(first, portfolio=PORTFOLIO):
    """per-contract solver order (`FnContract(portfolio=[...])`): the configurations named come first, every other member of
    the default portfolio follows in its usual order -- the set of configurations tried is unchanged, only who gets the first
    3 seconds.  Unknown names are an error of the contract."""
    if not first:
        return portfolio
    bad = [n for n in first if n not in SOLVERS or n in CONFIRM]
    if bad:
        raise ValueError(f"portfolio: unknown solver configuration(s) {bad}; known: {list(PORTFOLIO)}")
    seen = []
    for n in list(first) + list(portfolio):
        if n not in seen:
            seen.append(n)
    return tuple(seen)


def discharge(obs, outdir, timeout=20.0, portfolio=PORTFOLIO, jobs=16, extra_fuel=0, confirm_unsat=None, rounds=None):
    if confirm_unsat is None:
        confirm_unsat = os.environ.get("PYVC_CONFIRM", "1") != "0"
    results = [None] * len(obs)
    # emission uses the z3 python API (not thread-safe): emit serially, solve in parallel
    paths = []
    for i, ob in enumerate(obs):
        try:
            paths.append(write_smt2(ob, outdir, extra_fuel))
        except Exception as e:  # noqa
            paths.append(None)
            results[i] = Result(ob.name, ob.kind, "error", model=f"emission failed: {e!r}", expect_fail=ob.expect_fail, line=ob.line, info=ob.info)

    def work(i):
        ob = obs[i]
        res = Result(ob.name, ob.kind, "unknown", smt_file=paths[i], expect_fail=ob.expect_fail, line=ob.line, info=ob.info)
        return i, solve_file(res, timeout, portfolio if ob.expect_fail else ordered_portfolio(ob.info.get("portfolio"), portfolio), confirm_unsat, rounds)

    with cf.ThreadPoolExecutor(max_workers=jobs) as pool:
        futs = [pool.submit(work, i) for i in range(len(obs)) if results[i] is None]
        for f in cf.as_completed(futs):
            i, r = f.result()
            results[i] = r
    return results
