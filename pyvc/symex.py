"""Symbolic executor / VC generator over the real function ASTs."""
from __future__ import annotations

import ast
import builtins as _bi
import importlib
import inspect

import z3

from . import api, ops
from . import ty as T
from .core import (
    PYOBJ,
    ContractMisfit,
    SplitGuard,
    Obligation,
    Outcome,
    State,
    Unsupported,
    Val,
    coerce,
    fresh,
    fresh_name,
    join_types,
    lift,
)
from .exprs import BoundMethod, Closure, ExprMixin, LambdaTag, bool_val, z_and, z_implies, z_not, z_or
from .extract import FunctionSource, load_function
from .loops import LoopMixin
from .stmts import StmtMixin
from .ops import is_const, z3bool

DEOPT_ARGS = {"builtins." + n for n in ("len", "sorted", "set", "frozenset", "list", "tuple", "min", "max", "range", "enumerate", "zip", "reversed", "abs", "int", "float", "dict")} | {"fontTools.misc.fixedTools.otRound", "fontTools.misc.roundTools.otRound"}
BIRTH = z3.Function("birth", T.RefSort, z3.IntSort())
LOGGER_NAMES = {"logger", "LOGGER", "log", "timing_logger"}
MUTATORS = {
    "append", "extend", "insert", "remove", "pop", "clear", "sort", "reverse", "update",
    "setdefault", "popitem", "add", "discard", "difference_update", "intersection_update",
    "symmetric_difference_update", "__setitem__", "__delitem__",
}


_mention_cache: dict = {}


def _mentions(term, ids) -> bool:
    """does the term contain one of the constants (given by AST id) free?"""
    key = (term.get_id(), frozenset(ids))
    if key in _mention_cache:
        return _mention_cache[key][1]
    seen, stack, hit = set(), [term], False
    while stack:
        t = stack.pop()
        i = t.get_id()
        if i in seen:
            continue
        seen.add(i)
        if i in ids:
            hit = True
            break
        if z3.is_quantifier(t):
            stack.append(t.body())
        elif z3.is_app(t):
            stack.extend(t.children())
    if len(_mention_cache) > 200000:
        _mention_cache.clear()
    _mention_cache[key] = (term, hit)  # the term is kept alive: ids are not reused
    return hit


def alpha_eq(a, b) -> bool:
    """structural equality of two terms modulo the NAMES of bound variables (z3 keeps binder names in the AST, and the
    engine names binders with a global counter: the same clause evaluated twice gives two different ASTs).
    The visited-pair table is optimistic (a pair is entered when it is first seen), which is only right within ONE
    comparison — any mismatch makes the whole comparison fail — so it must never be shared between comparisons."""
    memo = {}
    stack = [(a, b)]
    while stack:
        x, y = stack.pop()
        ix, iy = x.get_id(), y.get_id()
        if ix == iy or memo.get((ix, iy)):
            continue
        if z3.is_quantifier(x) or z3.is_quantifier(y):
            if not (z3.is_quantifier(x) and z3.is_quantifier(y)):
                return False
            if x.is_forall() != y.is_forall() or x.is_lambda() != y.is_lambda() or x.num_vars() != y.num_vars():
                return False
            if any(not x.var_sort(k).eq(y.var_sort(k)) for k in range(x.num_vars())):
                return False
            stack.append((x.body(), y.body()))
        elif z3.is_var(x) or z3.is_var(y):
            if not (z3.is_var(x) and z3.is_var(y)) or z3.get_var_index(x) != z3.get_var_index(y) or not x.sort().eq(y.sort()):
                return False
        elif z3.is_app(x) and z3.is_app(y):
            if not x.decl().eq(y.decl()) or x.num_args() != y.num_args():
                return False
            stack.extend(zip(x.children(), y.children()))
        else:
            return False
        memo[(ix, iy)] = True
    return True


class FuncRef:
    """A python function/class resolved from the real module namespace."""

    def __init__(self, obj, qual):
        self.obj = obj
        self.qual = qual

    def __repr__(self):
        return f"<ref {self.qual}>"

    def __eq__(self, o):
        return isinstance(o, FuncRef) and o.obj is self.obj and o.qual == self.qual

    def __hash__(self):
        return hash(self.qual)


class ImplicitCls:
    """the class object that Python passes implicitly to a @classmethod (the call site does not write it)"""

    def __init__(self, pycls):
        self.pycls = pycls

    def __repr__(self):
        return f"<implicit cls {getattr(self.pycls, '__qualname__', self.pycls)}>"


class SuperProxy:
    """value of `super()` inside a method of a repo class: (receiver, class whose MRO successors are searched)"""

    def __init__(self, recv, after):
        self.recv = recv
        self.after = after


class ExcVal:
    def __init__(self, name, args=()):
        self.name = name
        self.args = args


class Executor(ExprMixin, StmtMixin, LoopMixin):
    def __init__(self, contract: api.FnContract, src: FunctionSource | None, mode="code"):
        self.c = contract
        self.src = src
        self.obligations: list[Obligation] = []
        self.pending: list | None = None
        self.try_stack: list = []
        self.qstack: list = []
        self._attr_src = None
        self._last_attr = None
        self.qouter: list = []  # the states in which the enclosing quantifiers were opened (outermost first)
        self.qnames: list = []  # names bound by the enclosing quantifiers / comprehensions (for old())
        self.entry_state = None
        self.spec_mode = False
        self.old_state: State | None = None
        self.result: Val | None = None
        self.module = None
        self.assumptions_used: set[str] = set()
        self.dropped: list[str] = []
        self.fn_name = contract.target.split(":")[-1] if contract else "?"
        self.label_prefix = ""
        self.depth = 0
        self.param_defaults = []
        self._hints_seen = set()
        self._names = {}
        self._loops_seen = set()
        if src is not None:
            self.module = src.module

    # ---- obligations -----------------------------------------------------------------
    def oblige(self, st, goal, kind, label, node=None, expect_fail=False, info=None):
        goal = z3bool(goal)
        hyps = list(st.pc)
        if self.qstack:
            # facts of the path condition that mention the bound variables (comprehension filters, facts about the
            # element, callee postconditions) were assumed INSIDE the quantifier: they belong under it, next to the guards
            qids = {v.get_id() for vs, _ in self.qstack for v in vs}
            inner = [h for h in hyps if _mentions(h, qids)]
            if inner:
                hyps = [h for h in hyps if not _mentions(h, qids)]
                goal = z3.Implies(z3.And(*inner), goal)
        for vars_, guard in reversed(self.qstack):
            goal = z3.ForAll(vars_, z3.Implies(z3bool(guard), goal)) if vars_ else z3.Implies(z3bool(guard), goal)
        if not expect_fail and z3.is_quantifier(goal):
            # P |- P: a quantified goal that is literally one of the hypotheses (up to binder names) is closed here — the
            # solvers would otherwise have to re-derive the formula from itself by instantiation
            if any(z3.is_quantifier(h) and alpha_eq(goal, h) for h in hyps):
                goal = z3.BoolVal(True)
        if getattr(self.c, "canon_binders", False):
            info = dict(info or {}, canon_binders=True)
        if getattr(self.c, "seq_bridge", False):
            info = dict(info or {}, seq_bridge=True)
        if getattr(self.c, "portfolio", None):
            from . import solve as _solve

            _solve.ordered_portfolio(self.c.portfolio)  # (a misspelt configuration name fails here, at generation)
            info = dict(info or {}, portfolio=list(self.c.portfolio))
        name = f"{self.label_prefix}{self.fn_name}.{kind}.{label}"
        k = self._names.get(name, 0)
        self._names[name] = k + 1
        if k:
            name = f"{name}#{k}"
        self.obligations.append(
            Obligation(name, kind, hyps, goal, getattr(node, "lineno", None), info or {}, expect_fail)
        )

    def safety(self, st, cond, exc, node):
        cond = z3bool(cond)
        if z3.is_true(cond):
            return
        if self.spec_mode:
            return  # clause expressions are total in the logic (underspecified outside their domain)
        for caught in reversed(self.try_stack):
            if self.exc_matches(exc, caught):
                if self.pending is None or self.qstack:
                    raise Unsupported(f"{exc} caught from inside a nested expression", node)
                self.pending.append((z3.Not(cond), exc, node, st.copy()))
                st.assume(cond)  # what follows in this statement is only evaluated when the exception did not occur
                return
        if exc in self.c.raises and self.pending is not None and not self.qstack:
            self.pending.append((z3.Not(cond), exc, node, st.copy()))
            st.assume(cond)
            return
        ln = getattr(node, "lineno", 0)
        self.oblige(st, cond, "safe", f"{exc}@L{ln}", node)
        st.assume(cond) if not self.qstack else None

    def exc_matches(self, exc, caught):
        if caught is None:
            return True
        if exc in caught:
            return True
        b = getattr(_bi, exc, None)
        for cn in caught:
            cb = getattr(_bi, cn, None)
            if isinstance(b, type) and isinstance(cb, type) and issubclass(b, cb):
                return True
        return False

    # ---- registry helpers ---------------------------------------------------------------
    def class_of(self, t) -> api.ClassSpec:
        if not isinstance(t, T.Ref):
            raise Unsupported(f"{t} is not an object reference")
        cs = api.CLASSES.get(t.cls)
        if cs is None:
            raise ContractMisfit(f"class {t.cls} is not declared")
        return cs

    def real_class(self, cs):
        """the real python class behind a `repo=` class (None otherwise)"""
        if not cs.repo:
            return None
        mod, qn = cs.repo.split(":")
        o = importlib.import_module(mod)
        for part in qn.split("."):
            o = getattr(o, part)
        return o

    def find_method(self, cs, name, after=None):
        return self.find_method_ex(cs, name, after)[0]

    def find_method_ex(self, cs, name, after=None):
        """-> (model callable | contract key | None, kind) with kind in instance / static / class.
        `after`: resolve like super(after, self): only classes that FOLLOW `after` in the MRO of the real class."""
        if after is None and name in cs.methods:
            return cs.methods[name], "model"
        pycls = self.real_class(cs)
        if pycls is not None:
            mro = list(pycls.__mro__)
            if after is not None:
                if after not in mro:
                    raise Unsupported(f"super(): {after.__qualname__} is not a base of {pycls.__qualname__} (the class of the receiver {cs.name})")
                mro = mro[mro.index(after) + 1:]
            for k in mro:
                if name in k.__dict__:
                    raw = k.__dict__[name]
                    import functools as _ft

                    kind = ("static" if isinstance(raw, staticmethod) else "class" if isinstance(raw, classmethod)
                            else "property" if isinstance(raw, property) else "cached_property" if isinstance(raw, _ft.cached_property) else "instance")
                    if after is not None and f"{k.__qualname__}.{name}" in cs.methods:
                        return cs.methods[f"{k.__qualname__}.{name}"], "model"
                    key = f"{k.__module__}:{k.__qualname__}.{name}"
                    # a contract variant bound to this receiver class wins
                    for kk in (f"{key}#{cs.name}", key):
                        kk = self.c.calls.get(kk, kk) if self.c else kk
                        if kk in api.CONTRACTS:
                            return kk, kind
                    return None, kind
        return None, None

    # ---- heap -------------------------------------------------------------------------------
    def field_array(self, st, cls, name, t=None, create=False):
        k = (cls, name)
        if k not in st.heap:
            cs = api.CLASSES[cls]
            ft = cs.fields.get(name, t)
            if ft is None:
                raise Unsupported(f"field {cls}.{name} has no declared type")
            st.heap[k] = z3.Const(f"H0_{cls}_{name}", z3.ArraySort(T.RefSort, ft.sort()))
            if name not in cs.fields:
                cs.fields[name] = ft
        return st.heap[k]

    def read_field(self, st, recv: Val, name: str) -> Val:
        cs = self.class_of(recv.ty)
        pk = (str(recv.term), name)
        if pk in st.pyheap:
            return st.pyheap[pk]
        ft = cs.fields[name]
        arr = self.field_array(st, cs.name, name)
        r = lift(recv)
        self._attr_src = (recv, cs.name, name)
        # select(store(a, i, v), r): v when i is r; look through the store when i is a DIFFERENT object created by
        # `new_object` and r is a parameter or another new object (distinct by the allocation model)
        while z3.is_app(arr) and arr.decl().kind() == z3.Z3_OP_STORE:
            i = arr.arg(1)
            if z3.eq(i, r):
                v = Val(ft, arr.arg(2))
                self.note_ref(st, v)
                return v
            if self._definitely_distinct(i, r):
                arr = arr.arg(0)
                continue
            break
        v = Val(ft, z3.Select(arr, r))
        self.note_ref(st, v)
        return v

    def _definitely_distinct(self, i, r) -> bool:
        def kind(t):
            if z3.is_const(t) and t.decl().kind() == z3.Z3_OP_UNINTERPRETED:
                n = t.decl().name()
                if n.startswith("new_") and "!" in n:
                    return "new", n
                if self.c is not None and n in self.c.params and self.spec_mode is False and self.src is not None:
                    return "param", n
            return None, None

        ki, ni = kind(i)
        kr, nr = kind(r)
        if ki == "new" and kr == "new":
            return ni != nr
        return (ki == "new" and kr == "param") or (ki == "param" and kr == "new")

    def note_ref(self, st, v: Val, cond=None):
        """Heap well-formedness: a reference read out of an object's field / a container exists, i.e. is allocated at the
        time of the read (no state of a real execution holds a reference to an object that is yet to be created)."""
        if v.is_py or self.qstack:
            return
        t = v.ty
        if isinstance(t, T.Ref):
            f = self.is_allocated(st, v.term)
        elif isinstance(t, T.Opt) and isinstance(t.inner, T.Ref):
            s_ = t.sort()
            f = z3.Implies(s_.is_some(v.term), self.is_allocated(st, s_.val(v.term)))
        else:
            return
        key = ("alloc", v.term.get_id(), st.alloc.get_id() if st.alloc is not None else 0)
        if key in st.ghost:
            return
        st.ghost[key] = (v.term, len(st.pc))
        st.assume(f if cond is None else z3.Implies(cond, f))

    def write_field(self, st, recv: Val, name: str, v: Val, node=None, mutate=False):
        cs = self.class_of(recv.ty)
        if not mutate:
            # the field is RE-BOUND: locals that alias its old container keep that (old) object
            for k_, lk in [(k_, lk) for k_, lk in st.ghost.items() if isinstance(k_, tuple) and k_[0] == "link" and lk[1] == cs.name and lk[2] == name]:
                if z3.eq(lift(lk[0]), lift(recv)):
                    st.env[k_[1]] = self.read_field(st, lk[0], name)
                    del st.ghost[k_]
                elif not v.is_py and name in cs.fields and z3.eq(lift(v, cs.fields[name]), lift(self.read_field(st, lk[0], name))):
                    # `a.f = x; b.f = x`: the container the local aliases is stored into a second object's field as well -- the
                    # local's link is unaffected (if b is a, the same value is stored again).  The two fields now SHARE one
                    # container, which has no model: a later in-place change through either field is refused (below).
                    st.ghost[("shared", cs.name, name)] = getattr(node, "lineno", None)
                elif self.entails(st, lift(lk[0]) != lift(recv)):
                    pass  # a different object: what the local aliases is untouched
                else:
                    raise Unsupported(f"field {cs.name}.{name} is re-bound through another reference while the local '{k_[1]}' aliases its container", node)
        if mutate and ("shared", cs.name, name) in st.ghost:
            raise Unsupported(f"in-place change of {cs.name}.{name}: one container was stored into two objects' fields (line {st.ghost[('shared', cs.name, name)]}); sharing between fields is not modelled", node)
        if v.ty is PYOBJ and name not in cs.fields:
            # python-level value (closure, class, heterogeneous constant): kept outside the SMT heap, which is
            # only possible when the receiver is a definite object (a constant, not an ite/select term)
            if not (z3.is_const(recv.term) and recv.term.decl().kind() == z3.Z3_OP_UNINTERPRETED):
                raise Unsupported(f"python-level value stored into a field of a non-definite object ({cs.name}.{name})", node)
            st.pyheap[(str(recv.term), name)] = v
            return
        st.pyheap.pop((str(recv.term), name), None)
        if name not in cs.fields:
            if not cs.dynamic:
                raise Unsupported(f"store to undeclared field {cs.name}.{name}", node)
            t = v.ty
            if t is PYOBJ:
                raise Unsupported(f"cannot type dynamic field {cs.name}.{name} from {v}", node)
            cs.fields[name] = t
        ft = cs.fields[name]
        arr = self.field_array(st, cs.name, name)
        st.heap[(cs.name, name)] = z3.Store(arr, lift(recv), lift(v, ft))
        st.ghost[("wline", (cs.name, name))] = getattr(node, "lineno", None) or st.ghost.get(("wline", (cs.name, name)))

    # Allocation is modelled by birth stamps: every reference has a birth time (uninterpreted `birth`), the
    # state carries the current time `now`; allocated(r) == birth(r) < now.  Creating an object takes a fresh
    # reference born at `now` and advances the clock; calls and loops advance it by an unknown amount.
    # (Linear arithmetic only: no array-subset constraints, so every solver of the portfolio can take part.)
    def now(self, st):
        if st.alloc is None:
            st.alloc = z3.Int("now0")
        return st.alloc

    def is_allocated(self, st, r, at=None):
        return BIRTH(r) < (at if at is not None else self.now(st))

    def alloc_set(self, st):
        """the current allocation set as a set value (for clauses that quantify over existing objects)"""
        r = z3.Const("r!alloc", T.RefSort)
        return z3.Lambda([r], BIRTH(r) < self.now(st))

    def new_object(self, st, cls: str) -> Val:
        r = fresh(T.Ref(cls), "new_" + cls)
        n = self.now(st)
        st.assume(BIRTH(r) == n)
        st.alloc = n + 1
        return Val(T.Ref(cls), r)

    def advance_clock(self, st):
        n = self.now(st)
        m = z3.Int(fresh_name("now"))
        st.assume(m >= n)
        st.alloc = m
        return n, m

    def assume_allocated(self, st, v: Val):
        """the value (a reference, or references inside an Optional / a tuple) denotes objects that exist now"""
        if v.is_py:
            return
        if isinstance(v.ty, T.Ref):
            st.assume(self.is_allocated(st, v.term))
        elif isinstance(v.ty, T.Opt) and isinstance(v.ty.inner, (T.Ref, T.Tuple)):
            s_ = v.ty.sort()
            sub = State()
            sub.alloc = st.alloc
            self.assume_allocated(sub, Val(v.ty.inner, s_.val(v.term)))
            for f in sub.pc:
                st.assume(z3.Implies(s_.is_some(v.term), f))
            st.alloc = sub.alloc
        elif isinstance(v.ty, T.Tuple):
            ts = v.ty.sort()
            for k, it in enumerate(v.ty.items):
                if isinstance(it, (T.Ref, T.Opt, T.Tuple)):
                    self.assume_allocated(st, Val(it, ts.accessor(0, k)(v.term)))

    # ---- globals ------------------------------------------------------------------------------
    def resolve_global(self, n, node, st):
        if n in self.c.globals:
            g = self.c.globals[n]
            return g if isinstance(g, Val) else Val.const(g) if isinstance(g, ops._CT) else Val.obj(g)
        if self.spec_mode or n in api.SPECFNS:
            if n in api.SPECFNS:
                return Val.obj(api.SPECFNS[n])
        if self.module is not None and n in self.module.__dict__:
            return self.wrap_py(self.module.__dict__[n], n)
        if hasattr(_bi, n):
            return Val.obj(FuncRef(getattr(_bi, n), "builtins." + n))
        if self.spec_mode and n in SPEC_BUILTINS:
            return Val.obj(FuncRef(None, "spec." + n))
        raise Unsupported(f"unresolved name {n}", node)

    def wrap_py(self, o, n="?"):
        if isinstance(o, ops._CT) and not ops._has_val(o):
            return Val.const(o)
        import enum as _enum

        if isinstance(o, _enum.Enum):
            return Val(T.enum_type_of(o), None, o, True)  # a (non-int) enum member: a typed python-level constant
        if inspect.isfunction(o) or inspect.isclass(o) or inspect.isbuiltin(o) or inspect.ismethod(o):
            mod = getattr(o, "__module__", "?")
            return Val.obj(FuncRef(o, f"{mod}.{getattr(o, '__qualname__', n)}"))
        if inspect.ismodule(o):
            return Val.obj(o)
        return Val.obj(o)

    def py_getattr(self, o, name, node, st):
        if isinstance(o, FuncRef):
            o = o.obj
        if inspect.ismodule(o) or inspect.isclass(o):
            if not hasattr(o, name):
                raise Unsupported(f"{o!r} has no attribute {name}", node)
            return self.wrap_py(getattr(o, name), name)
        import enum as _enum

        if isinstance(o, _enum.Enum) and name in ("value", "name"):
            return self.wrap_py(getattr(o, name), name)
        if isinstance(o, SuperProxy):
            return Val.obj(BoundMethod(o.recv, name, after=o.after))
        if isinstance(o, ExcVal):
            raise Unsupported("attribute of exception value", node)
        raise Unsupported(f"attribute {name} of python object {o!r}", node)

    # ---- calls -----------------------------------------------------------------------------------
    def call(self, node, st) -> Val:
        from . import models

        fnode = node.func
        # logger-ish calls evaluate to None without evaluating arguments (dropped; listed)
        if isinstance(fnode, ast.Attribute) and self.is_logger(fnode.value):
            return Val.const(None)
        if isinstance(fnode, ast.Name) and fnode.id in ("all", "any") and len(node.args) == 1 and isinstance(node.args[0], ast.GeneratorExp) and fnode.id not in st.env:
            return self.quantified(fnode.id, node.args[0], st)
        if isinstance(fnode, ast.Name) and fnode.id == "old" and self.spec_mode:
            if self.old_state is None and getattr(self, "entry_state", None) is not None:
                # loop invariants / hints: old(e) is e in the state at function entry
                o = self.entry_state.copy()
                o.pc = st.pc
                self.bind_quantified(o, st)
                return self.eval(node.args[0], o)
            if self.old_state is None:
                raise ContractMisfit("old() outside a postcondition")
            save = self.old_state
            self.old_state = None
            try:
                o = save.copy()
                o.pc = st.pc
                self.bind_quantified(o, st)
                return self.eval(node.args[0], o)
            finally:
                self.old_state = save
        if isinstance(fnode, ast.Name) and fnode.id in SPEC_FORMS and self.spec_mode and fnode.id not in st.env:
            return SPEC_FORMS[fnode.id](self, node, st)
        if (
            isinstance(fnode, ast.Attribute) and fnode.attr in MUTATORS and isinstance(fnode.value, ast.Call)
            and isinstance(fnode.value.func, ast.Attribute) and fnode.value.func.attr == "setdefault" and len(fnode.value.args) == 2
        ):
            # d.setdefault(k, default).append(x): in-place update of the entry (created from `default` if absent)
            dnode = fnode.value.func.value
            d = self.deopt(self.eval(dnode, st), st, node)
            if isinstance(d.ty, T.Dict) and not d.is_py:
                k = self.deopt(self.eval(fnode.value.args[0], st), st, node)
                dflt = self.eval(fnode.value.args[1], st)
                s_ = d.ty.sort()
                has = z3.Select(s_.dom(lift(d)), lift(k, d.ty.k))
                cur = ops.ite(has, Val(d.ty.v, z3.Select(s_.map(lift(d)), lift(k, d.ty.k))), coerce(dflt, d.ty.v))
                args = [self.eval(a, st) for a in node.args]
                nv, res = models.mutate(self, st, cur, fnode.attr, args, {}, node)
                nd = models.set_item(self, st, d, k, nv, node)
                self.assign_target(dnode, nd, st, node, mutate=True)
                self.assumptions_used.add("python-container-semantics")
                return res
        if isinstance(fnode, ast.Attribute) and fnode.attr in MUTATORS:
            recv = self.eval(fnode.value, st)
            if not isinstance(recv.ty, T.Ref) and not (recv.is_py and recv.ty is PYOBJ and not isinstance(recv.py, (list, dict, set))):
                if fnode.attr == "extend" and len(node.args) == 1 and not node.keywords and self.is_dedupe_extend(node.args[0], fnode.value):
                    self.check_alias(fnode.value.id, st, node)
                    nv = self.extend_dedupe(st, recv, node.args[0], node)
                    self.assign_target(fnode.value, nv, st, node, mutate=True)
                    self.assumptions_used.add("python-container-semantics")
                    return Val.const(None)
                args = [self.eval(a, st) for a in node.args]
                kwargs = {k.arg: self.eval(k.value, st) for k in node.keywords}
                root = fnode.value
                while isinstance(root, ast.Subscript):
                    root = root.value
                if isinstance(root, ast.Name):
                    self.check_alias(root.id, st, node)
                    # CPython evaluates a generator argument LAZILY: `xs.extend(g for g in src if g not in xs)` sees the
                    # elements this very call has appended so far; the engine would evaluate it against the old value
                    for a in node.args:
                        if isinstance(a, ast.GeneratorExp) and any(isinstance(n, ast.Name) and n.id == root.id for n in ast.walk(a)):
                            raise Unsupported(f"generator argument of {fnode.attr}() reads '{root.id}', the container being mutated (evaluated lazily by Python)", node)
                nv, res = models.mutate(self, st, recv, fnode.attr, args, kwargs, node)
                self.assign_target(fnode.value, nv, st, node, mutate=True)
                self.assumptions_used.add("python-container-semantics")
                return res
        if (isinstance(fnode, ast.Attribute) and fnode.attr == "union" and len(node.args) == 1 and isinstance(node.args[0], ast.Starred) and not node.keywords
                and (isinstance(fnode.value, ast.Name) and fnode.value.id in ("set", "frozenset") and fnode.value.id not in st.env
                     or isinstance(fnode.value, ast.Call) and isinstance(fnode.value.func, ast.Name) and fnode.value.func.id in ("set", "frozenset") and not fnode.value.args)):
            # set.union(*xs) / set().union(*xs) over a list of sets of symbolic length: the big union
            sv = models.materialize(self, self.eval(node.args[0].value, st))
            if isinstance(sv.ty, T.List) and isinstance(sv.ty.elem, T.Set) and not sv.is_py:
                L = lift(sv)
                x = fresh(sv.ty.elem.elem, "ux")
                i = z3.Int(fresh_name("ui"))
                if isinstance(fnode.value, ast.Name):
                    # set.union(*[]) raises TypeError (the unbound method needs a receiver)
                    self.safety(st, z3.Length(L) > 0, "TypeError", node)
                return Val(sv.ty.elem, z3.Lambda([x], z3.Exists([i], z3.And(i >= 0, i < z3.Length(L), z3.Select(L[i], x)))))
        fv = self.eval(fnode, st)
        args = []
        for a in node.args:
            if isinstance(a, ast.Starred):
                sv = models.materialize(self, self.eval(a.value, st))
                n_known = self.known_length(st, sv) if (isinstance(sv.ty, T.List) and not sv.is_py) else None
                if n_known is not None:
                    # f(*xs) where the path condition fixes len(xs): the elements, position by position
                    args.extend(Val(sv.ty.elem, lift(sv)[k]) for k in range(n_known))
                    continue
                sv = self.deopt(sv, st, node) if isinstance(sv.ty, T.Opt) else sv
                if sv.is_py and isinstance(sv.py, (list, tuple)):
                    args.extend(x if isinstance(x, Val) else Val.const(x) for x in sv.py)
                elif isinstance(sv.ty, T.Tuple) and not sv.is_py:
                    # a tuple VALUE has a fixed arity: its components
                    ts = sv.ty.sort()
                    args.extend(Val(it, ts.accessor(0, k)(sv.term)) for k, it in enumerate(sv.ty.items))
                else:
                    raise Unsupported("*args of symbolic length", node)
            elif isinstance(a, ast.GeneratorExp):
                args.append(Val.obj(("genexp", a, st)))
            else:
                args.append(self.eval(a, st))
        kwargs = {}
        for k in node.keywords:
            if k.arg is None:
                kv = self.eval(k.value, st)
                if kv.is_py and isinstance(kv.py, dict):
                    for kk, vv in kv.py.items():
                        kwargs[kk] = vv if isinstance(vv, Val) else Val.const(vv)
                else:
                    raise Unsupported("**kwargs of a symbolic dict", node)
            else:
                kwargs[k.arg] = self.eval(k.value, st)
        return self.apply(fv, args, kwargs, st, node)

    def bind_quantified(self, o, st):
        """old(e) under quantifiers: the variables bound by the enclosing all()/any()/comprehensions keep their
        (current) values inside e; everything else is read in the old state."""
        for names in getattr(self, "qnames", ()):
            for n in names:
                if n in st.env:
                    o.env[n] = st.env[n]

    def known_length(self, st, v: Val, limit=16):
        """the length of a symbolic list when the path condition determines it (and it is small), else None"""
        ln = z3.Length(lift(v))
        sol = z3.Solver()
        sol.set("timeout", 300)
        from . import quick

        for p in quick.cone([p for p in st.pc if not z3.is_quantifier(p)], [ln]):
            sol.add(p)
        if sol.check() != z3.sat:
            return None
        try:
            c = sol.model().eval(ln, model_completion=True).as_long()
        except Exception:  # noqa
            return None
        if not 0 <= c <= limit:
            return None
        return c if self.entails(st, ln == c) else None

    def is_dedupe_extend(self, g, recv_node) -> bool:
        """`xs.extend(v for v in SRC if v not in xs)` with xs a plain name that SRC does not mention"""
        if not (isinstance(g, ast.GeneratorExp) and len(g.generators) == 1 and isinstance(recv_node, ast.Name)):
            return False
        gen = g.generators[0]
        if gen.is_async or len(gen.ifs) != 1 or not isinstance(gen.target, ast.Name) or not isinstance(g.elt, ast.Name) or g.elt.id != gen.target.id:
            return False
        if gen.target.id == recv_node.id:
            return False
        t = gen.ifs[0]
        if not (isinstance(t, ast.Compare) and len(t.ops) == 1 and isinstance(t.ops[0], ast.NotIn) and isinstance(t.left, ast.Name) and t.left.id == gen.target.id
                and isinstance(t.comparators[0], ast.Name) and t.comparators[0].id == recv_node.id):
            return False
        return not any(isinstance(n, ast.Name) and n.id == recv_node.id for n in ast.walk(gen.iter))

    def extend_dedupe(self, st, recv: Val, g, node) -> Val:
        """The real semantics of `xs.extend(v for v in SRC if v not in xs)`: CPython runs the generator LAZILY, so every
        membership test sees the elements this very call has appended so far -- a fold over SRC:

            for v in SRC:            # SRC evaluated once, before the first append
                if v not in xs: xs.append(v)

        * SRC of known (small) length: the fold is unrolled exactly (nested ite);
        * otherwise the appended part N is a fresh list described by facts that hold of the real result (and determine
          it): N[j] == SRC[pos(j)] with pos strictly increasing (first occurrences, in order), no N[j] in the old xs, N
          duplicate-free, every SRC[i] outside the old xs is in N, and no earlier SRC[i] equals N[j]."""
        from . import models
        from .core import seq_contains_elem

        if self.qstack:
            raise Unsupported("extend() with a generator inside a quantified expression", node)
        gen = g.generators[0]
        src = models._list(self, st, [self.eval(gen.iter, st)], {}, node)
        if recv.is_py and not isinstance(recv.py, list):
            raise Unsupported("extend() on a non-list", node)
        if isinstance(recv.ty, T.List) and not recv.is_py:
            lt = recv.ty
        elif isinstance(src.ty, T.List) and not src.is_py:
            lt = T.List(src.ty.elem) if type(src.ty) is not T.List else src.ty
        else:
            want = self.c.locals.get(getattr(node.func.value, "id", None)) if self.c else None
            if not isinstance(want, T.List):
                raise Unsupported("extend(<generator>) on a constant list from a constant source: declare the local's type", node)
            lt = want
        et = lt.elem
        if isinstance(et, T.Ref):
            pycls = self.real_class(self.class_of(et))
            if pycls is not None and any("__eq__" in vars(k) for k in pycls.__mro__ if k is not object):
                raise Unsupported(f"`not in` over objects of {pycls.__qualname__}, which defines __eq__", node)
        old = lift(recv, lt)
        items = None
        if src.is_py and isinstance(src.py, (list, tuple)):
            items = [lift(x if isinstance(x, Val) else Val.const(x), et) for x in src.py]
        elif isinstance(src.ty, T.List):
            k = self.known_length(st, src, limit=6)
            if k is not None:
                items = [lift(src)[i] for i in range(k)]
        else:
            raise Unsupported(f"extend(<generator>) over {src.ty}", node)
        if items is not None:
            cur = old
            for e in items:
                cur = z3.If(seq_contains_elem(cur, e), cur, z3.Concat(cur, z3.Unit(e)))
            return Val(lt, cur)
        S = lift(src, lt) if src.ty != lt else lift(src)
        N = z3.Const(fresh_name("ext_new"), lt.sort())
        pos = z3.Function(fresh_name("ext_pos"), z3.IntSort(), z3.IntSort())
        j, k, i = z3.Int(fresh_name("ej")), z3.Int(fresh_name("ek")), z3.Int(fresh_name("ei"))
        nN, nS = z3.Length(N), z3.Length(S)
        def forall(vs, body, *pats):
            try:
                return z3.ForAll(vs, body, patterns=list(pats))
            except z3.Z3Exception:
                return z3.ForAll(vs, body)  # (S is not a plain term: z3 rejects S[i] as a pattern)

        st.assume(nN <= nS)
        st.assume(forall([j], z3.Implies(z3.And(j >= 0, j < nN),
                                         z3.And(pos(j) >= 0, pos(j) < nS, N[j] == S[pos(j)], z3.Not(seq_contains_elem(old, N[j])))), N[j]))
        st.assume(forall([j, k], z3.Implies(z3.And(j >= 0, j < k, k < nN), z3.And(pos(j) < pos(k), N[j] != N[k])), z3.MultiPattern(N[j], N[k])))
        st.assume(forall([i], z3.Implies(z3.And(i >= 0, i < nS, z3.Not(seq_contains_elem(old, S[i]))), z3.Contains(N, z3.Unit(S[i]))), S[i]))
        st.assume(forall([j, i], z3.Implies(z3.And(j >= 0, j < nN, i >= 0, i < pos(j)), S[i] != N[j]), z3.MultiPattern(N[j], S[i])))
        return Val(lt, z3.Concat(old, N))

    def is_logger(self, n):
        if isinstance(n, ast.Name) and n.id in LOGGER_NAMES:
            return True
        if isinstance(n, ast.Attribute) and n.attr in LOGGER_NAMES:
            return True
        return False

    def apply(self, fv: Val, args, kwargs, st, node) -> Val:
        from . import models

        f = fv.py if fv.is_py else None
        if isinstance(f, Closure):
            return self.inline(f, args, kwargs, st, node)
        if isinstance(f, api.SpecFn):
            return self.apply_spec(f, args, st, node)
        if isinstance(f, BoundMethod):
            return self.call_method(f.recv, f.name, args, kwargs, st, node, after=f.after)
        if isinstance(f, FuncRef):
            q = f.qual
            # 1. a contract on a repo function
            if f.obj is not None:
                key = f"{getattr(f.obj, '__module__', '?')}:{getattr(f.obj, '__qualname__', '?')}"
                key = self.c.calls.get(key, key)
                if key in api.CONTRACTS:
                    if inspect.ismethod(f.obj) and inspect.isclass(f.obj.__self__):
                        # a classmethod reached through the class (`Cls.load(font)`): Python passes the class itself
                        return self.call_contract(api.CONTRACTS[key], [Val.obj(ImplicitCls(f.obj.__self__))] + list(args), kwargs, st, node, implicit=1)
                    return self.call_contract(api.CONTRACTS[key], args, kwargs, st, node)
            if q == "builtins.super" and not args and not kwargs and q not in self.c.models:
                return self.make_super(st, node)
            # 2. a trusted model (libraries, builtins); contract-local models take precedence
            if q in self.c.models:
                self.assumptions_used.add(f"{q} (model local to {self.c.key})")
                return self.c.models[q](self, st, args, kwargs, node)
            m = models.lookup(q, f.obj)
            if m is not None:
                self.assumptions_used.add(m.name)
                if q in DEOPT_ARGS:
                    args = [self.deopt(a, st, node) for a in args]
                return m.model(self, st, args, kwargs, node)
            # 3. enum classes: EnumClass(value) looks the member up (ValueError when there is none)
            import enum as _enum

            if inspect.isclass(f.obj) and issubclass(f.obj, _enum.Enum) and len(args) == 1 and not kwargs:
                et = T.Enum(f"{f.obj.__module__}:{f.obj.__qualname__}")
                a0 = self.deopt(args[0], st, node)
                if isinstance(a0.ty, T.Enum) and a0.ty == et:
                    return a0
                if is_const(a0) or (a0.is_py and isinstance(a0.py, _enum.Enum)):
                    try:
                        return self.wrap_py(f.obj(a0.py))
                    except ValueError:
                        self.safety(st, z3.BoolVal(False), "ValueError", node)
                        raise Unsupported("enum lookup of a constant that is no member value", node)
                vt = et.value_type()
                if vt is None or a0.ty != vt:
                    raise Unsupported(f"{f.obj.__name__}(<{a0.ty}>)", node)
                x = lift(a0)
                ms = et.members()
                mv = lambda m: z3.IntVal(int(m.value)) if vt == T.INT else z3.StringVal(m.value)  # noqa: E731
                self.safety(st, z3.Or(*[x == mv(m) for m in ms]), "ValueError", node)
                r = et.const(ms[-1])
                for m in reversed(ms[:-1]):
                    r = z3.If(x == mv(m), et.const(m), r)
                return Val(et, r)
            # 4. exception / declared classes
            if inspect.isclass(f.obj) and issubclass(f.obj, BaseException):
                return Val.obj(ExcVal(f.obj.__name__, args))
            if inspect.isclass(f.obj):
                cname = f.obj.__name__
                if cname in api.CLASSES:
                    return self.construct(api.CLASSES[cname], args, kwargs, st, node)
            raise Unsupported(f"call to {q}: no contract and no trusted model", node)
        if isinstance(fv.ty, T.Ref) and not fv.is_py:
            cs = self.class_of(fv.ty)
            m = self.find_method(cs, "__call__")
            if m is not None:
                return self.call_method(fv, "__call__", args, kwargs, st, node)
        raise Unsupported(f"call of {fv}", node)

    def make_super(self, st, node):
        """`super()` in a method of a repo class: the receiver + the class that defines the running method."""
        if self.src is None or self.c is None or ":" not in self.c.target:
            raise Unsupported("super() outside a method under contract", node)
        mod, qual = self.c.target.split("#")[0].split(":")
        parts = qual.split(".")
        if len(parts) < 2:
            raise Unsupported("super() outside a method", node)
        k = importlib.import_module(mod)
        for p_ in parts[:-1]:
            k = getattr(k, p_, None)
        if not inspect.isclass(k):
            raise Unsupported("super(): defining class not found", node)
        a = self.src.fdef.args
        first = (a.posonlyargs + a.args)
        recv = st.env.get(first[0].arg) if first else None
        if recv is None or recv.is_py or not isinstance(recv.ty, T.Ref):
            raise Unsupported("super(): the receiver is not an object reference", node)
        return Val.obj(SuperProxy(recv, k))

    def construct(self, cs, args, kwargs, st, node):
        init = self.find_method(cs, "__init__")
        obj = self.new_object(st, cs.name)
        if init is None:
            if args or kwargs:
                raise Unsupported(f"constructor {cs.name}(...) has no model", node)
            return obj
        if callable(init):
            init(self, st, obj, args, kwargs, node)
        else:
            self.call_contract(api.CONTRACTS[init], [obj] + args, kwargs, st, node)
        return obj

    def call_method(self, recv: Val, name, args, kwargs, st, node, after=None):
        from . import models

        recv = self.deopt(recv, st, node)

        if isinstance(recv.ty, T.Ref):
            cs = self.class_of(recv.ty)
            m, kind = self.find_method_ex(cs, name, after)
            if m is None:
                raise Unsupported(f"method {cs.name}.{name} has no contract or model" + (" (super)" if after else ""), node)
            if callable(m):
                self.assumptions_used.add(f"{cs.name}.{name}")
                return m(self, st, recv, args, kwargs, node)
            if kind == "static":  # self.m(...) / cls.m(...) on a @staticmethod: no receiver is passed
                return self.call_contract(api.CONTRACTS[m], list(args), kwargs, st, node, implicit=0)
            if kind == "class":  # @classmethod: the class of the receiver is passed
                return self.call_contract(api.CONTRACTS[m], [Val.obj(ImplicitCls(self.real_class(cs)))] + args, kwargs, st, node, implicit=1)
            return self.call_contract(api.CONTRACTS[m], [recv] + args, kwargs, st, node, implicit=1)
        return models.value_method(self, st, recv, name, args, kwargs, node)

    def bind_args(self, fdef, args, kwargs, node, skip_self=False):
        a = fdef.args
        names = [x.arg for x in a.posonlyargs + a.args]
        defaults = dict(zip(names[len(names) - len(a.defaults):], a.defaults))
        bound = {}
        if len(args) > len(names):
            if a.vararg is None:
                raise Unsupported("too many positional arguments", node)
        for n, v in zip(names, args):
            bound[n] = v
        for k, v in kwargs.items():
            if k in bound:
                raise Unsupported(f"duplicate argument {k}", node)
            bound[k] = v
        for ko, d in zip(a.kwonlyargs, a.kw_defaults):
            if ko.arg not in bound and d is not None:
                defaults[ko.arg] = d
            names.append(ko.arg)
        missing = {}
        for n in names:
            if n not in bound:
                if n not in defaults:
                    raise Unsupported(f"missing argument {n}", node)
                missing[n] = defaults[n]
        return bound, missing

    def inline(self, clo: Closure, args, kwargs, st, node, ret_ty=None):
        """Execute a nested def/lambda inline; must be heap-pure; paths merged by ite."""
        fdef = clo.node
        bound, missing = self.bind_args(fdef, args, kwargs, node)
        sub = st.copy()
        sub.env = dict(clo.env)
        for n, dnode in missing.items():
            bound[n] = self.eval(dnode, sub)
        sub.env.update(bound)
        if self.depth > 12:
            raise Unsupported("inline depth", node)
        self.depth += 1
        try:
            if isinstance(fdef, ast.Lambda):
                return self.eval(fdef.body, sub)
            outs = self.exec_block(fdef.body, sub)
        finally:
            self.depth -= 1
        res = None
        base = len(st.pc)
        rets = []
        for s2, o in outs:
            if o.kind == "normal":
                rets.append((s2, Val.const(None)))
            elif o.kind == "return":
                rets.append((s2, o.value))
            else:
                raise Unsupported("closure raising", node)
            if s2.heap != sub.heap and any(s2.heap.get(k) is not sub.heap.get(k) for k in s2.heap):
                raise Unsupported("closure with heap effects", node)
        for s2, v in reversed(rets):
            c = z_and(*s2.pc[base:])
            if ret_ty is not None:
                v = coerce(v, ret_ty)
            res = v if res is None else ops.ite(c, v, res)
        if res is None:
            # every path of the body is infeasible under the current path condition (e.g. a spec function inlined under a
            # contradictory guard): the value is irrelevant, any value of the right type will do
            if ret_ty is not None:
                return Val(ret_ty, fresh(ret_ty, "dead"))
            raise Unsupported("inlined function has no feasible path here", node)
        return res

    # ---- spec functions -----------------------------------------------------------------------------
    def spec_decl(self, sf: api.SpecFn):
        return z3.Function("spec_" + sf.name, *[t.sort() for _, t in sf.params], sf.ret.sort())

    def apply_spec(self, sf, args, st, node):
        if len(args) != len(sf.params):
            raise ContractMisfit(f"spec function {sf.name} arity")
        if not sf.opaque and not spec_is_recursive(sf):
            # non-recursive spec functions are macros: inlined at the use site
            from .solve import _spec_fdef
            import sys

            args = [coerce(a if isinstance(t, T.Opt) else self.deopt(a, st, node), t) for a, (_, t) in zip(args, sf.params)]
            clo = Closure(_spec_fdef(sf), {})
            save_mod, save_spec = self.module, self.spec_mode
            self.module, self.spec_mode = sys.modules[sf.fn.__module__], True
            try:
                r = self.inline(clo, args, {}, st, node, ret_ty=sf.ret)
            finally:
                self.module, self.spec_mode = save_mod, save_spec
            return coerce(r, sf.ret)
        zs = [lift(a if isinstance(t, T.Opt) else self.deopt(a, st, node), t) for a, (_, t) in zip(args, sf.params)]
        return Val(sf.ret, self.spec_decl(sf)(*zs))

    # ---- calls through contracts -------------------------------------------------------------------------
    def call_contract(self, cc: api.FnContract, args, kwargs, st, node, implicit=0):
        """`implicit`: number of leading arguments that Python supplies itself (self / cls): they have no
        counterpart in `node.args` (matters for writing modified container arguments back)."""
        src = load_function(cc.target)
        from .loops import is_generator_def

        if is_generator_def(src.fdef):
            if cc.modifies:
                raise Unsupported("call of a generator function whose contract has `modifies`", node)
            self.assumptions_used.add(f"generator {cc.key} is consumed eagerly (its contract describes the list of yielded values)")
        bound, missing = self.bind_args(src.fdef, args, kwargs, node)
        callee = Executor(cc, src)
        cst = State()
        cst.heap = st.heap
        cst.alloc = st.alloc
        cst.pc = st.pc
        for n, dnode in missing.items():
            bound[n] = callee.eval(dnode, cst)
        for n, t in cc.params.items():
            if n not in bound:
                raise ContractMisfit(f"{cc.key}: parameter {n} not in signature")
            if isinstance(t, api.Const):
                if not (bound[n].is_py and isinstance(bound[n].py, ImplicitCls)):
                    e = ops.equal(bound[n], Val.const(t.value))
                    self.oblige(st, e, "pre@callsite", f"{cc.key.split(':')[-1]}.{n}@L{getattr(node, 'lineno', 0)}", node)
                bound[n] = Val.const(t.value)
            else:
                if not isinstance(t, T.Opt):
                    bound[n] = self.deopt(bound[n], st, node)
                if isinstance(t, T.List) and bound[n].is_py:
                    from . import models as _models

                    ci_ = _models.carrier_info(bound[n])
                    if ci_ is not None:
                        bound[n] = _models.carrier_to_list(self, st, ci_, node)  # a dict view / range passed where the contract says List(T)
                bound[n] = coerce(bound[n], t) if bound[n].ty is not PYOBJ or is_const(bound[n]) or bound[n].is_py and isinstance(bound[n].py, (list, tuple, dict)) else bound[n]
        cst.env = dict(bound)
        callee.spec_mode = True
        ln = getattr(node, "lineno", 0)
        # the callee's pre-state is the caller's CURRENT state: `fresh(x)` / old() in a requires clause refer to it
        # (without this, `requires not fresh(a)` was evaluated against the caller's entry clock)
        if cst.alloc is None:
            cst.alloc = self.now(st)
        callee.old_state = cst
        for i, r in enumerate(cc.requires):
            g = callee.clause(r, cst)
            self.oblige(st, g, "pre@callsite", f"{cc.key.split(':')[-1]}.{i}@L{ln}", node, info={"clause": r})
            st.assume(z3bool(g))
        # exceptional exits
        pre = cst.copy()
        for exc, condsrc in cc.raises.items():
            cnd = z3bool(callee.clause(condsrc, pre))
            if self.pending is None:
                self.oblige(st, z3.Not(cnd), "safe", f"{exc}@L{ln}", node)
                st.assume(z3.Not(cnd))
            else:
                handled = any(self.exc_matches(exc, c) for c in self.try_stack) or exc in self.c.raises
                if handled:
                    self.pending.append((cnd, exc, node, st.copy()))
                else:
                    self.oblige(st, z3.Not(cnd), "safe", f"{exc}@L{ln}", node)
                    st.assume(z3.Not(cnd))
        # havoc what the callee may modify
        post = cst.copy()
        # a call under short-circuit / conditional-expression guards (`a and f(x)`, `f(x) if c else y`) only happens
        # when the guards hold: its effects are conditional on them
        active = [f for f in st.pc if getattr(f, "_is_guard", False)]
        if active and cc.modifies:
            # a guard that the rest of the path condition already implies (`any(True for g in glyphs) and f(..)` after a proved
            # hint `len(glyphs) > 0`) is no condition at all: the effects stay unconditional instead of ~15 ite terms
            from . import quick

            base_ = [f for f in st.pc if not getattr(f, "_is_guard", False)]
            active = [f for f in active if not (quick.ground(f) and quick.entails(base_, f))]
        if active and cc.modifies and getattr(self, "_split_ok", False):
            raise SplitGuard()  # the enclosing statement can make the guard an explicit `if`: simpler terms, exact frames
        heap_before, alloc_before = dict(st.heap), st.alloc
        for m in cc.modifies:
            if "." in m:
                cn, fn = m.split(".")
                if cn in cc.params and isinstance(cc.params[cn], T.Ref):
                    # "<param>.field": only THAT object's field may change (checked when the callee is verified)
                    ocls = cc.params[cn].cls
                    arr = self.field_array(st, ocls, fn)
                    ft = api.CLASSES[ocls].fields[fn]
                    st.heap[(ocls, fn)] = z3.Store(arr, lift(bound[cn]), fresh(ft, f"{fn}_post"))
                    st.ghost[("wline", (ocls, fn))] = getattr(node, "lineno", None)
                    continue
                arr = self.field_array(st, cn, fn)
                for k_, lk_ in st.ghost.items():
                    if isinstance(k_, tuple) and k_[0] == "link" and lk_[1] == cn and lk_[2] == fn:
                        self.assumptions_used.add(f"callee {cc.key} changes {cn}.{fn} IN PLACE (does not re-bind it) while the local '{k_[1]}' aliases that container")
                st.heap[(cn, fn)] = z3.Const(fresh_name(f"H_{cn}_{fn}"), arr.sort())
                st.ghost[("wline", (cn, fn))] = getattr(node, "lineno", None)
            else:
                v = bound[m]
                nv = Val(v.ty, fresh(v.ty, m + "_post"))
                post.env[m] = nv
        post.heap = st.heap
        res = None
        # the callee may allocate: the clock after the call is at or after the clock before
        # (so that `fresh(result)` in the callee's postcondition is consistent with "result is allocated now")
        a_before, a_after = self.advance_clock(st)
        pre.alloc = a_before
        post.alloc = a_after
        qvars = [v for vs, _ in self.qstack for v in vs]
        if qvars:
            # a call inside a comprehension / quantifier happens once PER binding of the bound variables
            if cc.modifies:
                raise Unsupported(f"call of {cc.key} (which has `modifies`) inside a comprehension / quantifier", node)
            if any("fresh(" in e for e in cc.ensures.values()):
                raise Unsupported(f"call of {cc.key} (which allocates) inside a comprehension / quantifier", node)
        if cc.returns is not None:
            if qvars:
                rf = z3.Function(fresh_name("ret_" + cc.target.split(".")[-1]), *[v.sort() for v in qvars], cc.returns.sort())
                res = Val(cc.returns, rf(*qvars))  # the result is a function of the bound variables
            else:
                res = Val(cc.returns, fresh(cc.returns, "ret_" + cc.target.split(".")[-1]))
            self.assume_allocated(st, res)
        else:
            res = Val.const(None)
        callee.old_state = pre
        callee.result = res
        post.env["result"] = res
        post.pc = st.pc
        for nm, e in cc.ensures.items():
            fact = z3bool(callee.clause(e, post))
            pc_before = list(st.pc)
            st.assume(fact)
            if qvars and self.qouter:
                # the state of the quantifier body is discarded when the quantifier is closed: the callee's postcondition,
                # for every binding that reaches the call, is recorded in the enclosing state
                qids = {v.get_id() for v in qvars}
                ctx = [h for h in pc_before if _mentions(h, qids)]
                self.qouter[0].assume(z3.ForAll(qvars, z3.Implies(z3.And(*ctx), fact) if ctx else fact))
        guard = z3.And(*active) if active else None
        # write back container parameters that were modified (value semantics)
        for m in cc.modifies:
            if "." not in m:
                nv = post.env[m]
                if guard is not None:
                    nv = ops.ite(guard, nv, coerce(bound[m], nv.ty))
                self.writeback_arg(m, nv, src, args, kwargs, node, st, implicit)
        if guard is not None:
            for k, arr in list(st.heap.items()):
                b = heap_before.get(k)
                if b is None:
                    b = z3.Const(f"H0_{k[0]}_{k[1]}", arr.sort())
                if not z3.eq(arr, b):
                    st.heap[k] = z3.If(guard, arr, b)
            if alloc_before is not None and st.alloc is not None and not z3.eq(st.alloc, alloc_before):
                st.alloc = z3.If(guard, st.alloc, alloc_before)
        self.assumptions_used |= {"contract:" + cc.key}
        return res

    def writeback_arg(self, pname, newval, src, args, kwargs, node, st, implicit=0):
        names = [x.arg for x in src.fdef.args.posonlyargs + src.fdef.args.args][implicit:]
        argnode = None
        if any(isinstance(a, ast.Starred) for a in node.args):
            raise Unsupported("callee modifies a container argument of a call with *args", node)
        if pname in names and names.index(pname) < len(node.args):
            argnode = node.args[names.index(pname)]
        else:
            for k in node.keywords:
                if k.arg == pname:
                    argnode = k.value
        if argnode is None:
            return
        self.assign_target(argnode, newval, st, node, mutate=True)

    # ---- clause evaluation -----------------------------------------------------------------------------------
    def clause(self, src: str, st):
        tree = ast.parse(src.strip(), mode="eval").body
        save = self.spec_mode
        self.spec_mode = True
        try:
            v = self.eval(tree, st)
            return self.truth(v, st, tree)
        finally:
            self.spec_mode = save


# ---- spec-mode forms ---------------------------------------------------------------------------------


def _f_implies(ex, node, st):
    a = ex.cond(node.args[0], st)
    if a is False:
        return Val.const(True)
    from .exprs import pop_guards, push_guard

    mark = len(st.pc)
    if a is not True:
        push_guard(st, a)
    # `implies(x is not None [and ..], .. x ..)`: the consequent sees the Optional name x at its value (as the body of
    # `if x is not None:` does); under the guard the two are the same value
    saved = {}
    conj = node.args[0].values if isinstance(node.args[0], ast.BoolOp) and isinstance(node.args[0].op, ast.And) else [node.args[0]]
    for t in conj:
        if (isinstance(t, ast.Compare) and len(t.ops) == 1 and isinstance(t.ops[0], ast.IsNot) and isinstance(t.left, ast.Name)
                and isinstance(t.comparators[0], ast.Constant) and t.comparators[0].value is None):
            v = st.env.get(t.left.id)
            if v is not None and isinstance(v.ty, T.Opt) and not v.is_py and t.left.id not in saved and ("link", t.left.id) not in st.ghost:
                saved[t.left.id] = v
                st.env[t.left.id] = Val(v.ty.inner, v.ty.sort().val(v.term))
    try:
        b = ex.cond(node.args[1], st)
    finally:
        pop_guards(st, mark)
        st.env.update(saved)
    return bool_val(z_implies(a, b))


def _f_iff(ex, node, st):
    a = z3bool(ex.cond(node.args[0], st))
    b = z3bool(ex.cond(node.args[1], st))
    return Val(T.BOOL, a == b)


def _f_ite(ex, node, st):
    c = ex.cond(node.args[0], st)
    return ops.ite(c, ex.eval(node.args[1], st), ex.eval(node.args[2], st))


def _f_elems(ex, node, st):
    from . import models

    v = ex.eval(node.args[0], st)
    return models._set(ex, st, [v], {}, node)


def _f_distinct(ex, node, st):
    """distinct(seq): no element occurs twice."""
    v = ex.eval(node.args[0], st)
    info = ex.iter_info(v, st, node)
    if info.kind == "concrete":
        rs = []
        for i in range(len(info.items)):
            for j in range(i + 1, len(info.items)):
                rs.append(z_not(ops.equal(info.items[i], info.items[j])))
        return bool_val(z_and(*rs))
    i, j = z3.Int(fresh_name("di")), z3.Int(fresh_name("dj"))
    return Val(T.BOOL, z3.ForAll([i, j], z3.Implies(z3.And(0 <= i, i < j, j < info.n), lift(info.item(i)) != lift(info.item(j)))))


def _f_result(ex, node, st):
    return st.env["result"]


def _f_fresh_ref(ex, node, st):
    """fresh(x): x was not allocated in the pre-state."""
    v = ex.eval(node.args[0], st)
    old = ex.old_state
    t0 = old.alloc if (old is not None and old.alloc is not None) else z3.Int("now0")
    if isinstance(v.ty, T.Opt) and not v.is_py:  # None is not a fresh object
        s_ = v.ty.sort()
        return Val(T.BOOL, z3.And(s_.is_some(v.term), BIRTH(s_.val(v.term)) >= t0))
    if v.is_py and v.py is None:
        return Val.const(False)
    return Val(T.BOOL, BIRTH(lift(v)) >= t0)


def _f_typed_forall(ex, node, st):
    """forall(Type, lambda x: body) over a whole sort; Type named by a string expression."""
    raise Unsupported("forall form: use all(... for ...) instead", node)


def _f_allocated(ex, node, st):
    """allocated(x): x is in the CURRENT allocation set (objects created so far)."""
    v = ex.eval(node.args[0], st)
    if isinstance(v.ty, T.Opt) and not v.is_py:  # None counts as allocated (there is nothing that could be missing)
        s_ = v.ty.sort()
        return Val(T.BOOL, z3.Implies(s_.is_some(v.term), ex.is_allocated(st, s_.val(v.term))))
    if v.is_py and v.py is None:
        return Val.const(True)
    return Val(T.BOOL, ex.is_allocated(st, lift(v)))


SPEC_FORMS = {
    "allocated": _f_allocated,
    "implies": _f_implies,
    "iff": _f_iff,
    "ite": _f_ite,
    "elems": _f_elems,
    "distinct": _f_distinct,
    "fresh": _f_fresh_ref,
}
SPEC_BUILTINS = set()


_rec_cache: dict = {}


def spec_is_recursive(sf) -> bool:
    """Does the spec function (transitively) call itself?"""
    if sf.name in _rec_cache:
        return _rec_cache[sf.name]
    from .solve import _spec_fdef

    def callees(f):
        out = set()
        for n in ast.walk(_spec_fdef(f)):
            if isinstance(n, ast.Call) and isinstance(n.func, ast.Name) and n.func.id in api.SPECFNS:
                out.add(n.func.id)
        return out

    seen, todo = set(), [sf.name]
    rec = False
    while todo:
        cur = todo.pop()
        for c in callees(api.SPECFNS[cur]):
            if c == sf.name:
                rec = True
            if c not in seen:
                seen.add(c)
                todo.append(c)
    _rec_cache[sf.name] = rec
    return rec
