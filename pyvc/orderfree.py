"""Order-insensitivity obligations (property C08, hash-seed independence).

Python sets iterate in an order that depends on PYTHONHASHSEED (for str elements).  Every place in
Lib/ufo2ft where a *set-typed* expression is iterated is one obligation: the iteration order must not be
observable.  An obligation is discharged syntactically when

  canonical   the iteration feeds sorted()/set()/frozenset()/any()/all()/min()/max()/sum()/len() directly,
              or builds another set (set comprehension, set-algebra);
  commutes    it is a `for` loop whose body consists only of operations that commute across iterations and
              leave no trace of the order: set.add/update/discard, assert, continue, pass, raise,
              commutative numeric accumulation, calls of logger methods, and nested ifs/loops of the same kind;
  pinned      the site is listed in contracts/c08_order_pins.json with the reason why the order cannot be
              observed (e.g. the dict filled here is only ever consumed through sorted()); pins are keyed by
              file / function / source text and are part of the reviewed contract.

Anything else (list building, append, yield, join, dict insertion, break/return out of the loop,
next(iter(s))) leaks the order and FAILS the obligation.  Set-typedness is inferred per function from
constructors, literals, comprehensions, set algebra, `.keys()` algebra, annotations, attributes assigned
set-typed values in the same class, and repo functions all of whose returns are set-typed.
This is a sound-by-construction check only relative to that inference: a set that reaches an iteration
untyped is not seen (listed as an assumption; the bounded hash-seed observer covers it).
"""
from __future__ import annotations

import ast
import json
import os

SET_CTORS = {"set", "frozenset"}
CANONICAL = {"sorted", "set", "frozenset", "any", "all", "min", "max", "sum", "len", "Counter", "isdisjoint"}
SET_METHODS = {"union", "intersection", "difference", "symmetric_difference", "copy"}
COMMUTING_CALLS = {"add", "update", "discard", "difference_update", "intersection_update", "debug", "info", "warning", "error", "exception", "log"}
ITER_CONSUMERS = {"list", "tuple", "enumerate", "zip", "map", "iter", "next", "filter", "reversed", "extend", "join", "chain", "deque", "OrderedDict", "dict"}


class FuncInfo:
    def __init__(self, node, cls, module):
        self.node = node
        self.cls = cls
        self.module = module
        self.set_names = set()


class Analyzer:
    def __init__(self, repo="/repo"):
        self.repo = repo
        self.files = {}
        self.set_returning = set()  # function / method names whose every return is set-typed
        self.set_attrs = {}  # class name -> attribute names assigned set-typed values
        self.set_attr_names = set()  # attribute names assigned a set-typed value anywhere (x.y.attr = set(...))
        self.module_sets = {}  # file -> names of module-level set/frozenset objects (resolved from the real module)
        self.sites = []
        self._load()

    def _load(self):
        base = os.path.join(self.repo, "Lib", "ufo2ft")
        for dp, _dn, fns in os.walk(base):
            for fn in fns:
                if fn.endswith(".py"):
                    p = os.path.join(dp, fn)
                    with open(p, encoding="utf-8") as f:
                        txt = f.read()
                    rel = os.path.relpath(p, self.repo)
                    self.files[rel] = (txt, ast.parse(txt))
                    try:
                        import importlib

                        if rel.endswith("__main__.py"):
                            raise ImportError("script module")
                        mod = importlib.import_module(rel[len("Lib/"):-3].replace("/", ".").replace(".__init__", ""))
                        self.module_sets[rel] = {k for k, v in vars(mod).items() if isinstance(v, (set, frozenset))}
                    except Exception:
                        self.module_sets[rel] = set()

    # ---- set-typedness -------------------------------------------------------------------------------
    def is_set(self, e, fi: FuncInfo) -> bool:
        if isinstance(e, (ast.Set, ast.SetComp)):
            return True
        if isinstance(e, ast.Call):
            f = e.func
            if isinstance(f, ast.Name) and f.id in SET_CTORS:
                return True
            if isinstance(f, ast.Name) and f.id in self.set_returning:
                return True
            if isinstance(f, ast.Attribute):
                if f.attr in SET_METHODS and self.is_set(f.value, fi):
                    return True
                if f.attr in self.set_returning and isinstance(f.value, ast.Name) and f.value.id in ("self", "cls"):
                    return True
                if f.attr in ("get", "pop", "setdefault") and len(e.args) == 2 and self.is_set(e.args[1], fi):
                    return True
            return False
        if isinstance(e, ast.BinOp) and isinstance(e.op, (ast.BitOr, ast.BitAnd, ast.Sub, ast.BitXor)):
            if self.is_set(e.left, fi) or self.is_set(e.right, fi):
                return True
            for side in (e.left, e.right):
                if isinstance(side, ast.Call) and isinstance(side.func, ast.Attribute) and side.func.attr == "keys":
                    return True
            return False
        if isinstance(e, ast.Name):
            return e.id in fi.set_names or e.id in self.module_sets.get(fi.module, ())
        if isinstance(e, ast.Attribute):
            if isinstance(e.value, ast.Name) and e.value.id == "self" and fi.cls and e.attr in self.set_attrs.get(fi.cls, ()):
                return True
            if e.attr in self.set_attr_names:
                return True
            return False
        if isinstance(e, ast.Subscript) and isinstance(e.value, ast.Name) and e.value.id in getattr(fi, "dict_of_sets", ()):
            return True
        if isinstance(e, ast.IfExp):
            return self.is_set(e.body, fi) and self.is_set(e.orelse, fi)
        if isinstance(e, ast.BoolOp):
            return any(self.is_set(v, fi) for v in e.values)
        return False

    def _ann_is_set(self, ann):
        if ann is None:
            return False
        s = ast.unparse(ann)
        return s.startswith(("set", "Set", "frozenset", "FrozenSet", "AbstractSet", "typing.Set")) or "| set" in s

    def infer(self):
        # iterate to a fixpoint: names / attributes / returns
        funcs = []
        for path, (txt, tree) in self.files.items():
            for node in ast.walk(tree):
                if isinstance(node, ast.ClassDef):
                    for n in node.body:
                        if isinstance(n, ast.FunctionDef):
                            funcs.append((path, FuncInfo(n, node.name, path)))
            for n in tree.body:
                if isinstance(n, ast.FunctionDef):
                    funcs.append((path, FuncInfo(n, None, path)))
            # nested functions
            for node in ast.walk(tree):
                if isinstance(node, ast.FunctionDef):
                    for n in ast.walk(node):
                        if isinstance(n, ast.FunctionDef) and n is not node and not any(n is f.node for _, f in funcs):
                            funcs.append((path, FuncInfo(n, None, path)))
        self.funcs = funcs
        self.by_name = {}
        for _p, f_ in funcs:
            self.by_name.setdefault(f_.node.name, []).append(f_)
        changed = True
        rounds = 0
        while changed and rounds < 10:
            changed = False
            rounds += 1
            for path, fi in funcs:
                a = fi.node.args
                for x in a.posonlyargs + a.args + a.kwonlyargs:
                    if self._ann_is_set(x.annotation) and x.arg not in fi.set_names:
                        fi.set_names.add(x.arg)
                        changed = True
                if not hasattr(fi, "dict_of_sets"):
                    fi.dict_of_sets = set()
                for n in ast.walk(fi.node):
                    # dicts whose values are sets: d.setdefault(k, set()) / d[k] = set() / defaultdict(set)
                    if isinstance(n, ast.Call) and isinstance(n.func, ast.Attribute) and n.func.attr == "setdefault" and len(n.args) == 2 and self.is_set(n.args[1], fi) and isinstance(n.func.value, ast.Name):
                        if n.func.value.id not in fi.dict_of_sets:
                            fi.dict_of_sets.add(n.func.value.id)
                            changed = True
                    if isinstance(n, ast.Assign) and isinstance(n.value, ast.Call) and isinstance(n.value.func, ast.Name) and n.value.func.id == "defaultdict" and n.value.args and isinstance(n.value.args[0], ast.Name) and n.value.args[0].id in SET_CTORS:
                        for t in n.targets:
                            if isinstance(t, ast.Name) and t.id not in fi.dict_of_sets:
                                fi.dict_of_sets.add(t.id)
                                changed = True
                    if isinstance(n, ast.Assign) and self.is_set(n.value, fi):
                        for t in n.targets:
                            if isinstance(t, ast.Subscript) and isinstance(t.value, ast.Name) and t.value.id not in fi.dict_of_sets:
                                fi.dict_of_sets.add(t.value.id)
                                changed = True
                    # loop variables over the values of such dicts are sets
                    if isinstance(n, (ast.For, ast.comprehension)) and isinstance(n.iter, ast.Call) and isinstance(n.iter.func, ast.Attribute) and isinstance(n.iter.func.value, ast.Name) and n.iter.func.value.id in fi.dict_of_sets:
                        tgt = n.target
                        if n.iter.func.attr == "values" and isinstance(tgt, ast.Name) and tgt.id not in fi.set_names:
                            fi.set_names.add(tgt.id)
                            changed = True
                        if n.iter.func.attr == "items" and isinstance(tgt, ast.Tuple) and len(tgt.elts) == 2 and isinstance(tgt.elts[1], ast.Name) and tgt.elts[1].id not in fi.set_names:
                            fi.set_names.add(tgt.elts[1].id)
                            changed = True
                    if isinstance(n, ast.Assign) and self.is_set(n.value, fi):
                        for t in n.targets:
                            if isinstance(t, ast.Attribute) and t.attr not in self.set_attr_names:
                                self.set_attr_names.add(t.attr)
                                changed = True
                for n in ast.walk(fi.node):
                    if isinstance(n, ast.Assign) and self.is_set(n.value, fi):
                        for t in n.targets:
                            if isinstance(t, ast.Name) and t.id not in fi.set_names:
                                fi.set_names.add(t.id)
                                changed = True
                            if isinstance(t, ast.Attribute) and isinstance(t.value, ast.Name) and t.value.id == "self" and fi.cls:
                                s = self.set_attrs.setdefault(fi.cls, set())
                                if t.attr not in s:
                                    s.add(t.attr)
                                    changed = True
                    if isinstance(n, ast.AnnAssign) and isinstance(n.target, ast.Name) and (self._ann_is_set(n.annotation) or (n.value is not None and self.is_set(n.value, fi))):
                        if n.target.id not in fi.set_names:
                            fi.set_names.add(n.target.id)
                            changed = True
                    if isinstance(n, ast.AugAssign) and isinstance(n.target, ast.Name) and isinstance(n.op, (ast.BitOr, ast.BitAnd, ast.Sub)) and self.is_set(n.value, fi):
                        if n.target.id not in fi.set_names:
                            fi.set_names.add(n.target.id)
                            changed = True
                # parameters that receive a set-typed argument at some call site in the repo (matched by callee name)
                for n in ast.walk(fi.node):
                    if isinstance(n, ast.Call):
                        cname = n.func.id if isinstance(n.func, ast.Name) else n.func.attr if isinstance(n.func, ast.Attribute) else None
                        tgts = self.by_name.get(cname, ())
                        if len(tgts) != 1:
                            continue
                        callee = tgts[0]
                        ps = [x.arg for x in callee.node.args.posonlyargs + callee.node.args.args]
                        if ps and ps[0] in ("self", "cls") and isinstance(n.func, ast.Attribute):
                            ps = ps[1:]
                        for a, pn in zip(n.args, ps):
                            if self.is_set(a, fi) and pn not in callee.set_names:
                                callee.set_names.add(pn)
                                changed = True
                        for kw in n.keywords:
                            if kw.arg in ps and self.is_set(kw.value, fi) and kw.arg not in callee.set_names:
                                callee.set_names.add(kw.arg)
                                changed = True
                rets = [r for r in ast.walk(fi.node) if isinstance(r, ast.Return) and r.value is not None]
                own = [r for r in rets if self._owner(fi.node, r) is fi.node]
                if own and all(self.is_set(r.value, fi) for r in own) or self._ann_is_set(fi.node.returns):
                    if fi.node.name not in self.set_returning:
                        self.set_returning.add(fi.node.name)
                        changed = True

    def _owner(self, root, target):
        """innermost FunctionDef/Lambda of `root` containing `target`"""
        best = root
        for n in ast.walk(root):
            if isinstance(n, (ast.FunctionDef, ast.Lambda)) and n is not root:
                if any(m is target for m in ast.walk(n)):
                    best = n
        return best

    # ---- sites ---------------------------------------------------------------------------------------------
    def collect(self):
        self.infer()
        seen = set()
        for path, fi in self.funcs:
            parents = {}
            for n in ast.walk(fi.node):
                for c in ast.iter_child_nodes(n):
                    parents[c] = n
            txt = self.files[path][0].splitlines()
            for n in ast.walk(fi.node):
                if self._owner(fi.node, n) is not fi.node and not isinstance(n, ast.FunctionDef):
                    continue
                site = None
                if isinstance(n, ast.For) and self.is_set(n.iter, fi):
                    site = ("for", n, self.classify_for(n, fi, parents, path))
                elif isinstance(n, ast.comprehension) and self.is_set(n.iter, fi):
                    comp = parents.get(n)
                    site = ("comprehension", comp, self.classify_comp(comp, parents, fi))
                elif isinstance(n, ast.Call):
                    f = n.func
                    nm = f.id if isinstance(f, ast.Name) else f.attr if isinstance(f, ast.Attribute) else None
                    if nm in ITER_CONSUMERS and any(self.is_set(a, fi) for a in n.args):
                        par = parents.get(n)
                        ok = isinstance(par, ast.Call) and (par.func.id if isinstance(par.func, ast.Name) else getattr(par.func, "attr", None)) in CANONICAL
                        if nm == "dict":
                            ok = False
                        if not ok and self._message_only(n, parents):
                            ok = True
                        site = (f"{nm}(set)", n, "canonical" if ok else "leak")
                    elif isinstance(f, ast.Attribute) and f.attr == "join" and n.args and self.is_set(n.args[0], fi):
                        site = ("join(set)", n, "canonical" if self._message_only(n, parents) else "leak")
                elif isinstance(n, ast.Starred) and self.is_set(n.value, fi):
                    par = parents.get(n)
                    ok = isinstance(par, ast.Call) and (par.func.id if isinstance(par.func, ast.Name) else getattr(par.func, "attr", None)) in (CANONICAL | {"union", "intersection", "update", "difference"})
                    if isinstance(par, (ast.Set,)):
                        ok = True
                    site = ("*set", n, "canonical" if ok else "leak")
                if site:
                    kind, node, verdict = site
                    key = (path, node.lineno, node.col_offset, kind)
                    if key in seen:
                        continue
                    seen.add(key)
                    self.sites.append({
                        "file": path, "line": node.lineno, "func": (fi.cls + "." if fi.cls else "") + fi.node.name, "kind": kind,
                        "verdict": verdict, "code": txt[node.lineno - 1].strip(),
                    })
        return self.sites

    LOG_NAMES = ("logger", "log", "LOGGER", "logging", "timing_logger")

    def _is_log_call(self, v):
        """`logger.warning(...)`, `self.log.info(...)`, `warnings.warn(...)`: produces log text only"""
        if not (isinstance(v, ast.Call) and isinstance(v.func, ast.Attribute)):
            return False
        f = v.func
        if f.attr == "warn" and isinstance(f.value, ast.Name) and f.value.id == "warnings":
            return True
        if f.attr not in ("debug", "info", "warning", "error", "exception", "critical", "log"):
            return False
        b = f.value
        nm = b.id if isinstance(b, ast.Name) else b.attr if isinstance(b, ast.Attribute) else None
        return nm in self.LOG_NAMES

    def _message_only(self, node, parents):
        """the value built at `node` only flows into the text of an exception or of a log record: the enclosing
        statement is a `raise`, or the node sits inside the argument list of a logging call. Neither can reach the
        bytes of a compiled font (an exception aborts the compile; a log record is text)."""
        cur = node
        while cur in parents:
            par = parents[cur]
            if isinstance(par, ast.Raise):
                return True
            if self._is_log_call(par) and cur is not par.func:
                return True
            if isinstance(par, ast.stmt):
                return False
            cur = par
        return False

    def _log_only_function(self, name, path):
        """module-level function of the same file whose body is only logging calls (and a docstring)"""
        tree = self.files[path][1]
        for n in tree.body:
            if isinstance(n, ast.FunctionDef) and n.name == name:
                body = [st for st in n.body if not (isinstance(st, ast.Expr) and isinstance(st.value, ast.Constant))]
                return bool(body) and all(isinstance(st, ast.Expr) and self._is_log_call(st.value) for st in body)
            if isinstance(n, ast.ImportFrom) and n.module and any(a.name == name and a.asname in (None, name) for a in n.names):
                # `from ufo2ft.x.y import name` / `from .y import name`: look the definition up in that module's source
                if n.level == 0:
                    if not n.module.startswith("ufo2ft"):
                        continue
                    base = "Lib/" + n.module.replace(".", "/")
                else:
                    pkg = path.rsplit("/", n.level)[0]
                    base = pkg + "/" + n.module.replace(".", "/")
                for cand in (base + ".py", base + "/__init__.py"):
                    if cand in self.files and cand != path:
                        return self._log_only_function(name, cand)
        return False

    def classify_comp(self, comp, parents, fi):
        if isinstance(comp, ast.SetComp):
            return "canonical"
        if self._message_only(comp, parents):
            return "canonical:message-only"
        par = parents.get(comp)
        if isinstance(par, ast.Call):
            nm = par.func.id if isinstance(par.func, ast.Name) else getattr(par.func, "attr", None)
            if nm in CANONICAL or nm in ("update", "union", "intersection", "difference", "issubset", "issuperset", "difference_update"):
                return "canonical"
        if isinstance(comp, ast.DictComp):
            return "leak:dict-insertion-order"
        return "leak"

    def classify_for(self, loop, fi, parents=None, path=None):
        parents = parents or {}
        tgt = loop.target.id if isinstance(loop.target, ast.Name) else None
        # names assigned inside the body and never used outside the loop: per-iteration temporaries
        body_nodes = [n for st in loop.body for n in ast.walk(st)]
        assigned_in_body = {n.id for n in body_nodes if isinstance(n, ast.Name) and isinstance(n.ctx, ast.Store)}
        in_body = set(map(id, body_nodes))
        used_outside = {n.id for n in ast.walk(fi.node) if isinstance(n, ast.Name) and id(n) not in in_body and n is not loop.target}
        temporaries = assigned_in_body - used_outside

        def dominated_elsewhere(name):
            """every read of `name` outside this loop is preceded, in the same statement list, by a plain
            assignment to it (so the value left behind by this loop is never read)"""
            for n in ast.walk(fi.node):
                if isinstance(n, ast.Name) and n.id == name and isinstance(n.ctx, ast.Load) and id(n) not in in_body:
                    cur = n
                    ok = False
                    while cur in parents and not ok:
                        par = parents[cur]
                        for fld in ("body", "orelse", "finalbody"):
                            blk = getattr(par, fld, None)
                            if isinstance(blk, list) and cur in blk:
                                for st in blk[: blk.index(cur)]:
                                    if isinstance(st, ast.Assign) and len(st.targets) == 1 and isinstance(st.targets[0], ast.Name) and st.targets[0].id == name:
                                        ok = True
                        if isinstance(par, (ast.FunctionDef, ast.AsyncFunctionDef, ast.Lambda)):
                            break
                        cur = par
                    if not ok:
                        return False
            return True

        temporaries |= {nm for nm in assigned_in_body & used_outside if nm != tgt and dominated_elsewhere(nm)}

        def pure(e):
            """no call, no walrus, no await/yield: evaluating it has no effect"""
            return not any(isinstance(n, (ast.Call, ast.NamedExpr, ast.Await, ast.Yield, ast.YieldFrom)) for n in ast.walk(e))

        def only_keyed_by_target(name):
            """every occurrence of container `name` in the loop body is `tgt in name`, `name[tgt]` or
            `del name[tgt]`: an iteration only touches the entry of ITS OWN element, and set elements are distinct"""
            for n in body_nodes:
                if isinstance(n, ast.Name) and n.id == name:
                    par = parents.get(n)
                    if isinstance(par, ast.Subscript) and par.value is n and isinstance(par.slice, ast.Name) and par.slice.id == tgt:
                        continue
                    if isinstance(par, ast.Compare) and len(par.ops) == 1 and isinstance(par.ops[0], (ast.In, ast.NotIn)) and par.comparators[0] is n \
                            and isinstance(par.left, ast.Name) and par.left.id == tgt:
                        continue
                    if isinstance(par, ast.For) and par.target is n and n.id != tgt:
                        continue  # the container itself is the variable of an inner loop (one of several containers)
                    return False
            return True

        accumulators = set()

        def ok_stmt(s):
            if isinstance(s, (ast.Pass, ast.Continue, ast.Assert, ast.Raise)):
                return True
            if isinstance(s, ast.Expr):
                v = s.value
                if isinstance(v, ast.Constant):
                    return True
                if self._is_log_call(v):
                    return True
                if isinstance(v, ast.Call) and isinstance(v.func, ast.Name) and path and self._log_only_function(v.func.id, path) \
                        and all(pure(a) for a in v.args) and all(pure(k.value) for k in v.keywords):
                    return True
                if isinstance(v, ast.Call) and isinstance(v.func, ast.Attribute) and v.func.attr in COMMUTING_CALLS:
                    # x.setdefault(k, set()).add(..) is fine for the inner set but inserts k into the dict
                    inner = v.func.value
                    if isinstance(inner, ast.Call) and isinstance(inner.func, ast.Attribute) and inner.func.attr == "setdefault":
                        return False
                    return True
                if isinstance(v, ast.Call) and isinstance(v.func, ast.Attribute) and v.func.attr in ("append", "extend") and isinstance(v.func.value, ast.Name):
                    # appending to a local list that is only ever consumed through sorted()/len()/set()/truth tests
                    accumulators.add(v.func.value.id)
                    return all(pure(a) for a in v.args)
                return False
            if isinstance(s, ast.Delete):
                # del d[x] for the loop variable x: deletes DISTINCT keys; the order of the remaining keys is unaffected
                return tgt is not None and all(isinstance(t, ast.Subscript) and isinstance(t.value, ast.Name) and isinstance(t.slice, ast.Name)
                                               and t.slice.id == tgt and only_keyed_by_target(t.value.id) for t in s.targets)
            if isinstance(s, ast.Assign) and len(s.targets) == 1 and isinstance(s.targets[0], ast.Name) and s.targets[0].id in temporaries and pure(s.value):
                return True  # per-iteration temporary computed without effects
            if isinstance(s, ast.If):
                return all(ok_stmt(x) for x in s.body) and all(ok_stmt(x) for x in s.orelse)
            if isinstance(s, ast.For):
                return all(ok_stmt(x) for x in s.body) and not s.orelse
            if isinstance(s, ast.AugAssign) and isinstance(s.target, ast.Name) and isinstance(s.op, (ast.Add, ast.BitOr, ast.BitAnd, ast.Mult)):
                # numeric / set accumulation commutes (floats are treated as reals here as everywhere)
                return not isinstance(s.value, (ast.List, ast.ListComp, ast.Tuple, ast.JoinedStr)) and not (isinstance(s.value, ast.Constant) and isinstance(s.value.value, str))
            return False

        if loop.orelse:
            return "leak"
        if not all(ok_stmt(s) for s in loop.body):
            return "leak"
        for acc in accumulators:
            if not self._accumulator_canonical(acc, loop, fi, parents):
                return "leak"
        return "commutes"

    def _accumulator_canonical(self, name, loop, fi, parents):
        """`name` is a local list: bound exactly once in the function, to an empty list, before the loop; apart
        from `.append/.extend` statements every use is the direct argument of a canonical consumer
        (sorted/len/set/...), a truth test, or nothing else. Then the order of its elements is never observed."""
        stores = [n for n in ast.walk(fi.node) if isinstance(n, ast.Name) and n.id == name and isinstance(n.ctx, (ast.Store, ast.Del))]
        if len(stores) != 1:
            return False
        a = fi.node.args
        if name in {x.arg for x in a.posonlyargs + a.args + a.kwonlyargs} or (a.vararg and a.vararg.arg == name) or (a.kwarg and a.kwarg.arg == name):
            return False
        st = parents.get(stores[0])
        if not (isinstance(st, ast.Assign) and len(st.targets) == 1 and st.targets[0] is stores[0]):
            return False
        v = st.value
        if not ((isinstance(v, ast.List) and not v.elts) or (isinstance(v, ast.Call) and isinstance(v.func, ast.Name) and v.func.id == "list" and not v.args)):
            return False
        if st.lineno >= loop.lineno or parents.get(st) is not fi.node and not any(parents.get(st) is p for p in self._ancestors(loop, parents)):
            return False
        for n in ast.walk(fi.node):
            if isinstance(n, ast.Name) and n.id == name and isinstance(n.ctx, ast.Load):
                par = parents.get(n)
                if isinstance(par, ast.Attribute) and par.attr in ("append", "extend") and isinstance(parents.get(par), ast.Call) and parents[par].func is par \
                        and isinstance(parents.get(parents[par]), ast.Expr):
                    continue
                if isinstance(par, ast.Call) and n in par.args and len(par.args) == 1 and not par.keywords \
                        and (par.func.id if isinstance(par.func, ast.Name) else None) in (CANONICAL - {"sum"}):
                    continue
                if isinstance(par, (ast.If, ast.While)) and par.test is n:
                    continue
                if isinstance(par, ast.UnaryOp) and isinstance(par.op, ast.Not):
                    continue
                return False
        return True

    @staticmethod
    def _ancestors(node, parents):
        out = []
        while node in parents:
            node = parents[node]
            out.append(node)
        return out


def load_pins(root):
    p = os.path.join(root, "contracts", "c08_order_pins.json")
    if not os.path.exists(p):
        return []
    with open(p) as f:
        return json.load(f)["pins"]


def check(repo="/repo", verif_root="/verif"):
    an = Analyzer(repo)
    sites = an.collect()
    pins = load_pins(verif_root)
    out = []
    for s in sites:
        v = s["verdict"]
        if v.startswith("leak"):
            for p in pins:
                if p["file"] == s["file"] and p["func"] == s["func"] and p["code"] == s["code"]:
                    v = "pinned"
                    s["reason"] = p["reason"]
            s["status"] = v
        else:
            s["status"] = v
        out.append(s)
    return out, pins
