"""Contract vocabulary used by the sidecar files in /verif/contracts/."""
from __future__ import annotations

from dataclasses import dataclass, field

from . import ty as T
from .ty import BOOL, INT, NONE, REAL, STR, Dict, Enum, List, Map, Named, Opaque, Opt, Ref, Set, Tuple, TupleOf, Union  # noqa: F401

CONTRACTS: dict[str, "FnContract"] = {}
CLASSES: dict[str, "ClassSpec"] = {}
SPECFNS: dict[str, "SpecFn"] = {}
LEMMAS: dict[str, "Lemma"] = {}
TRUSTED: dict[str, "Trusted"] = {}  # qualified python name -> trusted model


@dataclass
class Loop:
    invariants: dict | list = field(default_factory=dict)
    index: str | None = None  # ghost: position in the iterated sequence
    done: str | None = None  # ghost: set of elements already processed (set iteration)
    seq: str | None = None  # ghost: name bound to the iterated sequence (snapshot at entry)
    locals: dict = field(default_factory=dict)
    unroll: bool = False
    hints: list = field(default_factory=list)  # extra facts proved then assumed at loop head


@dataclass
class FnContract:
    target: str  # "ufo2ft.util:makeOfficialGlyphOrder"
    props: list
    params: dict  # name -> Ty (or a python constant wrapped in Const for specialisation)
    returns: T.Ty | None = None
    requires: list = field(default_factory=list)
    ensures: dict = field(default_factory=dict)
    bounded_ensures: dict = field(default_factory=dict)  # clauses checked ONLY by the run-time interpreter (bounded; never counted as proved)
    raises: dict = field(default_factory=dict)  # exception name -> iff-condition over the pre-state
    loops: dict = field(default_factory=dict)  # header text -> Loop
    locals: dict = field(default_factory=dict)
    modifies: list = field(default_factory=list)  # "Class.field" heap fields / parameter names
    canaries: dict = field(default_factory=dict)  # clauses that must NOT be provable
    name: str | None = None  # variant label (several contracts per function are allowed)
    calls: dict = field(default_factory=dict)  # callee name in source -> contract key override
    models: dict = field(default_factory=dict)  # contract-local trusted models: qualified python name -> model(ex, st, args, kwargs, node)
    globals: dict = field(default_factory=dict)  # free names -> python constant / Ty-typed symbol
    hints: dict = field(default_factory=dict)  # line text -> list of assertion clauses (proved, then usable)
    partial: bool = True  # termination not proved
    notes: str = ""
    ghost_vars: dict = field(default_factory=dict)  # ghost name -> (Ty, initial value expression)
    ghost: dict = field(default_factory=dict)  # statement text -> [ghost assignment statements] run after it
    runtime: object = None  # Runtime: generator of real inputs for cross-check / replay
    alias_ok: tuple = ()
    canon_binders: bool = False  # emit this contract's obligations with canonical bound-variable names (alpha-equivalent sub-formulas become identical terms)
    beta_reduce: bool = False  # indexing a heap-derived `Map` view whose value is syntactically a lambda substitutes the index into the body (no `select(lambda, t)` in the obligations, so hypotheses and goals about the underlying fields e-match)
    portfolio: tuple | list | None = None  # solver order for this contract's obligations, e.g. ["cvc5", "z3-5.1"]: the names listed are tried first (in this order), the rest of the default portfolio follows, so a verdict never depends on the list
    seq_bridge: bool = False  # a list built from other lists (`append`, `extend`, `insert`, `+`, `+=`) comes with POSITIONAL facts on the new sequence (nth(new, j) == nth(part, j - offset), pattern nth(new, j)): position-wise invariants become e-matching + arithmetic
    comp_member_facts: bool = True  # set/dict comprehensions over a LIST assume "every position holds a member" / "every member has a position" for the source list; switch off where these two quantified facts slow unrelated obligations down
    extract_free: bool | None = None  # list slices / pop / insert / del without seq.extract (a fresh sequence + its two defining facts); None = the global default (PYVC_EXTRACT_FREE, off)
    comp_lastpos_free: bool = False  # computed-key dict comprehensions: also state the last-position axiom WITHOUT an explicit trigger (helps some goals, is a matching loop for others)
    comp_positions: bool = False  # filtered list comprehensions get order-preserving Skolem position functions (source position of each result position, strictly increasing, onto the passing positions)
    comp_membership: bool = False  # list comprehensions also get `y in result => y == body(i) for some passing i` (extra quantified fact)
    merge_branches: bool = True  # False: keep the paths of every `if` apart (more obligations, simpler terms)
    dict_key_positions: bool = True  # every key k of a dict that is iterated / measured sits at a position of its key list: keys[keypos(k)] == k (Skolem function).  An extra quantified fact over seq.nth that derails some proofs: switch it off per contract when no clause goes from `k in d` to a position of the iteration
    sorted_axioms: bool = False  # sorted(x) / xs.sort(): same elements, same length, ordered (w.r.t. key= / reverse=) as assumed quantified facts
    seq_positions: bool = False  # `x in <list>` / set(<list>) also yield a POSITION witness (L[p] == x) and "every position is a member" (extra quantified facts)

    @property
    def key(self):
        return self.target + ("#" + self.name if self.name else "")


@dataclass
class Runtime:
    """Real inputs for the run-time interpreter: `gen(rng, tier)` yields JSON-able case
    descriptions, `build(desc)` turns one into the keyword arguments of the real function."""

    gen: object
    build: object
    call: object = None  # optional: how to invoke (fn, args) when not fn(**args)


@dataclass
class Const:
    """Specialise a parameter to a concrete python value (one contract variant per value)."""

    value: object


@dataclass
class ClassSpec:
    name: str
    fields: dict = field(default_factory=dict)
    dynamic: bool = False  # attribute bag: undeclared fields are typed by their first store
    methods: dict = field(default_factory=dict)  # name -> python model callable, or contract key
    repo: str | None = None  # "module:Class" when it is a class of /repo (MRO resolution)
    views: dict = field(default_factory=dict)  # abstract field -> python callable(obj) for run-time evaluation
    getitem: object = None
    setitem: object = None
    delitem: object = None  # delitem(ex, st, self, idx, node): `del obj[idx]` (writes the heap; KeyError obligation is the hook's job)
    contains: object = None
    eq: object = None  # eq(ex, st, self, other, node) -> z3 Bool / bool: `obj == <non-object value>` (and `!=`) at the top level of a comparison
    iter: object = None
    length: object = None
    truth: object = None
    notes: str = ""
    derived: dict = field(default_factory=dict)  # abstract field -> callable(ex, st, self) computing it from the heap
    has: dict = field(default_factory=dict)  # attribute -> Bool field saying whether it exists (hasattr)
    absent: tuple = ()  # attributes known not to exist (getattr default is taken)
    isa: tuple | None = None  # python class names this class is an instance of


@dataclass
class SpecFn:
    name: str
    params: list  # [(name, Ty)]
    ret: T.Ty
    fn: object  # the python function (executed natively at run time, symbolically for unfolding)
    fuel: int = 2
    opaque: bool = False  # never unfolded (axiomatised only through lemmas / trusted clauses)


@dataclass
class Lemma:
    name: str
    props: list
    vars: dict  # name -> Ty
    hyps: list
    concl: dict
    canaries: dict = field(default_factory=dict)
    unfold: list = field(default_factory=list)
    notes: str = ""


@dataclass
class Trusted:
    name: str
    model: object  # python callable (ex, st, args, kwargs, node) -> Val
    clause: str  # human-readable statement of the assumed contract
    conformance: str | None = None  # conformance test id


def contract(target, **kw):
    c = FnContract(target=target, **kw)
    if c.key in CONTRACTS:
        raise ValueError("duplicate contract " + c.key)
    CONTRACTS[c.key] = c
    return c


def cls(name, **kw):
    c = ClassSpec(name=name, **kw)
    CLASSES[name] = c
    return c


def specfn(ret, fuel=2, opaque=False, **params):
    def deco(f):
        SPECFNS[f.__name__] = SpecFn(f.__name__, list(params.items()), ret, f, fuel, opaque)
        return f

    return deco


def lemma(name, **kw):
    l = Lemma(name=name, **kw)
    LEMMAS[name] = l
    return l


def trusted(name, clause, conformance=None):
    def deco(f):
        TRUSTED[name] = Trusted(name, f, clause, conformance)
        return f

    return deco


def record_init(*params, **defaults):
    """Constructor model for attribute-bag classes: stores every argument under its parameter name.

    record_init("include", "exclude", pre=False) models `def __init__(self, include=None, exclude=None, pre=False)`
    as `self.<name> = <argument or default>` (missing parameters default to None unless given in `defaults`).
    Python-level arguments (lambdas, classes) are kept as python-level fields."""
    names = list(params) + [k for k in defaults if k not in params]

    def init(ex, st, self, args, kwargs, node):
        from .core import Unsupported, Val

        if len(args) > len(names):
            raise Unsupported("constructor arity", node)
        bound = dict(zip(names, args))
        for k, v in kwargs.items():
            if k not in names:
                raise Unsupported(f"constructor keyword {k}", node)
            bound[k] = v
        for n in names:
            v = bound.get(n)
            if v is None:
                v = Val.const(defaults.get(n))
            ex.write_field(st, self, n, v, node)

    init.modifies = tuple("?." + n for n in names)
    return init
