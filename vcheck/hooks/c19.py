"""C19 — bounded observer: what pyvc cannot reach in Lib/ufo2ft/instantiator.py, checked on real objects.

Everything here is BOUNDED evidence (reported under `bounded`, never as discharged obligations).

(1) history / frame / reproduction / blend observer.  Small real designspaces (contracts/c19.py FAMILIES: 1–2 axes,
    intermediate masters, sparse layer masters, sparse locations, an axis map, rules, non-kerning groups listing the
    swapped glyphs, fractional coordinates and kerning) are turned into ONE Instantiator per configuration
    (round_geometry on/off).  Instances are generated from it repeatedly, in several orders (master locations first,
    then intermediate ones; reversed; rule-on / rule-off alternating; every location twice).  Checked:
      history     every instance equals the one a brand-new Instantiator over a brand-new copy of the family generates
      frame       a deep snapshot of the whole designspace (every layer, glyph, info, kerning, groups, lib, features, rules)
                  is identical before and after; no mutable object of an instance is reachable from the sources
      glyph set   instance glyph names == default source's (extra glyphs elsewhere ignored), unicodes from the default
      masters     at a master location outlines, widths, anchors, kerning, info numbers equal that master's (otRound-ed when
                  rounding), up to the abstract rule swap
      blend       at every location each coordinate, advance and kerning value equals an independent computation:
                  fontTools VariationModel on the raw numbers, and on a two-master axis the plain (1-t)*m0 + t*m1
(2) swap_glyph_names against the abstract swap `swap_spec` (conjugation by the transposition on outlines, widths, anchors,
    component base names, kerning keys, group members; unicodes / lib / height untouched), groups rebuilt as NEW lists
    (the old list objects keep their content), swapping twice restores, missing glyph -> InstantiatorError and no change.
(3) location_to_key is canonical: equal for two dicts iff they are equal as mappings (all insertion orders, <= 3 axes).
"""
from __future__ import annotations

import copy
import itertools
import json
import math
import os
import random
import traceback

from vcheck.extra import hook

ROOT = os.path.dirname(os.path.dirname(os.path.dirname(os.path.abspath(__file__))))
PID = "C19"


def write_replay(name, payload):
    d = os.path.join(os.environ.get("VERIF_OUT", os.path.join(ROOT, "out")), PID, "replay")
    os.makedirs(d, exist_ok=True)
    fn = "".join(ch if ch.isalnum() or ch in "._-@#" else "_" for ch in name) + ".json"
    p = os.path.join(d, fn)
    with open(p, "w") as f:
        json.dump(payload, f, indent=1, default=str)
    return p


class Violation(Exception):
    def __init__(self, clause, detail, case):
        super().__init__(clause)
        self.clause, self.detail, self.case = clause, detail, case


def ot_round(v):
    return int(math.floor(v + 0.5))


# =====================================================================================================
# abstract views of real fonts


def freeze(o):
    """plain, comparable, JSON-able copy of nested data"""
    if isinstance(o, dict):
        return {str(k): freeze(v) for k, v in sorted(o.items(), key=lambda kv: str(kv[0]))}
    if isinstance(o, (list, tuple)):
        return [freeze(x) for x in o]
    if isinstance(o, (int, float, str, bool, type(None))):
        return o
    if hasattr(o, "__dict__") or hasattr(o, "__slots__"):
        d = {}
        for k in list(getattr(o, "__dict__", {})) + [s for c in type(o).__mro__ for s in getattr(c, "__slots__", ())]:
            if k.startswith("__"):
                continue
            try:
                d[k.lstrip("_")] = freeze(getattr(o, k))
            except Exception:  # noqa
                pass
        return {"<" + type(o).__name__ + ">": d}
    return repr(o)


def glyph_view(g):
    from fontTools.pens.recordingPen import RecordingPointPen

    pen = RecordingPointPen()
    g.drawPoints(pen)
    contours, components = [], []
    for op, args, kwargs in pen.value:
        if op == "beginPath":
            contours.append([])
        elif op == "addPoint":
            (x, y), typ, smooth = args[0], args[1], args[2]
            contours[-1].append([x, y, typ, bool(smooth)])
        elif op == "addComponent":
            components.append([args[0], list(args[1])])
    return {
        "outline": {"contours": contours, "components": components},
        "width": g.width,
        "height": g.height,
        "anchors": [[a.name, a.x, a.y] for a in g.anchors],
        "unicodes": list(g.unicodes),
        "lib": freeze(dict(g.lib)),
    }


from fontTools.ufoLib import fontInfoAttributesVersion3 as INFO_ATTRS  # noqa: E402

INFO_NUMBERS = ["unitsPerEm", "ascender", "descender", "xHeight", "capHeight", "italicAngle", "openTypeOS2WeightClass", "openTypeOS2WidthClass"]


def font_view(font, layer=None):
    lay = font.layers.defaultLayer if layer is None else font.layers[layer]
    return {
        "glyphs": {g.name: glyph_view(g) for g in lay},
        "order": list(lay.keys()),
        "kerning": {"|".join(k): v for k, v in font.kerning.items()},
        "groups": {k: list(v) for k, v in font.groups.items()},
        "lib": freeze(dict(font.lib)),
        "info": {"<Info>": {a: freeze(getattr(font.info, a, None)) for a in INFO_ATTRS if getattr(font.info, a, None) is not None}},
        "features": font.features.text,
    }


def designspace_view(ds):
    """deep snapshot of everything reachable from the sources (frame of generate_instance)"""
    seen = {}
    fonts = []
    for s in ds.sources:
        if id(s.font) not in seen:
            seen[id(s.font)] = len(fonts)
            f = s.font
            fonts.append({"layers": {l.name: font_view(f, l.name)["glyphs"] for l in f.layers}, **{k: v for k, v in font_view(f).items() if k != "glyphs"}})
    return {
        "fonts": fonts,
        "sources": [{"font": seen[id(s.font)], "location": dict(s.location), "layerName": s.layerName, "name": s.name} for s in ds.sources],
        "axes": [freeze(a) for a in ds.axes],
        "rules": [freeze(r) for r in ds.rules],
        "lib": freeze(dict(ds.lib)),
    }


# =====================================================================================================
# the abstract swap


def sigma(a, b, n):
    return b if n == a else a if n == b else n


def swap_spec(view, a, b):
    """The specification of swap_glyph_names on a font view: conjugation by the transposition (a b)."""
    out = copy.deepcopy(view)
    for n, g in view["glyphs"].items():
        src = view["glyphs"][sigma(a, b, n)]
        o = out["glyphs"][n]
        o["outline"] = {
            "contours": copy.deepcopy(src["outline"]["contours"]),
            "components": [[sigma(a, b, base), list(tr)] for base, tr in src["outline"]["components"]],
        }
        o["width"] = src["width"]
        o["anchors"] = copy.deepcopy(src["anchors"])
        # unicodes, lib, height: untouched
    out["kerning"] = {}
    for k, v in view["kerning"].items():
        f, s = k.split("|")
        out["kerning"]["|".join((sigma(a, b, f), sigma(a, b, s)))] = v
    out["groups"] = {g: [sigma(a, b, m) for m in ms] for g, ms in view["groups"].items()}
    return out


def diff(a, b, path=""):
    """first difference between two frozen structures (for the replay file)"""
    if type(a) is not type(b) and not (isinstance(a, (int, float)) and isinstance(b, (int, float))):
        return f"{path}: {a!r} != {b!r}"
    if isinstance(a, dict):
        for k in sorted(set(a) | set(b), key=str):
            if k not in a or k not in b:
                return f"{path}/{k}: only on one side ({'left' if k in a else 'right'})"
            d = diff(a[k], b[k], f"{path}/{k}")
            if d:
                return d
        return None
    if isinstance(a, list):
        if len(a) != len(b):
            return f"{path}: length {len(a)} != {len(b)}"
        for i, (x, y) in enumerate(zip(a, b)):
            d = diff(x, y, f"{path}[{i}]")
            if d:
                return d
        return None
    return None if a == b else f"{path}: {a!r} != {b!r}"


# =====================================================================================================
# (2) swap_glyph_names conformance


def swap_fonts(rng, n):
    """real fonts to swap in: masters of the families (components, anchors, kerning, kerning + non-kerning groups) and variations"""
    from contracts import c19, rtlib

    fonts = []
    for k in range(n):
        loc = {"wght": rng.choice([100, 400, 650, 900]), "wdth": rng.choice([75, 100])}
        d = c19.rt_master_font_desc(loc, k % 3, frac=bool(k % 2))
        if k % 3 == 1:
            # one swapped glyph referencing the other, and a third glyph referencing both
            d["glyphs"]["a"]["components"] = [["b", [1, 0, 0, 1, 5, 5]]]
            d["glyphs"]["a.alt"]["components"] = [["a", [1, 0, 0, 1, 1, 2]], ["b", [2, 0, 0, 2, 0, 0]]]
            d["kerning"].update({"a|a.alt": 1.5, "a.alt|a": -2.5, "a|a": 3, "a.alt|a.alt": 4, "c|a.alt": 9})
        if k % 4 == 2:
            d["groups"] = {}
            d["kerning"] = {}
        d["glyphs"]["a"]["lib"] = {"com.example.mark": ["a", k]}
        d["glyphs"]["a"]["height"] = 1000 + k
        d["glyphs"]["a.alt"]["height"] = 900
        fonts.append((d, rtlib.build_ufo(d, "defcon" if k % 5 == 4 else "ufoLib2")))
    return fonts


def check_swaps(tier, rng):
    from ufo2ft.instantiator import InstantiatorError, swap_glyph_names

    n = 12 if tier == "quick" else 80
    evals = 0
    for desc, font in swap_fonts(rng, n):
        names = list(font.keys())
        pairs = [("a", "a.alt"), ("a.alt", "a"), ("a", "b"), ("c", "a"), ("e", "s"), ("b", "c")]
        if tier != "quick":
            pairs += [tuple(rng.sample(names, 2)) for _ in range(4)]
        for a, b in pairs:
            f = copy.deepcopy(font)
            before = font_view(f)
            old_groups = {k: (v, list(v)) for k, v in f.groups.items()}  # the list OBJECTS and their content
            old_kerning_obj = f.kerning
            swap_glyph_names(f, a, b)
            after = font_view(f)
            evals += 1
            case = {"check": "swap", "font": desc, "ufo_module": type(font).__module__, "swap": [a, b]}
            d = diff(swap_spec(before, a, b), after)
            if d:
                raise Violation("observer.swap.conjugation", d, case)
            if list(after["glyphs"]) != list(before["glyphs"]):
                raise Violation("observer.swap.glyph-set", "glyph names / order changed", case)
            for k, (lst, content) in old_groups.items():
                if lst != content:
                    raise Violation("observer.swap.groups-not-edited-in-place", f"group {k}: the list object that was in font.groups before the swap changed from {content} to {lst}", case)
                if f.groups[k] is lst and any(m in (a, b) for m in content):
                    raise Violation("observer.swap.groups-new-lists", f"group {k}: font.groups still holds the old list object", case)
            # involution: swapping twice restores the font
            swap_glyph_names(f, a, b)
            d = diff(before, font_view(f))
            if d:
                raise Violation("observer.swap.involution", d, case)
            swap_glyph_names(f, a, b)
            swap_glyph_names(f, b, a)
            d = diff(before, font_view(f))
            if d:
                raise Violation("observer.swap.involution-symmetric", d, case)
        # missing glyph: error, nothing changed
        f = copy.deepcopy(font)
        before = font_view(f)
        for a, b in (("a", "nope"), ("nope", "a")):
            try:
                swap_glyph_names(f, a, b)
            except InstantiatorError:
                pass
            else:
                raise Violation("observer.swap.missing-glyph-raises", f"no InstantiatorError for {a},{b}", {"check": "swap", "font": desc, "swap": [a, b]})
            evals += 1
            d = diff(before, font_view(f))
            if d:
                raise Violation("observer.swap.missing-glyph-no-change", d, {"check": "swap", "font": desc, "swap": [a, b]})
    return evals


# =====================================================================================================
# (3) location_to_key


def check_location_keys():
    from ufo2ft.instantiator import location_to_key

    axes = [("wght", 0.0), ("wdth", 1.0), ("opsz", -0.5)]
    dicts = []
    for k in range(0, 4):
        for sub in itertools.combinations(axes, k):
            for perm in itertools.permutations(sub):
                dicts.append(dict(perm))
            if sub:
                # same axes, one value changed
                first = sub[0]
                dicts.append(dict(((first[0], first[1] + 0.25),) + sub[1:]))
    n = 0
    for x in dicts:
        for y in dicts:
            n += 1
            if (location_to_key(x) == location_to_key(y)) != (x == y):
                raise Violation("observer.location-key.canonical", f"{x} vs {y}: keys {location_to_key(x)} / {location_to_key(y)}", {"check": "location_to_key", "x": list(x.items()), "y": list(y.items())})
            hash(location_to_key(x))
    return n


# =====================================================================================================
# (1) instances


def instance_descriptor(loc, k=0):
    from fontTools import designspaceLib

    i = designspaceLib.InstanceDescriptor()
    i.location = dict(loc)
    i.familyName = "Fam"
    i.styleName = f"I{k}"
    return i


def family_locations(ds, family):
    """(master locations, other locations) in design coordinates"""
    axes = {a.name: a for a in ds.axes}
    masters = [dict(s.location) for s in ds.sources]
    w = axes["Weight"]
    lo, df, hi = w.map_forward(w.minimum), w.map_forward(w.default), w.map_forward(w.maximum)
    ws = sorted({lo, hi, df, lo + (hi - lo) * 0.25, lo + (hi - lo) * 0.5, lo + (hi - lo) * 0.8125, df + (hi - df) * 0.375})
    others = []
    if "Width" in axes:
        for x in ws:
            for d in (75, 87.5, 100):
                others.append({"Weight": x, "Width": d})
        others.append({"Width": 80})  # weight left out: default
    else:
        others = [{"Weight": x} for x in ws]
        others.append({})  # everything left out: the default location
    full = lambda l: {**{a.name: a.map_forward(a.default) for a in ds.axes}, **l}  # noqa: E731
    mkeys = [sorted(full(m).items()) for m in masters]
    others = [o for o in others if sorted(full(o).items()) not in mkeys]
    return masters, others


def rule_on(ds, loc):
    from fontTools import designspaceLib

    full = {**{a.name: a.map_forward(a.default) for a in ds.axes}, **loc}
    return any(designspaceLib.evaluateRule(r, full) for r in ds.rules)


def orders(ds, masters, others, rng):
    """the generation histories: (name, list of locations)"""
    on = [l for l in masters + others if rule_on(ds, l)]
    off = [l for l in masters + others if not rule_on(ds, l)]
    alt = [x for pair in itertools.zip_longest(on, off) for x in pair if x is not None]
    sh = masters + others
    sh = sh[:]
    rng.shuffle(sh)
    return [
        ("masters-first", masters + others + masters + others),
        ("reversed", list(reversed(masters + others)) * 2),
        ("rule-alternating", alt + list(reversed(alt))),
        ("shuffled", sh + sh),
    ]


def independent_values(ds, view_of_source, loc, getter):
    """model's blend computed independently of ufo2ft/fontMath: VariationModel on raw numbers.
    view_of_source: list of (design location, value-or-None)"""
    from fontTools.varLib import models

    bounds = {a.name: (a.map_forward(a.minimum), a.map_forward(a.default), a.map_forward(a.maximum)) for a in ds.axes}
    default = {a.name: a.map_forward(a.default) for a in ds.axes}
    locs, vals = [], []
    for sloc, v in view_of_source:
        if v is None:
            continue
        locs.append(models.normalizeLocation({**default, **sloc}, bounds))
        vals.append(v)
    at = models.normalizeLocation({**default, **loc}, bounds)
    for l, v in zip(locs, vals):
        if l == at:
            return v  # a master location reproduces the master
    m = models.VariationModel(locs, [a.name for a in ds.axes])
    if vals and isinstance(vals[0], list):
        return [m.interpolateFromMasters(at, [v[j] for v in vals]) for j in range(len(vals[0]))]
    return m.interpolateFromMasters(at, vals)


def glyph_numbers(gv):
    """all interpolated numbers of a glyph view, as one flat list"""
    out = [gv["width"]]
    for c in gv["outline"]["contours"]:
        for p in c:
            out += [p[0], p[1]]
    for base, tr in gv["outline"]["components"]:
        out += list(tr)
    for a in gv["anchors"]:
        out += [a[1], a[2]]
    return out


def check_family(family, cfg, tier, rng, stats):
    from contracts import c19
    from ufo2ft.instantiator import Instantiator

    def fresh_ds():
        return c19.rt_designspace(family, frac=cfg["frac"], rules=cfg["rules"], empty_s=cfg["empty_s"], extra_glyph=cfg["extra_glyph"])

    rnd = cfg["round"]
    ds = fresh_ds()
    masters, others = family_locations(ds, family)
    case0 = {"check": "instances", "family": family, "config": cfg}
    before = designspace_view(ds)
    inst = Instantiator.from_designspace(ds, round_geometry=rnd)
    source_ids = c19._reachable_ids([s.font for s in ds.sources])
    default_view = font_view(ds.default.font, ds.default.layerName)
    default_names = list(default_view["glyphs"])
    reference = {}

    def ref_for(loc):
        key = json.dumps(sorted(loc.items()))
        if key not in reference:
            ds2 = fresh_ds()
            inst2 = Instantiator.from_designspace(ds2, round_geometry=rnd)
            reference[key] = font_view(inst2.generate_instance(instance_descriptor(loc)))
        return reference[key]

    src_views = []
    for s in ds.sources:
        src_views.append((dict(s.location), font_view(s.font, s.layerName), s.layerName is not None))

    for oname, seq in orders(ds, masters, others, rng):
        if tier == "quick" and oname == "shuffled":
            continue
        for step, loc in enumerate(seq):
            case = {**case0, "order": oname, "history": [dict(l) for l in seq[: step + 1]]}
            font = inst.generate_instance(instance_descriptor(loc))
            stats["instances"] += 1
            v = font_view(font)
            # ---- history independence
            d = diff(ref_for(loc), v)
            if d:
                raise Violation("observer.history-independent", f"instance at {loc} (step {step} of order {oname}) differs from a fresh instantiator's: {d}", case)
            # ---- glyph set / unicodes
            if list(v["glyphs"]) != default_names:
                raise Violation("observer.glyph-set", f"instance glyphs {list(v['glyphs'])} != default source's {default_names}", case)
            for n in default_names:
                if v["glyphs"][n]["unicodes"] != default_view["glyphs"][n]["unicodes"]:
                    raise Violation("observer.unicodes-from-default", f"{n}: {v['glyphs'][n]['unicodes']}", case)
            # ---- copies, not shares
            shared = c19._reachable_ids(font) & source_ids
            if shared:
                raise Violation("observer.instance-shares-nothing-with-sources", f"{len(shared)} mutable object(s) of the instance are reachable from the source fonts", case)
            if v["lib"].get("public.skipExportGlyphs") != ["e", "zzz"]:
                raise Violation("observer.lib", "designspace skipExportGlyphs not copied", case)
            exp_lib = {**default_view["lib"], "public.skipExportGlyphs": ["e", "zzz"], "designspace.location": v["lib"].get("designspace.location")}
            d = diff(exp_lib, v["lib"])
            if d:
                raise Violation("observer.lib-copied", d, case)
            # ---- the expected font: independent blend of the raw source numbers, then the abstract swap
            check_values(ds, src_views, default_view, loc, v, rnd, case, stats, family)
        # ---- frame, after every history
        after = designspace_view(ds)
        d = diff(before, after)
        if d:
            raise Violation("observer.sources-unchanged", d, {**case0, "order": oname, "history": [dict(l) for l in seq]})
    return


def check_values(ds, src_views, default_view, loc, v, rnd, case, stats, family):
    from fontTools import designspaceLib

    full = {**{a.name: a.map_forward(a.default) for a in ds.axes}, **loc}
    tol = 1e-6

    def close(exp, got, what, never_rounded=False):
        stats["values"] += 1
        if rnd and not never_rounded:
            if abs((exp + 0.5) - round(exp + 0.5)) < 1e-7:
                return  # numerically on a rounding boundary
            if got != ot_round(exp):
                raise Violation("observer.blend-rounded", f"{what}: expected otRound({exp}) = {ot_round(exp)}, got {got!r}", case)
        elif abs(exp - got) > tol:
            raise Violation("observer.blend", f"{what}: expected {exp}, got {got!r}", case)

    # swaps that apply at this location, in rule order (independent of process_rules_swaps)
    swaps = []
    for r in ds.rules:
        if designspaceLib.evaluateRule(r, full):
            swaps += [(a, b) for a, b in r.subs if a in default_view["glyphs"]]

    # expected glyph numbers per glyph name BEFORE swapping
    expected = {"glyphs": {}, "kerning": {}, "groups": {}}
    filtered_glyphs = set()  # glyphs whose empty masters are dropped (the plain two-master blend does not apply to them)
    for n, dg in default_view["glyphs"].items():
        present = [(sl, sv["glyphs"].get(n)) for sl, sv, _ in src_views]
        # empty-glyph rule of collect_glyph_masters, stated independently
        def is_empty(g):
            return not g["outline"]["contours"] and not g["outline"]["components"]

        dflt_empty = is_empty(dg)
        other_empty = any(g is not None and is_empty(g) and g is not dg for _, g in present)
        if not dflt_empty and other_empty:
            filtered_glyphs.add(n)
            present = [(sl, g if g is not None and not is_empty(g) else None) for sl, g in present]
        nums = independent_values(ds, [(sl, None if g is None else glyph_numbers(g)) for sl, g in present], loc, None)
        # structure from the default
        g = copy.deepcopy(dg)
        it = iter(nums)
        g["width"] = next(it)
        for c in g["outline"]["contours"]:
            for p in c:
                p[0], p[1] = next(it), next(it)
        for comp in g["outline"]["components"]:
            comp[1] = [next(it) for _ in comp[1]]
        for a in g["anchors"]:
            a[1], a[2] = next(it), next(it)
        expected["glyphs"][n] = g
    # kerning: masters are the non-layer sources; missing pairs count as 0 (fontMath)
    kern_srcs = [(sl, sv["kerning"]) for sl, sv, is_layer in src_views if not is_layer or sv is default_view]
    pairs = sorted({k for _, kv in kern_srcs for k in kv})
    for k in pairs:
        expected["kerning"][k] = independent_values(ds, [(sl, kv.get(k, 0)) for sl, kv in kern_srcs], loc, None)
    expected["groups"] = copy.deepcopy(default_view["groups"])
    for a, b in swaps:
        if a != b:
            expected = {**swap_spec({**expected, "glyphs": expected["glyphs"]}, a, b)}
    # compare
    for n, eg in expected["glyphs"].items():
        gg = v["glyphs"][n]
        if [c[0] for c in eg["outline"]["components"]] != [c[0] for c in gg["outline"]["components"]]:
            raise Violation("observer.component-bases", f"{n}: {[c[0] for c in gg['outline']['components']]} expected {[c[0] for c in eg['outline']['components']]}", case)
        if [a[0] for a in eg["anchors"]] != [a[0] for a in gg["anchors"]] or [len(c) for c in eg["outline"]["contours"]] != [len(c) for c in gg["outline"]["contours"]]:
            raise Violation("observer.structure", f"{n}: anchors / contour structure differs", case)
        en, gn = glyph_numbers(eg), glyph_numbers(gg)
        scale_slots = component_scale_slots(eg)  # the 2x2 part of component transformations is never rounded by fontMath
        for i, (x, y) in enumerate(zip(en, gn)):
            close(x, y, f"glyph {n} number {i}", never_rounded=i in scale_slots)
    if set(expected["kerning"]) != set(v["kerning"]):
        raise Violation("observer.kerning-keys", f"{sorted(v['kerning'])} expected {sorted(expected['kerning'])}", case)
    for k, x in expected["kerning"].items():
        close(x, v["kerning"][k], f"kerning {k}")
    d = diff(expected["groups"], v["groups"])
    if d:
        raise Violation("observer.groups", d, case)
    # two-master axis: the plain linear blend
    if family == "1ax-2m" and 400 <= full["Weight"] <= 900:
        # between the two masters (outside that span varLib does not extrapolate: the nearer master is used)
        w = full["Weight"]
        t = (w - 400) / 500.0
        m0, m1 = src_views[0][1], src_views[1][1]
        for n in default_view["glyphs"]:
            if n in filtered_glyphs:
                continue
            a0, a1 = glyph_numbers(m0["glyphs"][n]), glyph_numbers(m1["glyphs"][n])
            tgt = n
            for a, b in swaps:
                tgt = sigma(a, b, tgt)
            got = glyph_numbers(v["glyphs"][tgt])
            comp_slots = component_scale_slots(m0["glyphs"][n])
            for i, (x0, x1, y) in enumerate(zip(a0, a1, got)):
                close((1 - t) * x0 + t * x1, y, f"linear blend of glyph {n} number {i} at t={t}", never_rounded=i in comp_slots)
        for k in set(m0["kerning"]) | set(m1["kerning"]):
            f, s = k.split("|")
            for a, b in swaps:
                f, s = sigma(a, b, f), sigma(a, b, s)
            close((1 - t) * m0["kerning"].get(k, 0) + t * m1["kerning"].get(k, 0), v["kerning"]["|".join((f, s))], f"linear blend of kerning {k} at t={t}")
    # info numbers at master locations / blend
    info_srcs = [(sl, sv["info"]) for sl, sv, is_layer in src_views if not is_layer or sv is default_view]
    vi = v["info"]["<Info>"] if "<Info>" in v["info"] else next(iter(v["info"].values()))
    for attr in ("ascender", "descender", "xHeight", "capHeight"):
        vals = [(sl, (si.get("<Info>") or next(iter(si.values()))).get(attr)) for sl, si in info_srcs]
        close(independent_values(ds, vals, loc, None), vi.get(attr), f"info.{attr}")
    # OS/2 classes come from the axis USER values (masters do not set them): clamp, then round
    from contracts import c19

    for a in ds.axes:
        user = a.map_backward(full[a.name])
        if a.tag == "wght":
            exp = ot_round(c19.clampf(user, 1, 1000))
            if vi.get("openTypeOS2WeightClass") != exp:
                raise Violation("observer.weight-class-from-axis", f"user value {user}: expected {exp}, got {vi.get('openTypeOS2WeightClass')}", case)
        if a.tag == "wdth":
            exp = ot_round(c19.wdth_class_real(c19.clampf(user, 50, 200)))
            if vi.get("openTypeOS2WidthClass") != exp:
                raise Violation("observer.width-class-from-axis", f"user value {user}: expected {exp}, got {vi.get('openTypeOS2WidthClass')}", case)


def component_scale_slots(gv):
    """positions (in glyph_numbers order) of the 2x2 part of component transformations: fontMath never rounds those"""
    pos = 1 + sum(2 * len(c) for c in gv["outline"]["contours"])
    slots = set()
    for base, tr in gv["outline"]["components"]:
        slots |= {pos, pos + 1, pos + 2, pos + 3}
        pos += 6
    return slots


# =====================================================================================================


def configs(tier):
    out = []
    for rnd in (True, False):
        out.append({"round": rnd, "frac": True, "rules": True, "empty_s": False, "extra_glyph": False})
    out.append({"round": True, "frac": True, "rules": True, "empty_s": True, "extra_glyph": True})
    if tier != "quick":
        out.append({"round": False, "frac": False, "rules": False, "empty_s": True, "extra_glyph": True})
        out.append({"round": True, "frac": False, "rules": True, "empty_s": False, "extra_glyph": True})
    return out


# =====================================================================================================
# frame obligations: generating instances never alters the sources (deductive: points-to / effect analysis, pyvc.frames)

PIPELINE = {
    "kind": "pipeline", "name": "Instantiator.generate_instance", "source": "designspace",
    "first": {"module": "ufo2ft.instantiator", "name": "Instantiator.from_designspace", "args": ["SRC"]},
    "then": [{"method": "generate_instance", "args": ["SRC"]}, {"method": "generate_glyph_instance", "args": [None, None]}],
    "cuts": [],
}
# the frame's two explicit exceptions, both in Instantiator.from_designspace itself (the CALLER'S DesignSpaceDocument, not the source fonts):
FRAME_EXCEPTIONS = {
    "designspace.loadSourceFonts(openFontFactory())": "documented behaviour of the entry point: source fonts that are not loaded yet are opened and stored in the "
    "caller's SourceDescriptors (.font); fonts that are already loaded are not touched",
    "if designspace.findDefault() is None:": "fontTools' findDefault() assigns the document's derived attribute `default` (the site of known finding F18, which is recorded "
    "for C07; C19 is not in its property list, so it is attributed here by site): benign cache attribute, no source font is touched",
}


def frame_part():
    """One obligation per mutation site reachable from from_designspace -> generate_instance / generate_glyph_instance: its target is not (reachable
    from) the sources.  Alarms outside the two documented exceptions are violations (no concrete input: the analysis is static)."""
    from vcheck import framecheck as fc

    r = fc.run_roots([PIPELINE])[0]
    akeys = {(a["file"], a["line"], a["what"]): a for a in r["alarms"]}
    obligations = discharged = 0
    violations, excepted, samples = [], [], []
    for s_ in r["sites"]:
        obligations += 1
        a = akeys.get((s_["file"], s_["line"], s_["what"]))
        if a is None:
            discharged += 1
            if len(samples) < 3:
                samples.append({"obligation": f"{PID}.frame.{s_['file'].split('/')[-1]}:{s_['line']} `{s_['what']}` target not reachable from the sources", "touches": s_["touches"]})
    for a in r["alarms"]:
        if "Instantiator.from_designspace" in a["func"] and a["code"] in FRAME_EXCEPTIONS:
            excepted.append({"site": f"{a['file']}:{a['line']}", "code": a["code"], "why": FRAME_EXCEPTIONS[a["code"]]})
            continue
        name = f"{PID}.frame.sources-unchanged.{a['file'].split('/')[-1]}:{a['line']}"
        p = write_replay(name, {"property": PID, "obligation": name, "clause": "frame: from_designspace -> generate_instance / generate_glyph_instance never write to the sources", "case": None, "site": a,
                                "solver_output": f"points-to analysis: the sources are among the targets of `{a['what']}` at {a['file']}:{a['line']} ({a['code']}) in {a['func']}"})
        violations.append(f"VIOLATION property={PID} replay={p} obligation={name} no-failing-input-found")
    return {"obligations": obligations, "discharged": discharged, "excepted": excepted, "violations": violations, "samples": samples,
            "functions": r.get("functions"), "contexts": r.get("contexts"), "wall_s": r.get("wall_s"), "unknown_calls": r.get("unknown_calls")}


@hook(PID)
def observer(tier, seed):
    from contracts import c19

    rng = random.Random(seed)
    stats = {"instances": 0, "values": 0}
    res = {"bounded": [], "violations": [], "checker_errors": [], "evaluations": 0, "distinct": 0, "trusted": [], "assumptions": []}
    parts = []

    def run(name, fn, bound):
        try:
            n = fn()
            parts.append(name)
            res["bounded"].append({"clause": name, "stands_in_for": bound["for"], "bound": bound["bound"], "cases": n, "result": "ok"})
            res["evaluations"] += n or 0
            res["distinct"] += n or 0
        except Violation as v:
            p = write_replay(v.clause, {"property": PID, "obligation": f"{PID}.{v.clause}", "clause": v.clause, "detail": v.detail, "case": v.case,
                                        "reproduce": "python -m vcheck C19   (deterministic; the case describes family / configuration / history or font / swap)"})
            res["violations"].append(f"VIOLATION property={PID} replay={p} obligation={PID}.{v.clause}")
            res["bounded"].append({"clause": name, "stands_in_for": bound["for"], "bound": bound["bound"], "result": "VIOLATION " + v.clause})
        except Exception:  # noqa
            res["checker_errors"].append(f"C19 observer part {name} crashed: {traceback.format_exc()[-900:]}")

    run("swap_glyph_names == abstract swap", lambda: check_swaps(tier, rng),
        {"for": "swap_glyph_names contract (conjugation by the transposition; new group lists; involution; unicodes/lib untouched)",
         "bound": "12 (quick) / 80 (thorough) real ufoLib2/defcon fonts x 6-10 glyph pairs incl. one swapped glyph as a component of the other, a third glyph referencing both, and self-kerning pairs"})
    run("location_to_key canonical", check_location_keys,
        {"for": "location_to_key: equal keys iff equal mappings (sorted() is a library function)", "bound": "all dicts over <= 3 axes in all insertion orders, one perturbed value"})

    def fams():
        n0 = stats["instances"]
        for family in c19.FAMILIES:
            for cfg in configs(tier):
                check_family(family, cfg, tier, random.Random(seed), stats)
        return stats["instances"] - n0

    run("generate_instance observer (history, frame, glyph set, master reproduction, blend)", fams,
        {"for": "generate_instance / generate_glyph_instance / _generate_instance_info: glyph set, copies, frame (sources never altered), "
                "results independent of history, master reproduction, variation-model blend, linear blend on a two-master axis",
         "bound": f"{len(c19.FAMILIES)} families (1-2 axes, intermediate, sparse layer, sparse locations, axis map) x {len(configs(tier))} configurations "
                  "(round_geometry on/off, rules, empty-glyph master, extra glyphs) x 3-4 histories over all master locations and 7-21 other locations, each visited at least twice"})
    # guard: a run-time harness whose requires-clause cannot be evaluated would be skipped silently
    try:
        from pyvc import api, rt

        for c in api.CONTRACTS.values():
            if PID in c.props and c.runtime is not None:
                for desc in c.runtime.gen(random.Random(seed), 4)[:4]:
                    r = rt.run_case(c, c.runtime.build(desc), c.runtime.call)
                    if r["status"] == "skip":
                        res["checker_errors"].append(f"run-time harness of {c.key} skips its own generated case {desc}: {r.get('detail')}")
                        break
    except Exception:  # noqa
        res["checker_errors"].append("C19 harness guard crashed: " + traceback.format_exc()[-600:])
    # deductive frame part (counts as obligations; its two documented exceptions are listed, not counted as discharged)
    try:
        fp = frame_part()
        res["obligations"] = fp["obligations"] - len(fp["excepted"])
        res["discharged"] = fp["discharged"]
        res["violations"] += fp["violations"]
        res["frame"] = [{k: fp[k] for k in ("obligations", "discharged", "excepted", "samples", "contexts", "wall_s")}]
        res["assumptions"] += [f"frame exception at {e['site']} `{e['code']}`: {e['why']}" for e in fp["excepted"]]
        res["trusted"] += ["pyvc.frames points-to / effect analysis (library summaries for fontTools / fontMath / ufoLib2 as in C07)"]
    except Exception:  # noqa
        res["checker_errors"].append("C19 frame part crashed: " + traceback.format_exc()[-900:])
    res["explanation"] = (
        "contract-based deductive verification of the clamp functions, location_to_key, Variator.from_masters / instance_at, process_rules_swaps, "
        "collect_info/kerning/glyph_masters, Instantiator.generate_glyph_instance (cache invariant, master / blend, frame), replace_source_layers, "
        "swap_glyph_names (outline / width / anchors exchanged, components, kerning and groups conjugated), __post_init__, _generate_instance_info, "
        "generate_instance for a designspace without rules as a composition of these (glyph set, every glyph / kerning / info master-or-blend at the "
        "normalized design location, cache invariant), the involution and swap-fold lemmas of the abstract swap, and the frame (sources never written); "
        "generate_instance WITH rules (instance, then the swaps) and from_designspace are covered by a BOUNDED observer on real objects "
        f"({stats['instances']} instances, {stats['values']} compared numbers)"
    )
    res["trusted"] += [
        "fontMath arithmetic and extract*/round (MathGlyph, MathInfo, MathKerning)",
        "fontTools.varLib.models.VariationModel / normalizeLocation (used as the independent reference of the blend on raw numbers)",
        "fontTools.designspaceLib.evaluateRule",
    ]
    return res
